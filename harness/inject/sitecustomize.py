"""Loaded by spawned child interpreters when the harness puts this directory first on
PYTHONPATH and sets PWVERIF_TRACE=1.  Lands an asynchronous exception or a kill on a chosen
line event of the child's run loop.  The plan is carried in the worker's name:
   name = 'inj|<ordinal>:<action>|<ordinal>:<action>|log=<file>'
ordinals count 'line' events of the traced functions in the child's main thread."""
import os
import sys

if os.environ.get('PWVERIF_TRACE') == '1':
    import signal
    import struct
    import threading

    TRACED = {('process.py', '_run'), ('persistent_process.py', '_cleanup'),
              ('remote.py', '_run_backend'), ('persistent_remote.py', '_cleanup')}
    state = {'n': 0, 'plan': None, 'log': None}

    def parse(name):
        plan, log = {}, None
        if isinstance(name, str) and name.startswith('inj|'):
            for part in name.split('|')[1:]:
                if part.startswith('log='):
                    log = part[4:]
                elif part:
                    o, a = part.split(':')
                    plan[int(o)] = a
        return plan, log

    def local(frame, event, arg):
        if event != 'line':
            return local
        if state['plan'] is None:
            me = frame.f_locals.get('self')
            state['plan'], state['log'] = parse(getattr(me, '_name', None))
        n = state['n']
        state['n'] = n + 1
        if state['log']:
            with open(state['log'], 'a') as f:
                f.write(f'{n} {frame.f_code.co_name} {frame.f_lineno}\n')
        act = state['plan'].get(n)
        if act == 'ATerm':
            # a graceful terminate REQUEST: it reaches the main thread only through the child's own control thread
            me = frame.f_locals.get('self')
            ct = getattr(me, '_ctrl_thread_loc', None) or getattr(me, '_ctrl_thread', None)
            if ct is not None:
                ct.join(0.3)      # a control thread that has just been released needs a moment to finish: make the outcome definite
            act = 'AWTE' if (ct is not None and ct.is_alive()) else None
        if act == 'AWTE':
            from pyworkers.worker import WorkerTerminatedError
            me = frame.f_locals.get('self')
            try:
                me._terminate_req = True      # what the control thread does before raising
            except Exception:
                pass
            try:
                # remote backend: the local control thread that delivers a terminate ends by itself right afterwards;
                # stand in for that, or a child interrupted before its release step would be kept alive by a thread
                # which in reality is already gone
                ct = getattr(me, '_ctrl_thread_loc', None)
                if ct is not None and ct.is_alive():
                    me._ctrl_comms.parent_end.send(None)
                    ct.join(2)
            except Exception:
                pass
            raise WorkerTerminatedError()
        if act == 'AKill':
            os.kill(os.getpid(), signal.SIGKILL)
        if act == 'AKillMidSend':
            me = frame.f_locals.get('self')
            try:
                if frame.f_code.co_filename.endswith('remote.py'):
                    me._socket.sendall(struct.pack('!I', 1000) + b'x' * 10)   # remote kinds: the data socket to the parent
                else:
                    fd = me._comms.child_end.fileno()
                    os.write(fd, struct.pack('!i', 1000) + b'x' * 10)   # a message cut after 10 of 1000 bytes
            except Exception:
                pass
            os.kill(os.getpid(), signal.SIGKILL)
        return local

    def glob(frame, event, arg):
        co = frame.f_code
        if (os.path.basename(co.co_filename), co.co_name) in TRACED and threading.current_thread() is threading.main_thread():
            return local
        return None

    sys.settrace(glob)
    threading.settrace(glob)
