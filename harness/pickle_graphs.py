"""Graphs of opt-in / plain objects for C14 and C15: builds real Python objects from a
small term language, runs remote_pickle on them with load-time patches and observes
what every opt-in instance was restored with; renders the same case as a Coq term for
Pickle/State.v; implements the specification of C14/C15 directly (the oracle)."""
import copy
import pickle
import random

LOG = []      # (event, instance id, detail)


class OptBase:
    """duck-typed opt-in: __getstate__ takes `remote`"""
    def __getstate__(self, remote=False):
        LOG.append(('getstate', self.__dict__.get('_id'), remote))
        return dict(self.__dict__)

    def __setstate__(self, state):
        LOG.append(('setstate', state.get('_id'), dict(state)))
        self.__dict__.update(state)


class OptNoSet:
    def __getstate__(self, remote=False):
        LOG.append(('getstate', self.__dict__.get('_id'), remote))
        return dict(self.__dict__)


class PlainObj:
    pass


# ---------------------------------------------------------------- terms
# term := ('atom', z) | ('lst', [term]) | ('pobj', [(k, term)]) | ('opt', id, hs, [(k, term)]) | ('ref', id)

def build(term, objs):
    t = term[0]
    if t == 'atom':
        return term[1]
    if t == 'lst':
        return [build(x, objs) for x in term[1]]
    if t == 'pobj':
        o = PlainObj()
        for k, v in term[1]:
            setattr(o, f'f{k}', build(v, objs))
        return o
    if t == 'opt':
        o = (OptBase if term[2] else OptNoSet)()
        o._id = term[1]
        objs[term[1]] = o
        for k, v in term[3]:
            setattr(o, f'f{k}', build(v, objs))
        return o
    if t == 'ref':
        return objs[term[1]]
    raise ValueError(t)


def coq_node(term):
    t = term[0]
    if t == 'atom':
        return f'Atom {term[1]}'
    if t == 'lst':
        return 'Lst [' + '; '.join(coq_node(x) for x in term[1]) + ']'
    if t == 'pobj':
        return 'PObj [' + '; '.join(f'({k}, {coq_node(v)})' for k, v in term[1]) + ']'
    if t == 'opt':
        return (f'Opt {term[1]}%nat {"true" if term[2] else "false"} ['
                + '; '.join(f'({k}, {coq_node(v)})' for k, v in term[3]) + ']')
    return f'Ref {term[1]}%nat'


def opt_ids(term, acc=None):
    acc = [] if acc is None else acc
    if term[0] == 'opt':
        acc.append(term[1])
        for _, v in term[3]:
            opt_ids(v, acc)
    elif term[0] == 'lst':
        for x in term[1]:
            opt_ids(x, acc)
    elif term[0] == 'pobj':
        for _, v in term[1]:
            opt_ids(v, acc)
    return acc


def features(term, patches):
    """domains of the known findings (what is left after the repairs of the patching machinery):
    - a directly held child whose FIRST occurrence (in pickling order) is not that attribute itself but lies inside an
      earlier attribute of the same holder: it is announced by the holder, yet restored while another entry is on top;
    - a dictionary patch addressed at a child which is only referred to from there (restored elsewhere)."""
    f = set()

    def walk(t, seen, p):
        # mirrors the bookkeeping of remote_reduce: `seen` = ids met or announced so far
        if t[0] == 'opt':
            seen.add(t[1])
            fresh_refs = []
            for k, v in t[3]:
                if v[0] in ('opt', 'ref') and v[1] not in seen:
                    seen.add(v[1])
                    if v[0] == 'ref':
                        fresh_refs.append(k)
            if fresh_refs:
                f.add('direct-child-first-occurs-inside-an-earlier-attribute')
            for k, v in t[3]:
                sub = (p or {}).get(k) if isinstance(p, dict) else None
                if v[0] == 'ref' and isinstance(sub, dict):
                    f.add('dict-patch-for-a-child-that-is-only-referred-to')
                walk(v, seen, sub if (isinstance(sub, dict) and v[0] == 'opt') else None)
        elif t[0] == 'lst':
            for x in t[1]:
                walk(x, seen, None)
        elif t[0] == 'pobj':
            for k, v in t[1]:
                walk(v, seen, None)
    walk(term, set(), patches if term[0] == 'opt' else None)
    return f


# ---------------------------------------------------------------- heap of patch dicts
def build_patches(pt):
    """pt: nested dict with integer keys (sub-dicts may be shared by identity).
    Returns (real dict keyed by attribute names, {id(real dict): addr}, {addr: entries})."""
    memo, addr_of, heap = {}, {}, {}

    def go(d):
        if id(d) in memo:
            return memo[id(d)]
        real = {}
        memo[id(d)] = real
        a = len(addr_of)
        addr_of[id(real)] = a
        ent = []
        for k, v in d.items():
            if isinstance(v, dict):
                rv = go(v)
                real[f'f{k}'] = rv
                ent.append((k, ('dict', addr_of[id(rv)])))
            else:
                real[f'f{k}'] = v
                ent.append((k, ('val', v)))
        heap[a] = ent
        return real
    top = go(pt)
    return top, addr_of, heap


def read_heap(real_dicts, addr_of):
    """the caller's dict objects as they are after the call"""
    out = {}
    for d, a in real_dicts:
        ent = []
        for k, v in d.items():
            if isinstance(v, dict) and id(v) in addr_of:
                ent.append((name_key(k), ('dict', addr_of[id(v)])))
            elif isinstance(v, (OptBase, OptNoSet)):
                ent.append((name_key(k), ('obj', v.__dict__.get('_id'))))
            else:
                ent.append((name_key(k), ('val', v)))
        out[a] = ent
    return out


def coq_pdict(pt):
    """nested patch dictionary (integer keys) as a Coq term of type pdict"""
    def pv(v):
        return f'PDict {coq_pdict(v)}' if isinstance(v, dict) else f'PVal {v}'
    return '[' + '; '.join(f'({k}, {pv(v)})' for k, v in (pt or {}).items()) + ']'


def real_patches(pt):
    """the dictionary handed to loads: attribute names as keys, nested dictionaries as they are"""
    return {f'f{k}': (real_patches(v) if isinstance(v, dict) else v) for k, v in pt.items()}


def snapshot(d):
    """structure AND identity of a (nested) dictionary of the caller, to be compared after the call"""
    return [(k, (id(v), snapshot(v)) if isinstance(v, dict) else ('val', repr(v))) for k, v in d.items()]


def coq_pv(p):
    return {'val': 'PVal {}', 'dict': 'PDictRef {}%nat', 'obj': 'PObjRef {}%nat'}[p[0]].format(p[1])


def coq_heap(heap):
    return '[' + '; '.join(f'({a}%nat, [' + '; '.join(f'({k}, {coq_pv(v)})' for k, v in ent) + '])' for a, ent in sorted(heap.items())) + ']'


def name_key(k):
    return int(k[1:]) if isinstance(k, str) and k.startswith('f') else -1


CTX_ADDR = 1000


def dump_term(term):
    from pyworkers import remote_pickle
    objs = {}
    del LOG[:]
    g = build(term, objs)
    data = remote_pickle.dumps(g)
    get_log = [(e[1], e[2]) for e in LOG if e[0] == 'getstate']
    return data, get_log


class RecreateLog:
    """records, in order, which reduce callable the pickler chose for every opt-in instance (announced or not) and the
    children names it passed - read while the stream is loaded (the callables are looked up by name at load time)"""

    def __enter__(self):
        from pyworkers._remote_pickle.state import RemoteState
        self.rs = RemoteState
        self.saved = {}
        self.calls = []
        for nm, flag in (('recreate_obj_and_patch_setstate', True), ('recreate_unannounced_obj_and_patch_setstate', False)):
            orig = RemoteState.__dict__.get(nm)
            if orig is None:
                continue
            self.saved[nm] = orig
            fn = orig.__func__ if isinstance(orig, staticmethod) else orig

            def wrapper(newobj, newargs, children_names, _fn=fn, _flag=flag, _nm=nm):
                if not (self.calls and self.calls[-1][2] == 'inner'):
                    self.calls.append(([name_key(k) for k in children_names], _flag, 'outer'))
                    if not _flag:
                        # the unannounced variant calls the announced one itself: do not count that twice
                        self.calls[-1] = (self.calls[-1][0], _flag, 'inner')
                        try:
                            return _fn(newobj, newargs, children_names)
                        finally:
                            self.calls[-1] = (self.calls[-1][0], _flag, 'outer')
                    return _fn(newobj, newargs, children_names)
                return _fn(newobj, newargs, children_names)
            setattr(RemoteState, nm, staticmethod(wrapper))
        # classes without __setstate__ get their state through RemoteState.default_setstate: observe it there
        orig = RemoteState.__dict__.get('default_setstate')
        if orig is not None:
            self.saved['default_setstate'] = orig
            dfn = orig.__func__ if isinstance(orig, staticmethod) else orig

            def dwrap(obj, state, _fn=dfn):
                if isinstance(state, dict):
                    LOG.append(('setstate', state.get('_id'), dict(state)))
                return _fn(obj, state)
            RemoteState.default_setstate = staticmethod(dwrap)
        return self

    def __exit__(self, *a):
        for nm, orig in self.saved.items():
            setattr(self.rs, nm, orig)


def run_loads(data, real_patches, addr_of):
    """remote_pickle.loads(data, extra_kwargs=real_patches); observation of what every instance was restored with."""
    from pyworkers import remote_pickle
    del LOG[:]
    with RecreateLog() as rl:
        try:
            back = remote_pickle.loads(data, extra_kwargs=real_patches)
            err = None
        except BaseException as e:   # noqa
            back, err = None, type(e).__name__
    recreates = [(names, flag) for names, flag, _ in rl.calls]
    restored = []
    for e in LOG:
        if e[0] != 'setstate':
            continue
        fields = []
        for k, v in e[2].items():
            if k == '_id':
                continue
            if isinstance(v, (OptBase, OptNoSet)):
                r = ('obj', v.__dict__.get('_id'))
            elif isinstance(v, dict):
                r = ('dict',)
            elif isinstance(v, int):
                r = ('atom', v)
            else:
                r = ('cont',)
            fields.append((name_key(k), r))
        restored.append((e[1], fields))
    return dict(back=back, err=err, restored=restored, recreates=recreates)


def coq_rval(r):
    if r[0] == 'atom':
        return f'RAtom {r[1]}'
    if r[0] == 'obj':
        return f'RObj {r[1]}%nat'
    if r[0] == 'dict':
        return 'RDictV []'
    return 'RCont'


def coq_restored(restored):
    return '[' + '; '.join(f'({i}%nat, [' + '; '.join(f'({k}, {coq_rval(r)})' for k, r in fs) + '])' for i, fs in restored) + ']'


ERRMAP = {'AssertionError': 'EAssert', 'AttributeError': 'EAttribute', 'IndexError': 'EIndex', 'TypeError': 'ETypeErr'}


# ---------------------------------------------------------------- generators
def gen_term(rnd, max_opt=4, allow_noset=True):
    ids = [0]
    made = []

    def fresh():
        ids[0] += 1
        return ids[0] - 1

    def gen(depth, ancestors):
        r = rnd.random()
        if depth <= 0 or r < 0.3:
            return ('atom', rnd.randint(0, 9))
        if r < 0.42:
            return ('lst', [gen(depth - 1, ancestors) for _ in range(rnd.randint(0, 2))])
        if r < 0.52:
            return ('pobj', [(k, gen(depth - 1, ancestors)) for k in rnd.sample(range(1, 6), rnd.randint(0, 2))])
        if r < 0.62 and (ancestors or made):
            return ('ref', rnd.choice(ancestors + made))
        if ids[0] >= max_opt:
            return ('atom', rnd.randint(0, 9))
        i = fresh()
        hs = not (allow_noset and rnd.random() < 0.08)
        fields = [(k, gen(depth - 1, ancestors + [i])) for k in sorted(rnd.sample(range(1, 6), rnd.randint(0, 3)))]
        made.append(i)
        return ('opt', i, hs, fields)
    top = rnd.random()
    if top < 0.7:
        i = fresh()
        fields = [(k, gen(3, [i])) for k in sorted(rnd.sample(range(1, 6), rnd.randint(0, 3)))]
        made.append(i)
        return ('opt', i, True, fields)
    return gen(4, [])


def gen_chain(rnd, depth, extra_atoms=True):
    """the domain where the current code works: every opt-in object has at most one direct opt-in child"""
    def mk(i):
        fields = []
        ks = sorted(rnd.sample(range(1, 7), rnd.randint(1, 4)))
        child_k = rnd.choice(ks) if i + 1 < depth else None
        for k in ks:
            if k == child_k:
                fields.append((k, mk(i + 1)))
            else:
                fields.append((k, ('atom', rnd.randint(0, 9))))
        return ('opt', i, True, fields)
    return mk(0)


def gen_patches(rnd, term, deep=False):
    """patch dict addressed at the fields of the top-level object (and of its direct children)"""
    def for_node(t, level):
        p = {}
        fields = t[3] if t[0] == 'opt' else []
        keys = [k for k, _ in fields] + [rnd.randint(1, 7)]
        for k in rnd.sample(keys, rnd.randint(0, min(3, len(keys)))):
            child = dict(fields).get(k)
            if child is not None and child[0] == 'opt' and rnd.random() < 0.7 and (deep or level < 1):
                p[k] = for_node(child, level + 1)
            elif rnd.random() < 0.2 and (deep or level < 1):
                p[k] = {rnd.randint(1, 7): rnd.randint(10, 19)}
            else:
                p[k] = rnd.randint(10, 19)
        return p
    return for_node(term, 0)


# ---------------------------------------------------------------- specification (oracle)
def spec_states(term, patches):
    """What C14/C15 say every opt-in instance must be restored with: {id: {k: rval}}.
    Patches address the top-level object; a dict under k addresses the direct child stored under k."""
    out = {}
    late = []

    def val(t):
        if t[0] == 'atom':
            return ('atom', t[1])
        if t[0] in ('opt', 'ref'):
            return ('obj', t[1])
        return ('cont',)

    def walk(t, p):
        if t[0] == 'opt':
            st = {k: val(v) for k, v in t[3]}
            for k, v in (p or {}).items():
                child = dict(t[3]).get(k)
                if isinstance(v, dict) and child is not None and child[0] in ('opt', 'ref'):
                    continue        # addressed at the child, which stays in place
                st[k] = ('patchdict',) if isinstance(v, dict) else ('atom', v)
            out[t[1]] = st
            for k, v in t[3]:
                sub = (p or {}).get(k)
                if isinstance(sub, dict) and v[0] == 'ref':
                    # strict reading: the dictionary addresses the child stored under k, wherever that child is restored
                    late.append((v[1], sub))
                walk(v, sub if isinstance(sub, dict) and v[0] == 'opt' else None)
        elif t[0] == 'lst':
            for x in t[1]:
                walk(x, None)
        elif t[0] == 'pobj':
            for k, v in t[1]:
                walk(v, None)
    walk(term, patches if term[0] == 'opt' else None)
    for i, sub in late:
        if i in out:
            for k, v in sub.items():
                out[i][k] = ('patchdict',) if isinstance(v, dict) else ('atom', v)
    return out
