"""Case generation, implementation runs, Coq terms and oracles for Pool.run (C07, C08)."""
import random

from harness.sched_pool import run_script

F = lambda x: x * x   # noqa: E731


def enabled(script, d, maxdeaths):
    nw = len(d['alive'])
    last = script[-1] if script else None
    nd = sum(1 for t in script if t[0] in ('fail', 'exit'))
    if ('start',) not in script:
        out = [('start',)]
        if nd < maxdeaths:
            out += [('exit', i) for i in range(nw) if d['alive'][i] and (not last or i > last[1])]
        return out
    if last == ('start',):
        last = None
    out = []
    for i in range(nw):
        if d['alive'][i] and not d['ended'][i] and d['inbox'][i] > 0:
            out.append(('ans', i))
            if nd < maxdeaths:
                out.append(('fail', i))
        if d['alive'][i] and nd < maxdeaths:
            out.append(('exit', i))
    if any(d['readable']):
        out.append(('poll',))
    # consecutive environment steps on different workers commute: keep worker indices non-decreasing
    if last and last[0] != 'poll':
        out = [s for s in out if s[0] == 'poll' or s[1] >= last[1]]
    return out


def run(case):
    refuse = None
    if case.get('refs'):
        table = set(map(tuple, case['refs']))
        refuse = lambda i, x: (i, x) in table   # noqa: E731
    out, d = run_script(F, case['nw'], case['inputs'], case['script'], extra=case['extra'], retry=case['retry'],
                        return_results=case.get('rr', True), refuse=refuse, pre_closed=case.get('pre_closed', ()))
    return out, d


def dfs(nw, ni, extra, maxdeaths, retry=True, limit=100000, refs=None, rr=True):
    """All schedules (up to commuting environment steps) of a configuration; yields (case, out, details)."""
    inputs = list(range(1, ni + 1))
    stack = [[]]
    n = 0
    while stack and n < limit:
        s = stack.pop()
        case = dict(nw=nw, inputs=inputs, extra=extra, retry=retry, script=s, refs=refs, rr=rr)
        out, d = run(case)
        n += 1
        yield case, out, d
        if out[0] == 'blocked' and d['script_left'] == 0:
            for st in enabled(s, d, maxdeaths):
                stack.append(s + [st])


def random_case(rnd):
    nw = rnd.randint(1, 3)
    ni = rnd.randint(0, 6)
    case = dict(nw=nw, inputs=list(range(1, ni + 1)), extra=rnd.randint(0, 2), retry=rnd.random() < 0.7,
                rr=rnd.random() < 0.85, script=[], refs=None, pre_closed=[])
    if rnd.random() < 0.25:
        case['refs'] = [(rnd.randrange(nw), rnd.randint(1, max(1, ni))) for _ in range(rnd.randint(1, 4))]
    if rnd.random() < 0.1:
        case['pre_closed'] = sorted(rnd.sample(range(nw), rnd.randint(1, nw)))
    maxdeaths = rnd.randint(0, 3)
    poison = set(x for x in case['inputs'] if rnd.random() < 0.15)
    out, d = run(case)
    for _ in range(60):
        if not (out[0] == 'blocked' and d['script_left'] == 0):
            break
        en = enabled(case['script'], d, maxdeaths)
        if not en:
            break
        # poison inputs kill every worker they reach: replace ans by fail when the head of the inbox is poison
        st = rnd.choice(en)
        case['script'] = case['script'] + [st]
        out, d = run(case)
    return case, out, d


def directed_cases():
    """a worker with several accepted inputs (extra pending 2 or 3) answers some but not all of them and dies; the pool is
    only let run afterwards, so it learns of the death from a refused enqueue (after reading the first answer) while later
    answers are still unread; the rest of the schedule is completed greedily (poll when something is readable, else the
    lowest live worker answers)."""
    for nw in (2, 3):
        for extra in (2, 3):
            for w in range(nw):
                for a in range(1, extra + 1):
                    for kind in ('exit', 'fail'):
                        for polled in (0, 1):
                            if polled >= a:
                                continue
                            prefix = [('start',)] + [('ans', w)] * polled + [('poll',)] * polled + [('ans', w)] * (a - polled) + [(kind, w)]
                            case = dict(nw=nw, inputs=list(range(1, nw * (extra + 1) + 3)), extra=extra, retry=True, rr=True,
                                        script=prefix, refs=None, pre_closed=[])
                            out, d = run(case)
                            for _ in range(80):
                                if not (out[0] == 'blocked' and d['script_left'] == 0):
                                    break
                                en = enabled(case['script'], d, 0)
                                if not en:
                                    break
                                st = ('poll',) if ('poll',) in en else min(t for t in en if t[0] == 'ans')
                                case['script'] = case['script'] + [st]
                                out, d = run(case)
                            yield case, out, d


# ---------------------------------------------------------------- Coq terms
def coq_list(xs, f=str):
    return '[' + '; '.join(f(x) for x in xs) + ']'


def coq_bool(b):
    return 'true' if b else 'false'


def coq_out(out):
    k = out[0]
    if k == 'return':
        return 'EUnit' if out[1] is None else f'(EReturn {coq_list(out[1])})'
    if k == 'none':
        return 'ENone'
    if k == 'poolerr':
        return f'(EPoolErr {coq_list(out[1] or [])})'
    if k == 'internal':
        return 'EInternal'
    if k == 'livelock':
        return 'ELivelock'
    return 'EBlocked'


def coq_term(case, out, d):
    pre, body = [], []
    sc = list(case['script'])
    if ('start',) in sc:
        k = sc.index(('start',))
        pre, body = sc[:k], sc[k + 1:]
        started = True
    else:
        pre, body, started = sc, [], False
    if not started:
        return None
    ops, pi = [], 0
    for st in body:
        if st[0] == 'poll':
            order = d['ready'][pi] if pi < len(d['ready']) else []
            pi += 1
            ops.append('Poll ' + coq_list(order, lambda i: f'{i}%nat'))
        else:
            ops.append({'ans': 'Ans', 'fail': 'Fail', 'exit': 'Exit'}[st[0]] + f' {st[1]}%nat')
    preops = [{'ans': 'Ans', 'fail': 'Fail', 'exit': 'Exit'}[st[0]] + f' {st[1]}%nat' for st in pre]
    refs = coq_list(case.get('refs') or [], lambda p: f'({p[0]}%nat, {p[1]})')
    return (f'check {case["nw"]}%nat {coq_bool(case["retry"])} {case["extra"]}%nat {coq_bool(case.get("rr", True))} {refs} '
            f'{coq_list(d["picks"], lambda i: f"{i}%nat")} {coq_list(case.get("pre_closed") or [], lambda i: f"{i}%nat")} '
            f'{coq_list(preops)} {coq_list(case["inputs"])} {coq_list(ops)} {coq_out(out)} {coq_list(d["closed"], coq_bool)}')


# ---------------------------------------------------------------- oracles (the properties themselves)
def multiset_le(a, b):
    b = list(b)
    for x in a:
        if x in b:
            b.remove(x)
        else:
            return False
    return True


def domain(case):
    """Which excluded domain (known-finding domain) a case lies in, if any."""
    if case.get('refs'):
        return 'refusing-enqueue_fn'
    return None


def oracle_c07(case, out, d):
    """retry on: Return => exactly one result per input; never internal error / None / livelock."""
    exp = sorted(F(x) for x in case['inputs'])
    if out[0] == 'internal':
        return f'Pool.run ended with an internal error ({out[1]})'
    if out[0] == 'livelock':
        return 'Pool.run does not terminate (more than 3000 enqueue attempts, or 2 s of CPU time / 60 s of wall clock inside one scripted run that normally takes a millisecond)'
    if out[0] == 'none':
        return 'Pool.run returned None (neither a result list nor PoolError)'
    if case['retry'] and out[0] == 'return' and case.get('rr', True):
        if sorted(out[1]) != exp:
            return f'Pool.run returned {out[1]}, expected one result per input {exp}'
    if d.get('map_guard'):
        return 'Pool left in the running state (_map_guard set) after run() ended'
    return None


def oracle_c08(case, out, d):
    exp = [F(x) for x in case['inputs']]
    nw = case['nw']
    if out[0] == 'poolerr':
        live = [i for i in range(nw) if d['alive'][i] and not d['closed'][i]]
        if live:
            return f'PoolError raised while worker(s) {live} are alive and not closed'
        if case.get('rr', True) and not multiset_le(out[1] or [], exp):
            return f'partial_results {out[1]} are not genuine results of the inputs'
    if out[0] == 'return' and case.get('rr', True):
        if not multiset_le(out[1], exp):
            return f'returned {out[1]} contains values that are not results of distinct inputs'
        if not case['retry']:
            got = list(out[1])
            missing = []
            for x in case['inputs']:
                if F(x) in got:
                    got.remove(F(x))
                else:
                    missing.append(x)
            for x in missing:
                handed = [i for i in range(nw) if (x in d['got'][i] or x in d['attempted'][i]) and (d['closed'][i] or not d['alive'][i])]
                if not handed:
                    return f'retry off: input {x} is missing from the result but was never handed to a worker that died'
    return None
