"""C10: framing.  Correspondence (T-B) between the real send_msg/recv_msg of
/repo and the code generated from them (Gen/Framing.v, run through
Framing/Run.v), plus the direct oracle of the property."""
import itertools
import json
import os
import random
import struct

from harness import core

PROP = 'C10'
UNITS = ['Framing']
PROOFS = ['theories/Framing/Proofs.v']
HEADER = 'From PW Require Import Base.PyM Framing.Sock Framing.Run.\nOpen Scope Z_scope.\n'


class Spin(Exception):
    pass


class ScriptedSocket:
    """recv returns any non-empty amount up to the request, as scripted by `cuts`;
    once the buffer is exhausted it returns b'' (fin None) or raises `fin`."""

    def __init__(self, buf, cuts, fin=None, send_err=None):
        self.buf, self.cuts, self.fin = bytes(buf), list(cuts), fin
        self.out = b''
        self.send_err = send_err
        self.reads = 0
        self.limit = len(buf) + 16

    def recv(self, n):
        self.reads += 1
        if self.reads > self.limit:
            raise Spin()
        if n <= 0:
            return b''
        if not self.buf:
            if self.fin is None:
                return b''
            raise self.fin()
        k = n
        if self.cuts:
            k = min(n, self.cuts[0] + 1)
            self.cuts = self.cuts[1:]
        r, self.buf = self.buf[:k], self.buf[k:]
        return r

    def sendall(self, b):
        if self.send_err is not None:
            raise self.send_err()
        self.out += bytes(b)

    # the single-attempt calls of a real socket accept only part of what they are given when the buffers are full
    # (a timeout on the socket, a signal while blocked): whoever uses them must look at the count they return
    PARTIAL = 65536

    def send(self, b, *flags):
        if self.send_err is not None:
            raise self.send_err()
        b = bytes(b)[:self.PARTIAL]
        self.out += b
        return len(b)

    def sendmsg(self, buffers, *rest):
        if self.send_err is not None:
            raise self.send_err()
        b = b''.join(bytes(x) for x in buffers)[:self.PARTIAL]
        self.out += b
        return len(b)


FINS = {None: None, 'reset': ConnectionResetError, 'pipe': BrokenPipeError,
        'aborted': ConnectionAbortedError, 'timeout': TimeoutError}
FIN_COQ = {None: 'None', 'reset': '(Some EConnReset)', 'pipe': '(Some EBrokenPipe)',
           'aborted': '(Some EConnAborted)', 'timeout': '(Some EOSError)'}


def exn_name(e):
    from pyworkers.remote import ConnectionClosedError
    if isinstance(e, ConnectionClosedError):
        return 'EConnClosed'
    if isinstance(e, Spin):
        return 'SPIN'
    if isinstance(e, struct.error):
        return 'EStructError'
    if isinstance(e, BrokenPipeError):
        return 'EBrokenPipe'
    if isinstance(e, ConnectionResetError):
        return 'EConnReset'
    if isinstance(e, ConnectionAbortedError):
        return 'EConnAborted'
    if isinstance(e, OSError):
        return 'EOSError'
    return '(EOther 0)'


def rle(data):
    """run-length code into Coq `list seg`"""
    segs, i, lit = [], 0, []
    n = len(data)
    while i < n:
        j = i
        while j < n and data[j] == data[i]:
            j += 1
        if j - i >= 64:
            if lit:
                segs.append('L [' + ';'.join(map(str, lit)) + ']'); lit = []
            segs.append(f'R {j - i} {data[i]}')
        else:
            lit += list(data[i:j])
        i = j
    if lit or not segs:
        segs.append('L [' + ';'.join(map(str, lit)) + ']')
    return '[' + '; '.join(segs) + ']'


def impl_recv(case):
    """Run the real recv_msg over the scripted stream. Returns list of observations."""
    from pyworkers import remote, remote_pickle
    datas = [remote_pickle.dumps(p) for p in case['payloads']]
    stream = b''.join(struct.pack('!I', len(d)) + d for d in datas)
    full = len(stream)
    if case['trunc'] is not None:
        stream = stream[:case['trunc']]
    sock = ScriptedSocket(stream, case['cuts'], FINS[case['fin']])
    obs = []
    for i in range(len(datas) + 1):
        try:
            m = remote.recv_msg(sock)
        except BaseException as e:   # noqa
            obs.append(('exn', exn_name(e)))
            break
        if i < len(datas) and remote_pickle.dumps(m) == datas[i] and m == case['payloads'][i]:
            obs.append(('msg', i))
        else:
            obs.append(('wrong', repr(m)[:40]))
    return obs, datas, full


class Turnstile:
    """lets several reader threads take strict turns: every recv of a TurnSocket is one turn"""

    def __init__(self, n):
        import threading
        self.cv = threading.Condition()
        self.turn, self.active = 0, list(range(n))

    def enter(self, me):
        with self.cv:
            self.cv.wait_for(lambda: self.turn == me or self.turn not in self.active, timeout=5)

    def leave(self, me, done=False):
        with self.cv:
            if done and me in self.active:
                self.active.remove(me)
            if self.active:
                later = [i for i in self.active if i > me]
                self.turn = later[0] if later else self.active[0]
            self.cv.notify_all()


class TurnSocket(ScriptedSocket):
    def __init__(self, buf, seg, me, ts):
        super().__init__(buf, [])
        self.seg, self.me, self.ts = seg, me, ts

    def recv(self, n):
        self.ts.enter(self.me)
        try:
            if n <= 0 or not self.buf:
                return b''
            k = min(n, self.seg)
            r, self.buf = self.buf[:k], self.buf[k:]
            return r
        finally:
            self.ts.leave(self.me)


def interleaved_readers(sizes_per_reader, seg):
    """several threads of one process, each reading its own connection with recv_msg, every message arriving in segments of
    `seg` bytes and the threads taking strict turns segment by segment.  Returns per reader the list of observations."""
    import threading
    from pyworkers import remote, remote_pickle
    n = len(sizes_per_reader)
    ts = Turnstile(n)
    payloads = [[bytes([65 + r]) * sz for sz in sizes] for r, sizes in enumerate(sizes_per_reader)]
    socks = [TurnSocket(b''.join(struct.pack('!I', len(d)) + d for d in map(remote_pickle.dumps, ps)), seg, r, ts) for r, ps in enumerate(payloads)]
    obs = [[] for _ in range(n)]

    def reader(r):
        try:
            for i, want in enumerate(payloads[r]):
                try:
                    m = remote.recv_msg(socks[r])
                except BaseException as e:   # noqa
                    obs[r].append(('exn', exn_name(e))); return
                if m == want:
                    obs[r].append(('msg', i))
                else:
                    other = sorted(set(m)) if isinstance(m, bytes) else None
                    obs[r].append(('wrong', f'{type(m).__name__} of length {len(m) if hasattr(m, "__len__") else "?"} with byte values {other[:4] if other else other}'))
        finally:
            ts.leave(r, done=True)
    th = [threading.Thread(target=reader, args=(r,), daemon=True) for r in range(n)]
    for t in th:
        t.start()
    for t in th:
        t.join(60)
    return obs, [t.is_alive() for t in th]


def obs_coq(obs):
    out = []
    for o in obs:
        if o[0] == 'msg':
            out.append(f'OMsg {o[1]}%nat')
        elif o[0] == 'wrong':
            out.append('OWrong')
        elif o[1] == 'SPIN':
            out.append('OSpin')
        else:
            out.append(f'OExn {o[1]}')
    return '[' + '; '.join(out) + ']'


def oracle_recv(case, obs, total_len):
    """The property itself, model-independent."""
    n = len(case['payloads'])
    if case['trunc'] is None or case['trunc'] >= total_len:
        want = [('msg', i) for i in range(n)] + [('exn', 'EConnClosed')]
        return obs == want, 'complete stream: every message in order, then ConnectionClosedError at end of stream'
    # how many frames are complete within the kept prefix
    from pyworkers import remote_pickle
    k, off = 0, 0
    for p in case['payloads']:
        L = 4 + len(remote_pickle.dumps(p))
        if off + L <= case['trunc']:
            k += 1; off += L
        else:
            break
    want = [('msg', i) for i in range(k)] + [('exn', 'EConnClosed')]
    return obs == want, f'truncated stream: {k} complete message(s), then ConnectionClosedError (no spin, no partial message)'


def case_term(case, obs, datas):
    pl = '[' + '; '.join(rle(d) for d in datas) + ']'
    cs = '[' + ';'.join(str(c) for c in case['cuts']) + ']%nat'
    tr = 'None' if case['trunc'] is None else f'(Some {case["trunc"]}%nat)'
    return f'check_recv {pl} {cs} {tr} {FIN_COQ[case["fin"]]} {obs_coq(obs)}'


def gen_cases(tier, rnd):
    cases = []
    small = [None, 0, b'', b'abc', 'x', (1, 2), [b'q' * 20], {'a': 1}]
    # every truncation offset of short sequences x end-of-stream kinds x three cut patterns
    seqs = [[None], [b'abc'], [None, b'abc'], [b'hello', (1, 2), None], [b'', 0, 'x', [b'q' * 20]]]
    from pyworkers import remote_pickle
    for seq in seqs:
        total = sum(4 + len(remote_pickle.dumps(p)) for p in seq)
        for k in range(total + 1):
            for fin in FINS:
                for pat in ('none', 'ones', 'rand'):
                    if tier == 'quick' and fin not in (None, 'reset') and pat != 'none':
                        continue
                    cuts = [] if pat == 'none' else [0] * total if pat == 'ones' else [rnd.randrange(0, 6) for _ in range(total)]
                    cases.append(dict(payloads=seq, cuts=cuts, trunc=(None if k == total else k), fin=fin, kind='trunc'))
    # single and double cuts of 1-4 messages, sizes up to 300 KB
    sizes = [0, 1, 5, 255, 256, 4000, 70000, 300000] if tier == 'thorough' else [0, 1, 255, 4000, 70000, 300000]
    for _ in range(40 if tier == 'quick' else 300):
        nmsg = rnd.randint(1, 4)
        seq = [bytes([rnd.randrange(256)]) * rnd.choice(sizes) for _ in range(nmsg)]
        total = sum(4 + len(remote_pickle.dumps(p)) for p in seq)
        ncut = rnd.choice([1, 2, 2, 3])
        cuts = sorted(rnd.randrange(1, max(2, total)) for _ in range(ncut))
        # turn absolute cut positions into per-read caps
        caps, prev = [], 0
        for c in cuts:
            if c > prev:
                caps.append(c - prev - 1); prev = c
        trunc = None if rnd.random() < 0.5 else rnd.randrange(0, total)
        cases.append(dict(payloads=seq, cuts=caps, trunc=trunc, fin=rnd.choice(list(FINS)), kind='bigcuts'))
    # seeded random fine segmentations of small/medium messages
    for _ in range(150 if tier == 'quick' else 1500):
        nmsg = rnd.randint(1, 4)
        seq = [rnd.choice(small) if rnd.random() < 0.5 else bytes(rnd.randrange(256) for _ in range(rnd.randrange(0, 600))) for _ in range(nmsg)]
        total = sum(4 + len(remote_pickle.dumps(p)) for p in seq)
        mx = rnd.choice([1, 2, 3, 8, 64, 1000])
        cuts = [rnd.randrange(0, mx) for _ in range(rnd.randrange(0, total + 2))]
        trunc = None if rnd.random() < 0.4 else rnd.randrange(0, total + 1)
        cases.append(dict(payloads=seq, cuts=cuts, trunc=trunc, fin=rnd.choice(list(FINS)), kind='random'))
    return cases


def compositions(n):
    if n == 0:
        yield []
        return
    for mask in range(1 << (n - 1)):
        parts, cur = [], 1
        for i in range(n - 1):
            if mask >> i & 1:
                parts.append(cur); cur = 1
            else:
                cur += 1
        parts.append(cur)
        yield [p - 1 for p in parts]


def run_one(case):
    obs, datas, total = impl_recv(case)
    ok, why = oracle_recv(case, obs, total)
    return obs, datas, ok, why


def load_corpus():
    d = os.path.join(core.VERIF, 'corpus', PROP)
    out = []
    if os.path.isdir(d):
        for fn in sorted(os.listdir(d)):
            if fn.endswith('.json'):
                c = json.load(open(os.path.join(d, fn)))
                c['payloads'] = [eval(p) for p in c['payloads_repr']]
                c['kind'] = 'corpus:' + fn
                out.append(c)
    return out


def main(tier, seed, replay=None):
    res = core.Result(PROP, tier, seed)
    res.rule = ('corpus of minimised failing streams; every truncation offset of 5 short message sequences x 5 end-of-stream kinds x 3 '
                'segmentations; all 2^15 segmentations of two minimal frames (both in Python against the real recv_msg and in Coq '
                'against the generated code); seeded random single/double/triple cuts of 1-4 messages up to 300 KB; seeded random fine '
                'segmentations; send_msg output and failure. A case is non-trivial when the stream is cut inside a frame by a read '
                'boundary or by truncation; distinct = distinct (payload sizes, cuts, truncation, end kind).')
    res.assumptions = ['pickle round trip dec(enc m) = m (CPython pickle, trusted)',
                       'socket model of Framing/Sock.v: recv returns any non-empty amount up to the request; after the peer is gone it returns b"" or raises an OSError',
                       'a peer that stays silent without closing is outside the property']
    res.trusted.append('hand-written environment model Framing/Sock.v (socket, struct.pack/unpack) and entry points Framing/Run.v')
    proved = core.prove(res, PROP, UNITS, PROOFS, run_files=['theories/Framing/Run.v'])
    gen_ok = not any(w.startswith('translator:') for w, _ in res.tie_broken)

    rnd = random.Random(seed)
    import sys
    sys.path.insert(0, core.REPO)
    cases = load_corpus() + gen_cases(tier, rnd)
    if replay:
        c = json.load(open(replay))
        c = c.get('first', {}).get('case', c)
        if 'payloads_repr' in c:
            c['payloads'] = [eval(p) for p in c['payloads_repr']]
            cases = [c]
    terms, keep = [], []
    for c in cases:
        obs, datas, ok, why = run_one(c)
        canon = (tuple(len(d) for d in datas), tuple(c['cuts'][:50]), c['trunc'], c['fin'])
        res.count('kind:' + c['kind'].split(':')[0]); res.count('fin:' + str(c['fin']))
        res.count('truncated' if c['trunc'] is not None else 'complete')
        res.case(canon, nontrivial=(c['trunc'] is not None or bool(c['cuts'])),
                 sample=dict(sizes=[len(d) for d in datas], cuts=c['cuts'][:12], trunc=c['trunc'], fin=c['fin'], observed=obs))
        if not ok:
            res.violation(dict(payloads_repr=[repr(p) if len(repr(p)) < 200 else f'bytes([{p[0]}])*{len(p)}' for p in c['payloads']],
                               cuts=c['cuts'][:200], trunc=c['trunc'], fin=c['fin']), why, observed=obs)
        terms.append(case_term(c, obs, datas)); keep.append((c, obs))
    # exhaustive segmentations of two minimal frames, implementation side
    two = [None, None]
    from pyworkers import remote_pickle
    total = sum(4 + len(remote_pickle.dumps(p)) for p in two)
    nseg = 0
    for cuts in compositions(total):
        c = dict(payloads=two, cuts=cuts, trunc=None, fin=None, kind='allseg')
        obs, datas, ok, why = run_one(c)
        nseg += 1
        res.evaluations += 1
        if not ok:
            res.violation(dict(payloads_repr=['None', 'None'], cuts=cuts, trunc=None, fin=None), why, observed=obs)
            if len(res.violations) > 5:
                break
    res.nontrivial.update(f'allseg{i}' for i in range(nseg))
    res.count('kind:allseg', nseg)
    datas = [remote_pickle.dumps(None)] * 2
    terms.append(f'check_all_segmentations [{rle(datas[0])}; {rle(datas[1])}] [OMsg 0%nat; OMsg 1%nat; OExn EConnClosed]')
    # sender
    from pyworkers import remote
    for msgs, err in ([[None, b'abc', (1, 2)], None], [[b'x' * 70000], None], [[1, b'y' * 400000, 2], None], [[None, 1], 'pipe'], [[b''], 'timeout']):
        s = ScriptedSocket(b'', [], None, FINS[err])
        e = None
        try:
            for m in msgs:
                remote.send_msg(s, m)
        except BaseException as ex:  # noqa
            e = exn_name(ex)
        datas = [remote_pickle.dumps(m) for m in msgs]
        want = b''.join(struct.pack('!I', len(d)) + d for d in datas)
        ok = (e is None and s.out == want) if err is None else (e == 'EConnClosed')
        res.case(('send', tuple(len(d) for d in datas), err), nontrivial=True)
        res.count('kind:send')
        if not ok:
            res.violation(dict(send=[repr(m)[:40] for m in msgs], err=err), 'send_msg must write exactly the frames, or raise ConnectionClosedError when the socket fails', observed=(e, len(s.out)))
        terms.append(f'check_send [{"; ".join(rle(d) for d in datas)}] {FIN_COQ[err]} {"None" if e is None else "(Some " + e + ")"} {rle(s.out)}')

    # several connections read at the same time by threads of one process (the parent of several remote workers does this)
    for sizes, seg in ([[[3000, 100], [3000, 100]], 1000], [[[100, 50000], [70000], [20, 9000, 9000]], 4096], [[[200000], [200000]], 65536], [[[5], [7]], 3]):
        obs, stuck = interleaved_readers(sizes, seg)
        res.case(('interleaved-readers', repr(sizes), seg), nontrivial=True, sample=dict(readers=sizes, segment=seg, observed=[[list(o) for o in ob] for ob in obs]))
        res.count('kind:interleaved-readers')
        for r, ob in enumerate(obs):
            if stuck[r] or ob != [('msg', i) for i in range(len(sizes[r]))]:
                res.violation(dict(concurrent_readers=dict(payload_sizes_per_connection=sizes, segment_bytes=seg, schedule='the reader threads take strict turns, one recv each'), reader=r),
                              f'reader {r} (its own connection, its own thread) must receive exactly its {len(sizes[r])} messages in order; observed {ob}' + (' and it never returned' if stuck[r] else ''),
                              observed=[[list(o) for o in x] for x in obs])
                break
    if gen_ok:
        bad, err = core.coq_eval_cases(PROP, HEADER, terms, per_file=120)
        res.traces_validated = len(terms) - len(bad)
        if err:
            res.tie('correspondence:coq-eval', err)
        for i in bad[:10]:
            if i < len(keep):
                c, obs = keep[i]
                res.tie('correspondence:recv_msg', dict(case=dict(sizes=[len(p) if hasattr(p, '__len__') else None for p in c['payloads']], cuts=c['cuts'][:100], trunc=c['trunc'], fin=c['fin']),
                                                        implementation=obs, model='differs (see term)', term=terms[i][:2000]))
            else:
                res.tie('correspondence:framing', dict(term=terms[i][:2000]))
    res.exhaustive = False
    return res.finish()
