"""C08: soundness of Pool failure reports - same schedule space and model as C07, different oracle/theorems."""
from harness import pool_cases as pc
from harness.props import c07


def main(tier, seed, replay=None):
    return c07.main(tier, seed, replay, prop='C08', oracles=(pc.oracle_c08,),
                    proofs=['theories/Pool/Inv.v', 'theories/Pool/Rounds.v', 'theories/Pool/NoSpurious.v'])
