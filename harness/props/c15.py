"""C15: load-time patches - same machinery as C14 with patch dictionaries and call histories."""
from harness.props import c14


def main(tier, seed, replay=None):
    return c14.main(tier, seed, replay, prop='C15', with_patches=True)
