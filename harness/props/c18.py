"""C18: remote contexts - unique per id, supply their workers' work, clean up.
T-B: histories of {create i, create duplicate, delete i, delete unknown, worker in context i,
worker in unknown context} through the REAL RemoteContext / PersistentRemoteWorker API against a real
server, compared with Server/Model.v (replies and the set of registered ids)."""
import logging
import os
import random
import sys
import time

from harness import core, server_tools as st

PROP = 'C18'
PROOFS = ['theories/Server/Model.v', 'theories/Server/CtxWork.v']
HEADER = 'From PW Require Import Server.Model Server.Run Server.CtxWorkRun.\nOpen Scope Z_scope.\n'


def play(addr, hist, res):
    """returns (model sessions, replies, violations)"""
    from pyworkers.remote_context import RemoteContext
    from pyworkers.persistent_remote import PersistentRemoteWorker
    ctxs = {}          # id -> RemoteContext object of the successful creation
    exps = {}          # id -> exponent its target uses
    sessions, replies, viol = [], [], []
    for op in hist:
        if op[0] == 'create':
            i, exp = op[1], op[2]
            try:
                c = RemoteContext(i, target=st.sq3, host=addr, kwargs={'exp': exp})
                ok = True
            except ValueError:
                ok = False
            sessions.append(f'mkSession (RCtxCreate {i}) PComplete'); replies.append(f'RBool {"true" if ok else "false"}')
            if ok and i in ctxs:
                viol.append(f'context id {i} registered twice')
            if not ok and i not in ctxs:
                viol.append(f'creating context {i} failed although the id is free')
            if ok:
                ctxs[i], exps[i] = c, exp
        elif op[0] == 'delete':
            i = op[1]
            if i in ctxs:
                r = ctxs[i].wait()
                del ctxs[i]; del exps[i]
            else:
                # delete of an id this client never registered: raw request
                r = st.raw_session(addr, st.frame((i, False)) + st.frame(None), read_reply=True)
            sessions.append(f'mkSession (RCtxDelete {i}) PComplete'); replies.append('RBool true' if r is True else 'Closed')
            if r is not True:
                viol.append(f'deleting context {i} answered {r!r}')
        elif op[0] == 'worker':
            i = op[1]
            from harness.props.c20 import construct
            how = op[2] if len(op) > 2 else 'none'
            if how == 'own':        # the creator passes a target and defaults of its own along
                o, x, _ = construct(lambda: PersistentRemoteWorker(st.own_target, host=addr, context=i, kwargs={'exp': 9}))
            elif how == 'pool':     # ... which is what a Pool always does for its workers
                from pyworkers.pool import Pool
                from pyworkers.worker import WorkerType
                pool = Pool(st.own_target, kwargs={'exp': 9})
                o, x, _ = construct(lambda: pool.add_worker(WorkerType.REMOTE, host=addr, context=i))
            else:
                o, x, _ = construct(lambda: PersistentRemoteWorker(None, host=addr, context=i))
            if o == 'hang':
                viol.append(f'starting a worker in context {i} ({"registered" if i in ctxs else "unknown"}) hangs')
                sessions.append(f'mkSession (RWorkerCtx {i}) PComplete'); replies.append('NoReply')
                break
            created, w, err = o == 'returned', x, x
            sessions.append(f'mkSession (RWorkerCtx {i}) PComplete'); replies.append('Handshake' if created else 'Closed')
            if created and i not in ctxs:
                viol.append(f'a worker could be started in unknown context {i}')
            if not created and i in ctxs:
                viol.append(f'starting a worker in registered context {i} failed: {type(err).__name__}')
            if created:
                try:
                    v = w.call(2)
                    if i in exps:
                        res.ctxwork.append((how != 'none', exps[i], v == 2 ** exps[i], [list(o) for o in hist]))
                    if i in exps and v != 2 ** exps[i]:
                        viol.append(f'worker in context {i} ({"created with target=None" if how == "none" else "its creator passed a target of its own" if how == "own" else "added by a Pool"}) '
                                    f'computed {v!r}, its context\'s target/defaults give {2 ** exps[i]}')
                    w.wait(10)
                except Exception as e:
                    viol.append(f'worker in context {i}: {type(e).__name__}: {e}')
    # leftovers
    for i, c in list(ctxs.items()):
        pass
    return sessions, replies, viol, list(ctxs), ctxs


def gen_history(rnd, n):
    ids = [1, 2, 3]
    h = []
    for _ in range(n):
        r = rnd.random()
        i = rnd.choice(ids)
        if r < 0.4:
            h.append(('create', i, rnd.choice([2, 3, 4])))
        elif r < 0.65:
            h.append(('delete', i))
        elif r < 0.72:
            h.append(('delete', rnd.choice([7, 8])))
        elif r < 0.92:
            h.append(('worker', i) if rnd.random() < 0.6 else ('worker', i, rnd.choice(['own', 'pool'])))
        else:
            h.append(('worker', rnd.choice([7, 9])))
    return h


def main(tier, seed, replay=None):
    logging.disable(logging.CRITICAL)
    core.quiet_stderr(PROP)
    res = core.Result(PROP, tier, seed)
    res.rule = ('seeded random histories of length <= 8 over 3 context ids of {create (with a distinct exponent as the context\'s default), create duplicate, delete, '
                'delete unknown, persistent worker in context i (one call checks it runs the context\'s target with the context\'s defaults), worker in '
                'unknown context}, each on a fresh real server; quick: 10 histories + 3 fixed ones, thorough: 120. Replies and the set of registered ids are '
                'compared with the model; server liveness and process leftovers are checked after every history. Non-trivial = history with a duplicate, a delete or an unknown id.')
    res.assumptions = ['"deleting a context ends its workers" relies on the helper process terminating its children (checked on the process tree, see also C12)']
    res.trusted.append('hand-written model Server/Model.v (pinned to RemoteServer.run); harness/props/c18.py')
    core.prove(res, PROP, ['ServerLoop', 'CtxWork'], PROOFS, run_files=['theories/Server/Run.v', 'theories/Server/CtxWorkRun.v'])
    sys.path.insert(0, core.REPO)
    rnd = random.Random(seed)
    hists = [[('create', 1, 3), ('create', 1, 2), ('worker', 1), ('delete', 1), ('worker', 1), ('create', 1, 2), ('worker', 1)],
             [('delete', 5), ('worker', 5), ('create', 2, 4), ('create', 3, 2), ('worker', 3), ('worker', 2), ('delete', 2), ('worker', 3)],
             [('create', 1, 2), ('create', 2, 3), ('create', 3, 4), ('create', 2, 2), ('worker', 2), ('delete', 2), ('delete', 2), ('create', 2, 2), ('worker', 2)]]
    hists.append([('create', 1, 3), ('worker', 1, 'own'), ('worker', 1, 'pool'), ('worker', 1), ('create', 2, 2), ('worker', 2, 'own'), ('delete', 1), ('worker', 1, 'own')])
    hists += [gen_history(rnd, rnd.randint(3, 8)) for _ in range(10 if tier == 'quick' else 120)]
    terms, keep = [], []
    res.ctxwork = []
    for h in hists:
        server = st.start_server()
        try:
            sessions, replies, viol, ids, ctxs = play(server.addr, h, res)
            alive = server.is_alive() and st.health(server.addr)
            # contexts still registered are deleted; afterwards the server must have no descendants besides nothing
            for i, c in ctxs.items():
                c.wait()
            time.sleep(0.3)
            left = st.descendants(server.pid)
            res.count('history'); res.count('ops', len(h))
            res.case(tuple(h), nontrivial=any(o[0] == 'delete' or (o[0] == 'worker' and o[1] > 3) for o in h) or len({o[1] for o in h if o[0] == 'create'}) < sum(1 for o in h if o[0] == 'create'),
                     sample=dict(history=[' '.join(map(str, o)) for o in h], replies=replies))
            if not alive:
                viol.append('the server died or stopped answering during the history')
            if left:
                viol.append(f'after deleting every context the server still has child processes {left}')
            for v in viol[:1]:
                res.violation(dict(history=[list(o) for o in h]), v, observed=replies)
            terms.append(f'check_sessions [{"; ".join(sessions)}] [{"; ".join(replies)}] {"true" if alive else "false"} [{"; ".join(map(str, ids))}]')
            keep.append((h, replies, ids))
        finally:
            server.terminate(force=True)
    # deleting a context whose workers have to be forced: the helper needs longer than the server is prepared to wait, is stopped
    # by force in the middle of its clean-up - and still none of the context's workers may survive the delete
    from pyworkers.remote_context import RemoteContext
    from pyworkers.persistent_remote import PersistentRemoteWorker
    from harness.props.c11 import bounded
    for nstuck, finished_first in (((6, True),) if tier == 'quick' else ((4, False), (6, True), (6, False), (8, True))):
        server = st.start_server()
        try:
            c = RemoteContext(1, target=st.dig_in, host=server.addr)
            if finished_first:
                # a worker of the same context which has come and gone before the others are created
                w0 = PersistentRemoteWorker(None, host=server.addr, context=1)
                w0.enqueue(0); w0.next_result(timeout=20); w0.wait(10)
            ws = [PersistentRemoteWorker(None, host=server.addr, context=1) for _ in range(nstuck)]
            for w in ws:
                w.enqueue(1)
            time.sleep(0.8)
            pids = [w.pid for w in ws]
            t0 = time.time()
            r = bounded(c.wait, 40)
            dur = time.time() - t0
            deadline = time.time() + 4
            left = pids
            while time.time() < deadline and left:
                left = [p for p in pids if p in st.descendants(1) or (os.path.exists(f'/proc/{p}') and open(f'/proc/{p}/stat').read().split()[2] != 'Z')]
                time.sleep(0.2)
            res.count('delete-with-stuck-workers'); res.case(('delete-stuck', nstuck, finished_first), nontrivial=True,
                                                             sample=dict(context_with_stuck_workers=nstuck, a_finished_worker_before=finished_first, delete_answer=repr(r), answered_after_s=round(dur, 1), survivors=len(left)))
            if r != ('ok', True):
                res.violation(dict(delete_with_stuck_workers=nstuck, a_finished_worker_before=finished_first), f'deleting a context with {nstuck} workers that have to be forced answered {r!r} after {dur:.1f} s')
            elif left:
                res.violation(dict(delete_with_stuck_workers=nstuck, a_finished_worker_before=finished_first), f'{len(left)} of the {nstuck} workers of the deleted context are still running 4 s after the delete was answered (True)')
            for p in left:
                try:
                    os.kill(p, 9)
                except OSError:
                    pass
        finally:
            server.terminate(force=True)
    nhist = len(terms)
    for own, exp, is_ctx, h in res.ctxwork:
        terms.append(f'check_ctxwork {"true" if own else "false"} {exp} {"true" if is_ctx else "false"}')
        what = 'with work of its own passed along' if own else 'target=None'
        keep.append((h, f"a worker ({what}) in a context with exponent {exp} computed {'the value of the context' if is_ctx else 'another value'}", None))
    res.count('work-path observations', len(res.ctxwork))
    bad, err = core.coq_eval_cases(PROP, HEADER, terms, per_file=50)
    res.traces_validated = len(terms) - len(bad)
    if err:
        res.tie('correspondence:coq-eval', err)
    for i in [i for i in bad if i >= nhist][:3]:
        res.tie('correspondence:context-work-path', dict(history=keep[i][0], implementation=keep[i][1], term=terms[i]))
    for i in [i for i in bad if i < nhist][:5]:
        res.tie('correspondence:contexts', dict(history=[list(o) for o in keep[i][0]], implementation=dict(replies=keep[i][1], registered=keep[i][2]), term=terms[i][:1200]))
    return res.finish()
