"""C16: user_state is synchronised child->parent at end of life, and only then.
T-S: Gen/Skel.v (both result sends carry self._user_state); T-B: real workers of the six
classes: the parent polls user_state while the worker is alive (must be the initial value for
process and remote kinds), after the death it must be the last value assigned in the child -
for return, exception and graceful terminate endings - assigning from the parent is rejected,
restart()/re-creation passes the state on."""
import logging
import os
import random
import sys
import time

from harness import core

PROP = 'C16'
UNITS = ['Skel', 'Transport']
PROOFS = ['theories/Child/Proofs.v', 'theories/Equiv/TransportProofs.v']


def noop(*a, **k):
    return None


class StatefulMixin:
    """the documented way of using user_state: assigned from within run() on the child side"""

    def run(self, values, ending, flagfile=None):
        for v in values:
            self.user_state = v
        if flagfile:
            open(flagfile, 'w').write('assigned')
        if ending == 'return':
            time.sleep(0.15)          # stay alive for a moment so that the parent can look
            return 'done'
        if ending == 'linger':
            # report at once, but the process stays around (a non-daemon thread is still running): the worker is
            # still alive although its final message - state included - is already on its way
            import threading
            threading.Thread(target=time.sleep, args=(1.5,)).start()
            return 'done'
        if ending == 'raise':
            time.sleep(0.15)
            raise ValueError('own')
        while True:                   # 'terminate': wait to be interrupted
            time.sleep(0.005)


def _classes():
    from pyworkers.thread import ThreadWorker
    from pyworkers.process import ProcessWorker
    from pyworkers.remote import RemoteWorker
    from pyworkers.persistent_thread import PersistentThreadWorker
    from pyworkers.persistent_process import PersistentProcessWorker
    from pyworkers.persistent_remote import PersistentRemoteWorker
    out = {}
    for name, base in (('thread', ThreadWorker), ('process', ProcessWorker), ('remote', RemoteWorker),
                       ('pthread', PersistentThreadWorker), ('pprocess', PersistentProcessWorker), ('premote', PersistentRemoteWorker)):
        cls = type('Stateful_' + name, (StatefulMixin, base), {'__module__': __name__})
        globals()[cls.__name__] = cls
        cls.__qualname__ = cls.__name__
        out[name] = cls
    return out


# at import time, so that spawned children (which import this module to unpickle the worker) find them
CLASSES = _classes()


def classes():
    return CLASSES


VALUES = [None, 0, 3, 'text', [1, {'a': (2, None)}], {'k': [1, 2]}, (1, 2), 2.5]


def one_case(name, cls, host, init, values, ending, scratch, res):
    persistent = name in ('pthread', 'pprocess', 'premote')
    remote = 'remote' in name
    kw = dict(host=host) if remote else {}
    flag = os.path.join(scratch, f'{name}_{os.getpid()}_{time.time_ns()}.flag')
    if persistent:
        w = cls(noop, init_state=init, run=True, **kw)
        w.enqueue(values, ending, flag)
    else:
        w = cls(noop, args=(values, ending, flag), init_state=init, **kw)
    viol = []
    try:
        # assigning from the parent is rejected
        try:
            w.user_state = 'from the parent'
            viol.append('assigning user_state from the parent did not raise')
        except RuntimeError:
            pass
        # while alive the parent sees the initial value (not guaranteed for thread kinds: shared memory)
        t0 = time.time()
        while time.time() - t0 < 20:
            alive = w.is_alive()
            st = w.user_state
            alive = alive and w.is_alive()      # still alive AFTER the read: only then must the value be the initial one
            if alive and 'thread' not in name and st != init:
                # re-check liveness after the read: the state may be published only by a dead worker
                viol.append(f'parent saw user_state={st!r} (initial {init!r}) while is_alive() was True')
                break
            if not alive:
                break
            if os.path.exists(flag) and (ending in ('terminate', 'restart-busy', 'linger') or (persistent and time.time() - os.path.getmtime(flag) > 0.4)):
                break
            time.sleep(0.002)
        if ending == 'linger' and not persistent and 'thread' not in name:
            # a caller that gives up waiting: wait() may already have received the final message - the state it carries
            # must stay invisible until the worker is dead
            for _ in range(3):
                gave_up = not w.wait(0.25)
                alive = w.is_alive()
                st = w.user_state
                alive = alive and w.is_alive()
                if gave_up and alive and st != init:
                    viol.append(f'after wait(0.25) gave up, is_alive() is True but user_state already shows {st!r} (initial {init!r})')
                    break
        if ending == 'restart-busy':
            # restart() of a busy worker: wait(timeout) gives up, the worker is terminated gracefully and reports its state -
            # the next incarnation must start from it
            want = values[-1] if values else init
            w.restart(timeout=0.3)
            if w.user_state != want:
                viol.append(f'after restart() of a busy worker user_state is {w.user_state!r}, the old incarnation ended with {want!r}')
            w.enqueue([], 'return', None)
            w.wait(10)
            if w.user_state != want:
                viol.append(f'the incarnation after restart() of a busy worker worked from {w.user_state!r}, not from the synchronised state {want!r}')
            return viol
        if ending == 'terminate':
            w.terminate(timeout=10)
        elif persistent:
            w.wait(10)
        else:
            w.wait(10)
        if w.is_alive():
            viol.append('worker did not end')
        want = values[-1] if values else init
        if w.user_state != want:
            viol.append(f'after the {ending} ending user_state is {w.user_state!r}, the last value assigned in the child is {want!r}')
        if persistent and not viol:
            # restart starts the new incarnation from the last synchronised state
            w.restart(timeout=10)
            if w.user_state != want:
                viol.append(f'after restart() user_state is {w.user_state!r}, expected {want!r}')
            w.enqueue([], 'return', None)
            w.wait(10)
            if w.user_state != want:
                viol.append(f'second incarnation without assignments ended with user_state {w.user_state!r}, expected {want!r} (it did not start from the synchronised state)')
    finally:
        try:
            w.terminate(timeout=2)
        except Exception:
            pass
        try:
            os.remove(flag)
        except OSError:
            pass
    return viol


def main(tier, seed, replay=None):
    logging.disable(logging.CRITICAL)
    core.quiet_stderr(PROP)
    res = core.Result(PROP, tier, seed)
    res.rule = ('six worker classes x init_state values (None, scalars, containers) x 0-10 child-side assignments x endings {return, own exception, graceful '
                'terminate} : parent polls user_state every 2 ms while is_alive(), checks the value after death, the rejected parent-side assignment, '
                'and for persistent kinds restart() and a second incarnation without assignments. quick: each class x each ending once plus seeded '
                'random cases; thorough: more. Non-trivial = at least one assignment.')
    res.assumptions = ['thread kinds share memory with the parent: what the parent sees while the child runs is unspecified (documented) and not checked',
                       'a window of a few bytecodes remains between the remote frontend thread publishing the state and its own end']
    res.trusted.append('harness/props/c16.py; Child/Sem.v')
    core.prove(res, PROP, UNITS, PROOFS)
    sys.path.insert(0, core.REPO)
    from pyworkers.remote_server import spawn_server
    rnd = random.Random(seed)
    server = spawn_server(('127.0.0.1', 0))
    scratch = os.path.join(core.VERIF, 'scratch')
    os.makedirs(scratch, exist_ok=True)
    try:
        cl = classes()
        cases = []
        for name in cl:
            for ending in ('return', 'raise', 'terminate'):
                cases.append((name, rnd.choice(VALUES), [rnd.choice(VALUES) for _ in range(rnd.randint(1, 4))], ending))
            cases.append((name, 7, [], 'return'))
            if name in ('process', 'remote'):
                cases.append((name, 'init', ['a', 'final'], 'linger'))
            if name in ('pprocess', 'premote'):
                cases.append((name, 0, [1, 2, 3], 'restart-busy'))
        for _ in range(12 if tier == 'quick' else 120):
            cases.append((rnd.choice(list(cl)), rnd.choice(VALUES), [rnd.choice(VALUES) for _ in range(rnd.randint(0, 10))], rnd.choice(['return', 'raise', 'terminate'])))
        for name, init, values, ending in cases:
            viol = one_case(name, cl[name], server.addr, init, values, ending, scratch, res)
            res.count('class:' + name); res.count('ending:' + ending)
            res.case((name, repr(init), repr(values), ending), nontrivial=bool(values), sample=dict(cls=name, init=repr(init), assigned=repr(values)[:60], ending=ending))
            for v in viol[:1]:
                res.violation(dict(cls=name, init=repr(init), assigned=repr(values), ending=ending), v)
    finally:
        server.terminate(force=True)
    return res.finish()
