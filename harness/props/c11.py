"""C11: the remote server survives every client failure.
T-B on a REAL server process: recorded well-formed client byte streams (worker, persistent worker,
context create, context delete, worker-in-context) cut at chosen offsets and ended with FIN or RST,
garbage requests, a client that never opens the control connection; after every fault a cheap
well-formed request must be answered, a full RemoteWorker round trip regularly, and a healthy
client's persistent worker started before the faults must still work at the end.  The sessions and
the replies are compared with Server/Model.v."""
import logging
import os
import random
import struct
import sys
import time

from harness import core, server_tools as st

PROP = 'C11'
PROOFS = ['theories/Server/Model.v']
HEADER = 'From PW Require Import Server.Model Server.Run.\nOpen Scope Z_scope.\n'
REQ = {'worker_in_live_ctx': '(RWorkerCtx 992)', 'worker': 'RWorker', 'pworker': 'RWorker', 'ctx_create': '(RCtxCreate 991)', 'ctx_delete': '(RCtxDelete 991)', 'worker_ctx': '(RWorkerCtx 991)'}


def bounded(fn, secs):
    """('ok', value) | ('raised', repr) | ('hang',): the check itself must never block on a broken implementation"""
    import threading
    out = {}

    def run():
        try:
            out['r'] = ('ok', fn())
        except BaseException as e:   # noqa
            out['r'] = ('raised', repr(e))
    t = threading.Thread(target=run, daemon=True)
    t.start(); t.join(secs)
    return out.get('r', ('hang',))


def main(tier, seed, replay=None):
    logging.disable(logging.CRITICAL)
    core.quiet_stderr(PROP)
    res = core.Result(PROP, tier, seed)
    res.rule = ('five recorded request kinds x cut offsets (quick: 0, every message boundary +-2, and a stride; thorough: every offset) x {FIN, RST}, garbage '
                'headers and payloads, one client that never opens the control connection, sequences of three faulty clients; after each fault a '
                'well-formed request (delete of an unknown context) must be answered, every 25 faults and at the end a full RemoteWorker round trip, and a '
                'persistent worker of a healthy client created before the faults must still answer. Non-trivial = a session that ends inside a message.')
    res.assumptions = ['kernel TCP behaviour on loopback (FIN vs RST delivery)', 'a client that stays silent without closing is outside the property']
    res.trusted.append('hand-written model Server/Model.v (pinned to RemoteServer.run); harness/server_tools.py')
    core.prove(res, PROP, ['ServerLoop'], PROOFS, run_files=['theories/Server/Run.v'])
    sys.path.insert(0, core.REPO)
    rnd = random.Random(seed)
    from pyworkers.persistent_remote import PersistentRemoteWorker
    server = st.start_server()
    addr = server.addr
    sessions, replies = [], []
    try:
        streams = st.record_streams(addr)
        healthy = PersistentRemoteWorker(st.sq3, host=addr)
        healthy.enqueue(2)
        assert healthy.next_result(timeout=10) == 8
        # a healthy client's context with a worker in it: faulty worker-in-context requests go through the context's helper process
        from pyworkers.remote_context import RemoteContext
        hctx = RemoteContext(992, target=st.sq3, host=addr, kwargs={'exp': 3})
        sessions.append('mkSession (RCtxCreate 992) PComplete'); replies.append('RBool true')
        hctx_worker = PersistentRemoteWorker(None, host=addr, context=992)
        sessions.append('mkSession (RWorkerCtx 992) PComplete'); replies.append('Handshake')
        hctx_worker.enqueue(2)
        assert hctx_worker.next_result(timeout=10) == 8
        streams['worker_in_live_ctx'] = st.record_ctx_worker(addr, 992)
        sessions.append('mkSession (RWorkerCtx 992) PComplete'); replies.append('Handshake')
        nfault = 0

        def fault(kind, data, how, end, label):
            nonlocal nfault
            alive_before = server.is_alive()
            try:
                st.raw_session(addr, data, end=end)
            except OSError as e:
                res.violation(dict(request=kind, cut=label, end=end), f'could not even connect to the server: {e}')
                return False
            nfault += 1
            ok = False
            for _ in range(40):
                if st.health(addr):
                    ok = True
                    break
                if not server.is_alive():
                    break
                time.sleep(0.05)
            res.count('request:' + kind); res.count('end:' + end); res.count('how:' + how)
            res.case((kind, label, end), nontrivial=how in ('PHeaderCut', 'PPayloadCut', 'PGarbage'),
                     sample=dict(request=kind, cut_after_bytes=label, end=end, server_answers=ok) if nfault % 23 == 0 else None)
            sessions.append(f'mkSession {REQ.get(kind, "RNone")} {how}'); replies.append('Closed')
            sessions.append('mkSession (RCtxDelete (-12345)) PComplete'); replies.append('RBool true' if ok else 'NoReply')
            if not ok:
                res.violation(dict(request=kind, cut=label, end=end, server_alive=server.is_alive()),
                              f'after a {kind} client vanished at offset {label} ({end}) the server no longer answers a well-formed request (server process alive: {server.is_alive()})')
                return False
            if nfault % 25 == 0 and not st.full_round_trip(addr):
                res.violation(dict(request=kind, cut=label, end=end), 'a fresh RemoteWorker round trip fails after the faults so far')
                return False
            return True

        go = True
        for kind, msgs in streams.items():
            if not go:
                break
            h, p = msgs[0], msgs[1]
            total = len(h) + len(p)
            if tier == 'thorough':
                offsets = list(range(total))
            else:
                offsets = sorted(set([0, 1, 2, 3, 4, 5, len(h) - 2, len(h) - 1, len(h), len(h) + 1, len(h) + 2, len(h) + 4, len(h) + 5, total - 2, total - 1]
                                     + list(range(0, total, max(1, total // 12)))))
            for off in offsets:
                if not (0 <= off < total):
                    continue
                how = 'PNothing' if off == 0 else 'PHeaderCut' if off < len(h) else 'PPayloadCut'
                for end in (('fin', 'rst') if tier == 'thorough' or off % 3 == 0 else ('fin',)):
                    go = fault(kind, (h + p)[:off], how, end, off)
                    if not go:
                        break
                if not go:
                    break
        # garbage
        for label, data in (('garbage-header', struct.pack('!I', 5) + b'hello'), ('huge-length', struct.pack('!I', 2 ** 31) + b'x' * 10),
                            ('wrong-shape-header', st.frame(('a', 'b', 'c'))), ('header-then-garbage-payload', streams['worker'][0] + struct.pack('!I', 4) + b'\x80\x04N.'[:3]),
                            ('unknown-context', st.frame((424242, True)))):
            if go:
                go = fault('garbage' if 'context' not in label else 'worker_ctx', data, 'PGarbage', 'fin', label)
        # three faulty clients in a row, then the check
        if go:
            for _ in range(3 if tier == 'quick' else 20):
                for _ in range(3):
                    kind = rnd.choice(list(streams))
                    data = b''.join(streams[kind])
                    st.raw_session(addr, data[:rnd.randrange(len(data))], end=rnd.choice(['fin', 'rst']))
                if not st.health(addr):
                    res.violation(dict(sequence='three faulty clients'), 'server does not answer after three faulty clients in a row')
                    go = False
                    break
        # a client that completes the request but never opens the control connection (server waits for it with a timeout)
        if go:
            t0 = time.time()
            rep = st.raw_session(addr, b''.join(streams['worker']), read_reply=True)
            ok = False
            while time.time() - t0 < 25:
                if st.health(addr):
                    ok = True
                    break
                time.sleep(0.5)
            res.count('how:PNoCtrl'); res.case(('worker', 'no-ctrl'), nontrivial=True)
            sessions.append('mkSession RWorker PNoCtrl'); replies.append('Closed')
            if not ok:
                res.violation(dict(request='worker', cut='never opens the control connection'), 'the server stays blocked for more than 25 s by a client that never opens the control connection')
                go = False
        # a complete, well-formed worker request whose spawned child dies before it reports its identity (killed, crashed while
        # unpickling its payload): the client is told, and the server goes on serving
        if go:
            from harness.props.c20 import ExitOnUnpickle, construct
            from pyworkers.remote import RemoteWorker
            for cls_ in (RemoteWorker, PersistentRemoteWorker):
                o, x, d = construct(lambda: cls_(st.sq3, args=(ExitOnUnpickle(),), host=addr))
                res.count('how:PChildDies'); res.case((cls_.__name__, 'child-dies-before-identity'), nontrivial=True)
                sessions.append('mkSession RWorker PChildDies'); replies.append('Closed')
                okd = False
                for _ in range(40):
                    if st.health(addr):
                        okd = True
                        break
                    time.sleep(0.05)
                sessions.append('mkSession (RCtxDelete (-12345)) PComplete'); replies.append('RBool true' if okd else 'NoReply')
                if o != 'raised':
                    res.violation(dict(request=cls_.__name__, cut='child dies before reporting its identity'), f'the constructor {o} instead of raising')
                if not okd:
                    res.violation(dict(request=cls_.__name__, cut='child dies before reporting its identity', server_alive=server.is_alive()),
                                  'after a spawned child died before reporting its identity the server no longer answers a well-formed request')
                    go = False
                    break
        # the same for a worker request inside the live context: it is the context's helper which waits (and must survive)
        if go:
            t0 = time.time()
            st.raw_session(addr, b''.join(streams['worker_in_live_ctx']), read_reply=True)
            res.count('how:PNoCtrl'); res.case(('worker_in_live_ctx', 'no-ctrl'), nontrivial=True)
            sessions.append('mkSession (RWorkerCtx 992) PNoCtrl'); replies.append('Closed')
            okc, last = False, None

            def fresh_ctx_worker():
                w2 = PersistentRemoteWorker(None, host=addr, context=992)
                w2.enqueue(3)
                v = w2.next_result(block=True)
                w2.wait(5)
                return v
            while time.time() - t0 < 30 and not okc:
                r = bounded(fresh_ctx_worker, 15)
                if r == ('ok', 27):
                    okc = True
                    sessions.append('mkSession (RWorkerCtx 992) PComplete'); replies.append('Handshake')
                else:
                    last = r
                    if r[0] == 'hang':
                        break
                    time.sleep(0.5)
            if not okc:
                res.violation(dict(request='worker in a live context', cut='never opens the control connection'),
                              f'after a client of context 992 never opened its control connection no further worker can be started in that context ({last})')
        # a complete worker-in-context request whose client resets the connection at once (the worker is rebuilt in the context's
        # helper process while its data connection is already gone): concerns that client only
        if go:
            for end_ in ('rst', 'fin'):
                st.raw_session(addr, b''.join(streams['worker_in_live_ctx']), end=end_)
                res.count('how:PVanishAtOnce'); res.case(('worker_in_live_ctx', 'vanishes-at-once', end_), nontrivial=True)
                time.sleep(0.3)
                r = bounded(fresh_ctx_worker, 25) if 'fresh_ctx_worker' in dir() else ('skip',)
                if r != ('ok', 27) and r != ('skip',):
                    res.violation(dict(request='worker in a live context', cut=f'complete request, then the client vanishes at once ({end_})'),
                                  f'after a client of context 992 sent its request and vanished at once no further worker can be started in that context ({r})')
                    break
        # the healthy client's worker inside the context is undisturbed by all the faulty worker-in-context requests
        def ask_ctx_worker():
            hctx_worker.enqueue(3)
            return hctx_worker.next_result(block=True)
        r = bounded(ask_ctx_worker, 10)
        alive_ = bounded(hctx_worker.is_alive, 5)
        if r != ('ok', 27) or alive_ != ('ok', True):
            res.violation(dict(healthy_client='persistent worker inside context 992 created before the faults'),
                          f'the healthy client\'s worker inside the context was disturbed by other clients\' faulty requests (answer: {r}, is_alive: {alive_})')
        if bounded(lambda: (hctx_worker.wait(5), hctx.close()), 20)[0] == 'ok':
            sessions.append('mkSession (RCtxDelete 992) PComplete'); replies.append('RBool true')
        # the healthy client is undisturbed
        try:
            healthy.enqueue(3)
            v = healthy.next_result(timeout=10)
            fine = v == 27 and healthy.wait(10) and healthy.result == 2
        except Exception as e:
            fine, v = False, repr(e)
        if not fine:
            res.violation(dict(healthy_client='persistent worker created before the faults'), f'the healthy client\'s worker was disturbed (got {v!r})')
        if go and not st.full_round_trip(addr):
            res.violation(dict(final='round trip'), 'a fresh RemoteWorker round trip fails after all faults')
    finally:
        alive = server.is_alive()
        server.terminate(force=True)
    # a server started the way the command line starts it (close_on_none: a None HEADER is the shutdown command): a client
    # that merely connects and goes away - at offset 0 or inside the header - has sent no such command
    try:
        from pyworkers.remote_server import spawn_server
        s2 = spawn_server(('127.0.0.1', 0), close_on_none=True)
        try:
            h2 = PersistentRemoteWorker(st.sq3, host=s2.addr)
            h2.enqueue(2)
            ok0 = bounded(lambda: h2.next_result(block=True), 10) == ('ok', 8)
            for off, end in ((0, 'fin'), (0, 'rst'), (1, 'fin'), (3, 'fin'), (4, 'fin')):
                st.raw_session(s2.addr, streams['worker'][0][:off], end=end)
                time.sleep(0.15)
                okh = False
                for _ in range(20):
                    if st.health(s2.addr):
                        okh = True
                        break
                    time.sleep(0.05)
                res.count('close_on_none-server'); res.case(('close_on_none', off, end), nontrivial=True)
                if not okh or not s2.is_alive():
                    res.violation(dict(server='close_on_none', request='worker', cut=off, end=end),
                                  f'a server running with close_on_none stopped serving after a client vanished {off} byte(s) into the header ({end}); process alive: {s2.is_alive()}')
                    break
            else:
                def ask2():
                    h2.enqueue(3)
                    return h2.next_result(block=True)
                if ok0 and bounded(ask2, 10) != ('ok', 27):
                    res.violation(dict(server='close_on_none', healthy_client='persistent worker'), 'the healthy client\'s worker on the close_on_none server was disturbed by vanishing clients')
        finally:
            s2.terminate(force=True)
    except Exception as e:   # noqa
        res.tie('harness:close_on_none-server', repr(e))
    term = f'check_sessions [{"; ".join(sessions)}] [{"; ".join(replies)}] {"true" if alive else "false"} []'
    bad, err = core.coq_eval_cases(PROP, HEADER, [term], per_file=5)
    res.traces_validated = len(sessions) if not bad and not err else 0
    if err:
        res.tie('correspondence:coq-eval', err)
    if bad:
        res.tie('correspondence:server', dict(sessions=len(sessions), note='the sequence of sessions and replies differs from Server/Model.v', tail=sessions[-6:], replies=replies[-6:]))
    return res.finish()
