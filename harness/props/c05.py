"""C05: persistent workers - merge rule, pristine defaults, exactly-once in-order stream,
parent API histories.  T-A: Gen/Persist.v regenerated from the three persistent_*.py;
T-B: real PersistentThreadWorker (quick) and process / remote kinds (thorough)."""
import json
import logging
import os
import queue
import random

from harness import core

PROP = 'C05'
UNITS = ['Persist']
PROOFS = ['theories/Persist/Proofs.v']
HEADER = 'From PW Require Import Persist.Model Persist.Run.\nOpen Scope Z_scope.\n'
HMOD = 1000000007
FATAL = 666     # an input on which the target raises: the worker then dies on its own


def hash_elem(h, payload, muts):
    return (h * 1000003 + payload * 7 + muts * 13 + 1) % HMOD


def target(*args, **kwargs):
    """Each argument is a one-slot list [payload, mutation count]; the target hashes what it
    sees and then mutates every argument (a later call that sees the mutation proves that the
    defaults were not pristine)."""
    h = 17
    for a in args:
        if a[0] == FATAL:
            raise ValueError('fatal input')
        h = hash_elem(h, a[0], a[1])
    h = (h * 5 + 3) % HMOD
    for k, v in kwargs.items():
        h = hash_elem((h * 31 + int(k[1:])) % HMOD, v[0], v[1])
    for a in list(args) + list(kwargs.values()):
        a[1] += 1
    return h


def box(x):
    return [x, 0]


def make_worker(kind, dargs, dtuple, dkw, host=None):
    from pyworkers.persistent_thread import PersistentThreadWorker
    from pyworkers.persistent_process import PersistentProcessWorker
    from pyworkers.persistent_remote import PersistentRemoteWorker
    a = [box(x) for x in dargs]
    a = tuple(a) if dtuple else a
    k = {f'k{n}': box(v) for n, v in dkw}
    if kind == 'thread':
        return PersistentThreadWorker(target, args=a, kwargs=k)
    if kind == 'process':
        return PersistentProcessWorker(target, args=a, kwargs=k)
    return PersistentRemoteWorker(target, args=a, kwargs=k, host=host)


def raw_messages(w, limit):
    """everything on the results endpoint after death: [(counter, flag, value)]"""
    out = []
    ep = w.results_endpoint
    for _ in range(limit):
        try:
            m = ep.get(block=False) if hasattr(ep, 'get') else None
        except (queue.Empty, EOFError, OSError):
            break
        out.append((m[0], m[1], m[2]))
    return out


BLOCK_S = 60      # an operation of the parent API that has not returned after this long counts as blocked


def force_stop(holder):
    for w in holder:
        try:
            w.terminate(timeout=1, force=True)
        except BaseException:   # noqa
            pass


def run_child_case(kind, c, host=None):
    holder = []
    done, ob = core.with_deadline(_run_child_case, BLOCK_S, kind, c, host, holder)
    if not done:
        force_stop(holder)
        return dict(dead=False, msgs=[], has_error=None, result=None, blocked=True)
    return ob


def _run_child_case(kind, c, host, holder):
    w = make_worker(kind, c['d'], c['tuple'], c['dk'], host)
    holder.append(w)
    try:
        for ea, ek in c['es']:
            w.enqueue(*[box(x) for x in ea], **{f'k{n}': box(v) for n, v in ek})
        ok = w.wait(20)
        msgs = raw_messages(w, len(c['es']) + 3)
        return dict(dead=ok, msgs=msgs, has_error=w.has_error, result=w.result)
    finally:
        try:
            w.terminate(timeout=1)
        except Exception:
            pass


def coq_enq(ea, ek):
    return f'mkEnq [{"; ".join(map(str, ea))}] [{"; ".join(f"({n}, {v})" for n, v in ek)}]'


def child_term(kind, c, ob):
    msgs = []
    for (cnt, flag, val) in ob['msgs']:
        msgs.append(f'MRes {cnt}%nat {val}' if flag else f'MEnd {cnt}%nat')
    K = {'thread': 'KThread', 'process': 'KProcess', 'remote': 'KRemote'}[kind]
    return (f'check_child {K} [{"; ".join(map(str, c["d"]))}] {"true" if c["tuple"] else "false"} '
            f'[{"; ".join(f"({n}, {v})" for n, v in c["dk"])}] [{"; ".join(coq_enq(a, k) for a, k in c["es"])}] '
            f'[{"; ".join(msgs)}] {"true" if ob["has_error"] else "false"}')


def expected_values(c):
    out = []
    for ea, ek in c['es']:
        merged = list(ea) + list(c['d'][len(ea):])
        kw = dict(c['dk'])
        order = [n for n, _ in c['dk']]
        for n, v in ek:
            if n not in kw:
                order.append(n)
            kw[n] = v
        h = 17
        for x in merged:
            h = hash_elem(h, x, 0)
        h = (h * 5 + 3) % HMOD
        for n in order:
            h = hash_elem((h * 31 + n) % HMOD, kw[n], 0)
        out.append(h)
    return out


def oracle_child(c, ob):
    exp = expected_values(c)
    want = [(i + 1, True, v) for i, v in enumerate(exp)] + [(len(exp), False, None)]
    if ob.get('blocked'):
        return f'enqueue/wait did not return within {BLOCK_S} s'
    if not ob['dead']:
        return 'worker did not finish after wait()'
    if ob['msgs'] != want:
        return f'result stream {ob["msgs"][:6]} differs from the expected {want[:6]} (merge rule / pristine defaults / exactly once / single end marker)'
    if ob['has_error'] or ob['result'] != len(exp):
        return f'after wait(): has_error={ob["has_error"]}, result={ob["result"]}, expected result={len(exp)}'
    return None


def gen_child_cases(rnd, n):
    cases = []
    # systematic: defaults of length 0-3 (list and tuple) x enqueue shapes fewer / as many / more
    for dl in range(4):
        for tup in (False, True):
            for ndk in (0, 2):
                d = [10 + i for i in range(dl)]
                dk = [(i, 50 + i) for i in range(ndk)]
                es = [([1, 2, 3, 4][:k], [(0, 70)] if (k % 2 and ndk) else ([(5, 71)] if k == 2 else [])) for k in range(0, 5)]
                cases.append(dict(d=d, tuple=tup, dk=dk, es=es, kind='systematic'))
    for _ in range(n):
        dl = rnd.randint(0, 3)
        d = [rnd.randint(0, 99) for _ in range(dl)]
        dk = [(i, rnd.randint(0, 99)) for i in range(rnd.randint(0, 2))]
        es = []
        for _ in range(rnd.randint(0, 8)):
            ea = [rnd.randint(0, 99) for _ in range(rnd.randint(0, 4))]
            ek = [(k, rnd.randint(0, 99)) for k in sorted(rnd.sample(range(4), rnd.randint(0, 2)))]
            es.append((ea, ek))
        cases.append(dict(d=d, tuple=rnd.random() < 0.5, dk=dk, es=es, kind='random'))
    return cases


# ---------------------------------------------------------------- enqueue after the worker died on its own
def gone(pid):
    try:
        with open(f'/proc/{pid}/stat') as f:
            return f.read().rsplit(')', 1)[1].split()[0] == 'Z'
    except OSError:
        return True


def wait_dead_without_asking(w, timeout):
    """waits until the worker is dead WITHOUT using any call of the worker's own API (is_alive, wait, result, next_result ...
    all refresh what the parent object knows): the thread object behind it has ended and/or its process is gone or a zombie."""
    import threading
    import time
    t0 = time.monotonic()
    ch = getattr(w, '_child', None)
    if isinstance(ch, threading.Thread):
        ch.join(timeout)
        if ch.is_alive():
            return False
    pid = getattr(w, '_pid', None)
    if pid and pid != os.getpid():
        while not gone(pid):
            if time.monotonic() - t0 > timeout:
                return False
            time.sleep(0.02)
    time.sleep(0.3)
    return True


def _self_death(kind, host, pre, read_before, holder, ob):
    from pyworkers.persistent import WorkerClosedError
    w = make_worker(kind, [], False, [], host)
    holder.append(w)
    try:
        for i in range(pre):
            w.enqueue(box(i + 1))
        if read_before:
            ob['values'] = [w.next_result(timeout=20) for _ in range(pre)]
        w.enqueue(box(FATAL))
        ob['died'] = wait_dead_without_asking(w, 20)
        for x in (10, 11):
            try:
                w.enqueue(box(x)); ob['late'].append('accepted')
            except WorkerClosedError:
                ob['late'].append('WorkerClosedError')
            except Exception as e:       # noqa
                ob['late'].append(type(e).__name__)
        ob['waited'] = w.wait(20)
        for _ in range(pre + 4):
            try:
                ob['values'].append(w.next_result(block=False))
            except queue.Empty:
                break
        ob['has_error'] = w.has_error
        ob['error'] = type(w.error).__name__ if w.has_error else None
    finally:
        try:
            w.terminate(timeout=1)
        except Exception:
            pass
    return ob


def self_death_probe(kind, host, pre, read_before):
    holder = []
    ob = dict(values=[], late=[], died=None, waited=None, has_error=None, error=None)
    done, _ = core.with_deadline(_self_death, BLOCK_S, kind, host, pre, read_before, holder, ob)
    if not done:
        force_stop(holder)
        ob['blocked'] = True
    return ob


def oracle_self_death(pre, ob):
    exp = expected_values(dict(d=[], dk=[], es=[([i + 1], []) for i in range(pre)]))
    if ob.get('blocked'):
        return f'an operation of the history did not return within {BLOCK_S} s'
    if not ob['died']:
        return 'the worker whose target raised did not end by itself within 20 s'
    if ob['late'] != ['WorkerClosedError'] * 2:
        return (f'enqueue on a worker that had died on its own (its target raised; nobody asked the worker about its state in between): '
                f'{ob["late"]} instead of WorkerClosedError twice')
    if not ob['waited'] or ob['values'] != exp or not ob['has_error'] or ob['error'] != 'ValueError':
        return f'after the death: wait()={ob["waited"]}, values {ob["values"]} (expected {exp}), has_error={ob["has_error"]} error={ob["error"]}'
    return None


# ---------------------------------------------------------------- parent histories
def gen_history(rnd):
    ops, outstanding, closed, died = [], 0, False, False
    for _ in range(rnd.randint(1, 9)):
        r = rnd.random()
        e = ([rnd.randint(0, 99) for _ in range(rnd.randint(0, 3))], [])
        if r < 0.07 and not died:
            ops.append(('die',)); closed = died = True     # an input on which the target raises: the worker dies on its own
        elif r < 0.4:
            ops.append(('enq', e))
            if not closed:
                outstanding += 1
        elif r < 0.7:
            if outstanding > 0 or closed:
                ops.append(('next',)); outstanding = max(0, outstanding - 1)
        elif r < 0.8:
            ops.append(('call', e))     # enqueue + next: never blocks (closed -> error)
        elif r < 0.9:
            ops.append(('close',)); closed = True
        else:
            ops.append(('wait',)); closed = True
    return ops


def run_history(kind, d, dk, ops, host=None):
    holder, obs = [], []
    done, _ = core.with_deadline(_run_history, BLOCK_S, kind, d, dk, ops, host, holder, obs)
    if not done:
        obs = list(obs) + ['OBlocked']       # the operation after the ones observed so far never returned
        force_stop(holder)
    return obs


def _run_history(kind, d, dk, ops, host, holder, obs):
    from pyworkers.persistent import WorkerClosedError
    w = make_worker(kind, d, False, dk, host)
    holder.append(w)
    try:
        for op in ops:
            if op[0] == 'enq':
                try:
                    w.enqueue(*[box(x) for x in op[1][0]]); obs.append('OOk')
                except WorkerClosedError:
                    obs.append('OClosedErr')
            elif op[0] == 'next':
                try:
                    obs.append(f'OVal {w.next_result(timeout=20)}')
                except queue.Empty:
                    obs.append('OEmpty')
            elif op[0] == 'call':
                try:
                    obs.append(f'OVal {w.call(*[box(x) for x in op[1][0]])}')
                except WorkerClosedError:
                    obs.append('OClosedErr')
                except queue.Empty:
                    obs.append('OEmpty')
            elif op[0] == 'close':
                w.close(); obs.append('OOk')
            elif op[0] == 'die':
                try:
                    w.enqueue(box(FATAL)); obs.append('OOk')
                except WorkerClosedError:
                    obs.append('OClosedErr'); continue
                if not wait_dead_without_asking(w, 20):
                    obs[-1] = 'OWouldBlock'      # the worker did not die of the failing input
            else:
                ok = w.wait(20)
                obs.append(f'OResult {w.result}%nat' if ok and not w.has_error else 'OEmpty')
    finally:
        try:
            w.terminate(timeout=1)
        except Exception:
            pass
    return obs


def hist_term(kind, d, dk, ops, obs):
    cops = []
    for op in ops:
        if op[0] == 'enq':
            cops.append('PEnq (' + coq_enq(*op[1]) + ')')
        elif op[0] == 'call':
            cops.append('PCall (' + coq_enq(*op[1]) + ')')
        else:
            cops.append({'next': 'PNext', 'close': 'PClose', 'wait': 'PWait', 'die': 'PDie'}[op[0]])
    K = {'thread': 'KThread', 'process': 'KProcess', 'remote': 'KRemote'}[kind]
    return (f'check_parent {K} [{"; ".join(map(str, d))}] [{"; ".join(f"({n}, {v})" for n, v in dk)}] '
            f'[{"; ".join(cops)}] [{"; ".join(obs)}]')


def oracle_history(d, dk, ops, obs):
    """C05 read directly: values come out in enqueue order, once each; enqueue after close raises."""
    accepted, delivered, closed, failed = [], [], False, False
    if obs and obs[-1] == 'OBlocked':
        k = len(obs) - 1
        return f'operation {k} ({ops[k][0] if k < len(ops) else "clean-up"}) of the history did not return within {BLOCK_S} s (the histories only contain calls that must not block)'
    for op, ob in zip(ops, obs):
        if op[0] in ('enq', 'call'):
            if closed:
                if ob != 'OClosedErr':
                    return f'{op[0]} after close()/wait()/death did not raise WorkerClosedError (observed {ob})'
                continue
            accepted.append(op[1])
        if op[0] == 'die':
            if closed:
                if ob != 'OClosedErr':
                    return f'enqueue after close()/wait()/death did not raise WorkerClosedError (observed {ob})'
                continue
            if ob != 'OOk':
                return f'the worker was given an input on which its target raises and {"did not die of it within 20 s" if ob == "OWouldBlock" else "answered " + ob}'
            closed = failed = True
        if op[0] in ('close', 'wait'):
            closed = True
        if ob.startswith('OVal'):
            delivered.append(int(ob.split()[1]))
        if op[0] == 'wait' and ob != (f'OResult {len(accepted)}%nat' if not failed else 'OEmpty'):
            return f'after wait() result is {ob}, expected {len(accepted) if not failed else "the error of the target"}'
    exp = expected_values(dict(d=d, dk=dk, es=accepted))
    if delivered != exp[:len(delivered)]:
        return f'delivered values {delivered} are not the first results {exp} of the accepted enqueues, in order'
    return None


def main(tier, seed, replay=None):
    logging.disable(logging.CRITICAL)
    core.quiet_stderr(PROP)
    res = core.Result(PROP, tier, seed)
    res.rule = ('child stream: systematic defaults (list/tuple, length 0-3) x default kwargs x enqueue shapes (fewer/as many/more positionals, '
                'overriding/new keywords) plus seeded random cases with up to 8 enqueues, a target that hashes and then mutates every argument; '
                'parent API: seeded random histories of enqueue/next_result/call/close/wait of length <= 9 that never block. all three kinds (process/remote: a spread of the '
                'systematic cases and fewer random ones, more in thorough). Non-trivial = at least one enqueue and (defaults non-empty or history with close/wait).')
    res.assumptions = ['copy.deepcopy gives an independent copy; list() a new list sharing its elements (modelled by the copy kinds of Persist/Model.v)',
                       'keyword order is insertion order (Python dict)']
    res.trusted.append('hand-written interpreter Persist/Model.v for the generated instruction lists; harness/props/c05.py')
    core.prove(res, PROP, UNITS, PROOFS, run_files=['theories/Persist/Run.v'])
    gen_ok = not any(w.startswith('translator:') for w, _ in res.tie_broken)
    import sys
    sys.path.insert(0, core.REPO)
    rnd = random.Random(seed)
    kinds = ['thread', 'process', 'remote']
    server = None
    host = None
    terms, keep = [], []
    try:
        if 'remote' in kinds:
            from pyworkers.remote_server import spawn_server
            server = spawn_server(('127.0.0.1', 0))
            host = server.addr
        corpus = []
        cdir = os.path.join(core.VERIF, 'corpus', PROP)
        if os.path.isdir(cdir):
            for fn in sorted(os.listdir(cdir)):
                if fn.endswith('.json'):
                    c = json.load(open(os.path.join(cdir, fn)))
                    c['es'] = [(a, [tuple(p) for p in k]) for a, k in c['es']]; c['dk'] = [tuple(p) for p in c['dk']]; c['kind'] = 'corpus'
                    corpus.append(c)
        for kind in kinds:
            n = (120 if kind == 'thread' else 4) if tier == 'quick' else (600 if kind == 'thread' else 40)
            cases = corpus + gen_child_cases(rnd, n)
            if kind != 'thread':
                # spawning is expensive: a spread of the systematic cases plus the random ones
                syst = cases[len(corpus):len(cases) - n]
                cases = corpus + syst[3::(5 if tier == 'quick' else 2)] + cases[-n:]
            for c in cases:
                ob = run_child_case(kind, c, host)
                res.count('child:' + kind); res.count('case:' + c['kind'])
                res.case((kind, tuple(c['d']), c['tuple'], tuple(c['dk']), repr(c['es'])), nontrivial=bool(c['es']) and (bool(c['d']) or bool(c['dk'])),
                         sample=dict(kind=kind, defaults=c['d'], tuple=c['tuple'], kwargs=c['dk'], enqueues=c['es'][:3], stream=ob['msgs'][:3]))
                why = oracle_child(c, ob)
                if why:
                    res.violation(dict(kind=kind, d=c['d'], tuple=c['tuple'], dk=c['dk'], es=c['es']), why, observed=ob)
                if not ob.get('blocked'):
                    terms.append(child_term(kind, c, ob)); keep.append((kind, c, ob))
            for pre, read_before in ([(0, False), (2, True), (2, False)] if tier == 'quick' or kind != 'thread' else [(p, r) for p in range(4) for r in (False, True)]):
                ob = self_death_probe(kind, host, pre, read_before)
                res.count('self-death:' + kind)
                res.case((kind, 'self-death', pre, read_before), nontrivial=True, sample=dict(kind=kind, scenario='enqueue after the worker died on its own', good_inputs_before=pre, read_before=read_before, observed=ob))
                why = oracle_self_death(pre, ob)
                if why:
                    res.violation(dict(kind=kind, scenario='enqueue as the first thing done with a worker that died on its own', good_inputs_before=pre, results_read_before_the_fatal_input=read_before), why, observed=ob)
            e1, e2 = ([1], []), ([2, 3], [])
            systematic = [[('close',), ('enq', e1)], [('enq', e1), ('close',), ('enq', e2), ('next',), ('next',)],
                          [('wait',), ('enq', e1)], [('enq', e1), ('enq', e2), ('next',), ('wait',), ('next',), ('next',)],
                          [('call', e1), ('call', e2), ('close',), ('call', e1)],
                          [('die',), ('enq', e1)], [('enq', e1), ('enq', e2), ('die',), ('enq', e1), ('next',), ('next',), ('next',), ('wait',)],
                          [('call', e1), ('die',), ('call', e2), ('wait',), ('enq', e1)], [('enq', e1), ('die',), ('next',), ('enq', e2), ('close',), ('die',)]]
            nrand = (150 if kind == 'thread' else 6) if tier == 'quick' else (800 if kind == 'thread' else 40)
            for hi in range(len(systematic) + nrand):
                d = [rnd.randint(0, 99) for _ in range(rnd.randint(0, 3))]
                ops = systematic[hi] if hi < len(systematic) else gen_history(rnd)
                obs = run_history(kind, d, [], ops, host)
                res.count('history:' + kind)
                res.case((kind, 'hist', tuple(d), repr(ops)), nontrivial=any(o[0] in ('close', 'wait') for o in ops),
                         sample=dict(kind=kind, defaults=d, ops=[o[0] for o in ops], observed=obs))
                why = oracle_history(d, [], ops, obs)
                if why:
                    res.violation(dict(kind=kind, d=d, ops=[list(o) for o in ops]), why, observed=obs)
                if not (obs and obs[-1] == 'OBlocked'):
                    terms.append(hist_term(kind, d, [], ops, obs)); keep.append((kind, dict(d=d, ops=ops), obs))
    finally:
        if server is not None:
            server.terminate(force=True)
    if gen_ok:
        bad, err = core.coq_eval_cases(PROP, HEADER, terms, per_file=200)
        res.traces_validated = len(terms) - len(bad)
        if err:
            res.tie('correspondence:coq-eval', err)
        for i in bad[:10]:
            res.tie('correspondence:persistent-stream', dict(kind=keep[i][0], case=repr(keep[i][1])[:800], implementation=repr(keep[i][2])[:600], term=terms[i][:1500]))
    return res.finish()
