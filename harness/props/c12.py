"""C12: stopping the server reaps its children and every parent finds out.
Real processes only: each scenario (harness/c12_driver.py, one fresh interpreter each) starts a real server, creates
0-4 remote workers in mixed states (cooperative, swallowing, idle persistent, finished; direct or inside a context;
one-shot or persistent), stops the server by terminate() or SIGTERM - in the steady state or racing with the start-up
of the workers - then inspects /proc for survivors and asks every parent-side worker (wait, is_alive, has_error, error)
under a watchdog.  Steady-state scenarios are compared child by child with Server/Shutdown.v evaluated on the shape
regenerated from the source; every scenario is judged by the property itself."""
import json
import logging
import os
import random
import subprocess
import sys
import time
from concurrent.futures import ThreadPoolExecutor

from harness import core

PROP = 'C12'
PROOFS = ['theories/Server/ShutdownProofs.v']
HEADER = 'From PW Require Import Server.Shutdown Server.ShutdownRun.\n'
COQ_STATE = {'coop': '(Busy Coop)', 'swallow': '(Busy Swallows)', 'idle': 'Idle', 'finished': 'Finished'}

QUICK = [
    dict(mode='terminate', children=[]),
    dict(mode='terminate', children=[['coop', False, False], ['swallow', False, False], ['finished', False, False], ['idle', False, True]]),
    dict(mode='sigterm', children=[['coop', False, False], ['swallow', False, False], ['finished', False, False], ['idle', False, True]]),
    dict(mode='terminate', children=[['swallow', True, True], ['idle', True, True]]),
    dict(mode='terminate', children=[['swallow', False, False], ['swallow', True, True], ['coop', True, True]]),
    dict(mode='sigterm', children=[['swallow', True, True], ['idle', True, True], ['coop', False, True], ['swallow', False, True]]),
    dict(mode='terminate', children=[['idle', True, True], ['finished', True, True], ['coop', False, True]]),
    dict(mode='sigterm', children=[['finished', True, True], ['coop', True, True]]),
    dict(mode='terminate', children=[['coop', False, False], ['swallow', True, True]], delay=0.0),
    dict(mode='sigterm', children=[['coop', False, True], ['swallow', False, False], ['idle', True, True]], delay=0.0),
    dict(mode='terminate', children=[['swallow', True, True], ['swallow', True, True]], delay=0.15),
    dict(mode='sigterm', children=[['swallow', False, False], ['coop', True, True]], delay=0.05),
    # the caller of terminate() loses patience while the server is still forcing its children one by one
    dict(mode='terminate', children=[['swallow', False, False], ['swallow', False, False], ['swallow', False, False], ['coop', False, False]], server_timeout=1.5),
    dict(mode='terminate', children=[['swallow', False, False], ['swallow', True, True], ['idle', False, True], ['swallow', False, False]], server_timeout=1.2),
    # workers whose client crashed while they were running; other clients come and go afterwards; then the server is stopped
    dict(mode='terminate', children=[['coop', False, False]], orphans=['swallow', 'coop'], late_clients=2),
    dict(mode='sigterm', children=[], orphans=['coop'], late_clients=1),
    dict(mode='terminate', children=[['idle', True, True]], orphans=['swallow'], late_clients=0),
    # the server is stopped while workers are still inside the start-up handshake
    dict(mode='terminate', children=[['coop', False, False]], starting=2, delay=0.2),
    dict(mode='sigterm', children=[['idle', False, True]], starting=1, delay=0.2),
]


def run_scenario(cfg):
    env = dict(os.environ)
    env['PYTHONPATH'] = core.VERIF + ':' + core.REPO
    env['PYTHONHASHSEED'] = '0'
    try:
        p = subprocess.run([core.PY, '-m', 'harness.c12_driver', json.dumps(cfg)], cwd=core.VERIF, env=env,
                           stdout=subprocess.PIPE, stderr=subprocess.DEVNULL, text=True, timeout=240)
        for line in p.stdout.split('\n'):
            if line.startswith('C12RESULT '):
                return json.loads(line[len('C12RESULT '):])
        return dict(errors=[f'driver produced no result (exit {p.returncode})'], children=[])
    except subprocess.TimeoutExpired:
        return dict(errors=['driver did not finish within 240 s'], children=[])


def random_cfg(rnd):
    n = rnd.randint(0, 4)
    ch = []
    for _ in range(n):
        in_ctx = rnd.random() < 0.4
        persistent = in_ctx or rnd.random() < 0.5
        states = ['coop', 'swallow', 'finished'] + (['idle'] if persistent else [])
        ch.append([rnd.choice(states), in_ctx, persistent])
    cfg = dict(mode=rnd.choice(['terminate', 'sigterm']), children=ch)
    if rnd.random() < 0.35:
        cfg['delay'] = rnd.choice([0.0, 0.05, 0.15, 0.3])
    return cfg


def verdict(r, state):
    if r.get('blocked') or r.get('raised') or r.get('wait') is not True or r.get('alive'):
        return 'VBlocked'
    if r.get('has_error') is False:
        return 'VOwn'
    return f'(VError {"true" if r.get("error") == "WTE" else "false"})'


def oracle(cfg, out):
    """the property itself"""
    if out.get('errors'):
        return 'scenario could not be run: ' + out['errors'][0][-300:]
    if cfg['mode'] == 'terminate' and out.get('server_terminate') is not True:
        return f'server.terminate(timeout=5, force=True) returned {out.get("server_terminate")!r}'
    if not out.get('server_gone'):
        return 'the server process is still there'
    if out.get('survivors'):
        return f'{out["survivors"]} process(es) spawned by the server are still running {out.get("t_reaped")} s after it was stopped'
    for (state, in_ctx, persistent), r in zip(cfg['children'], out['children']):
        who = f'{state} {"persistent " if persistent else ""}worker{" in a context" if in_ctx else ""}'
        if r.get('blocked') or r.get('dur', 0) > 6:
            return f'the parent of the {who} blocked ({r.get("dur", ">15")} s in wait(2)/is_alive/has_error)'
        if r.get('raised'):
            return f'the parent of the {who} raised {r["raised"]}'
        if r.get('wait') is not True or r.get('alive'):
            return f'the parent-side {who} is not dead after the server was stopped (wait -> {r.get("wait")}, is_alive -> {r.get("alive")})'
        if not r.get('pid_gone'):
            return f'the child process of the {who} is still running'
        if state == 'finished':
            if r.get('has_error') is not False:
                return f'the {who} had delivered its outcome but now reports has_error={r.get("has_error")}'
        else:
            if r.get('has_error') is not True:
                return f'the {who} was stopped with the server but reports has_error={r.get("has_error")} (result {r.get("result")})'
            patient = 'server_timeout' not in cfg and sum(1 for c in cfg['children'] if c[0] == 'swallow') <= 2
            if cfg.get('delay') is None and patient and cfg['mode'] == 'terminate' and not in_ctx and state in ('coop', 'idle') and r.get('error') != 'WTE':
                return f'the {who} was able to report but its error is {r.get("error")!r}, not WorkerTerminatedError'
    for r in out.get('starting', []):
        if r.get('constructor') == 'hang':
            return 'a worker that was being created when the server was stopped: its constructor is still blocked 12 s later'
        if r.get('constructor') == 'returned':
            if r.get('blocked') or r.get('raised'):
                return f'a worker created while the server was being stopped: its parent blocks or raises ({r})'
            if r.get('wait') is not True or r.get('alive') or r.get('has_error') is not True:
                return f'a worker created while the server was being stopped is not dead with has_error True ({r})'
    return None


def coq_term(cfg, out):
    direct = [(c, r) for c, r in zip(cfg['children'], out['children']) if not c[1]]
    inctx = [(c, r) for c, r in zip(cfg['children'], out['children']) if c[1]]
    reg = [f'Direct {COQ_STATE[c[0]]}' for c, _ in direct]
    obs = [[(r.get('pid_gone') is True, verdict(r, c[0]))] for c, r in direct]
    if inctx:
        reg.append('Context [' + '; '.join(COQ_STATE[c[0]] for c, _ in inctx) + ']')
        obs.append([(r.get('pid_gone') is True, verdict(r, c[0])) for c, r in inctx])
    o = '[' + '; '.join('[' + '; '.join(f'({"true" if g else "false"}, {v})' for g, v in e) + ']' for e in obs) + ']'
    return f'check_shutdown {"MTerminate" if cfg["mode"] == "terminate" else "MSigterm"} [{"; ".join(reg)}] {o}'


def main(tier, seed, replay=None):
    logging.disable(logging.CRITICAL)
    core.quiet_stderr(PROP)
    res = core.Result(PROP, tier, seed)
    res.rule = ('12 fixed scenarios (quick) + 8 (quick) / 70 (thorough) seeded random ones: 0-4 remote workers x {cooperative, swallowing, idle persistent, finished} x '
                '{direct, inside a context} x {one-shot, persistent} x {server.terminate(timeout=5, force=True), SIGTERM} x {steady state, shutdown 0-0.3 s after the '
                'workers were created}; each in a fresh interpreter with a real server and real child processes; /proc inspected for up to 6 s, every parent '
                'queried under a 15 s watchdog. Steady-state scenarios are compared with the model child by child. Non-trivial = at least one child alive at shutdown.')
    res.assumptions = ['kernel signal delivery and process reaping (the reaction table of Ctrl/Model.v)', 'TCP on loopback closes the data connection of a dead child',
                       'children stopped by SIGSTOP are outside the quantifier (SIGTERM stays pending for them)',
                       'whether a context helper stopped while forcing one of its workers had already killed it is a race: both outcomes are accepted']
    res.trusted.append('hand-written model Server/Shutdown.v over the regenerated shape flags; harness/c12_driver.py')
    ok = core.prove(res, PROP, ['Shutdown'], PROOFS, run_files=['theories/Server/ShutdownRun.v'])
    if replay:
        c = json.load(open(replay)).get('first', {}).get('case')
        out = run_scenario(c)
        print('replay:', json.dumps(out)); print('oracle:', oracle(c, out))
        return 0
    rnd = random.Random(seed)
    cfgs = list(QUICK)
    cdir = os.path.join(core.VERIF, 'corpus', 'C12')
    if os.path.isdir(cdir):
        for fn in sorted(os.listdir(cdir)):
            if fn.endswith('.json'):
                cfgs.insert(0, json.load(open(os.path.join(cdir, fn)))['cfg'])
    cfgs += [random_cfg(rnd) for _ in range(8 if tier == 'quick' else 70)]
    with ThreadPoolExecutor(max_workers=5) as ex:
        outs = list(ex.map(run_scenario, cfgs))
    # a scenario that could not even be set up (port/spawn trouble under load) is retried once, never a property failure
    for i, (cfg, out) in enumerate(zip(cfgs, outs)):
        if out.get('errors'):
            outs[i] = run_scenario(cfg)
    terms, keep = [], []
    for cfg, out in zip(cfgs, outs):
        steady = cfg.get('delay') is None and not cfg.get('starting') and not cfg.get('orphans')
        res.count('mode:' + cfg['mode']); res.count('steady' if steady else 'racing'); res.count(f'children:{len(cfg["children"])}')
        for c in cfg['children']:
            res.count('state:' + c[0] + (':ctx' if c[1] else ''))
        res.case((cfg['mode'], json.dumps(cfg['children']), cfg.get('delay')), nontrivial=any(c[0] != 'finished' for c in cfg['children']),
                 sample=dict(scenario=cfg, survivors=out.get('survivors'), reaped_after_s=out.get('t_reaped'),
                             parents=[{k: r.get(k) for k in ('wait', 'has_error', 'error', 'dur', 'pid_gone')} for r in out.get('children', [])]))
        why = oracle(cfg, out)
        if why:
            res.violation(dict(cfg), why, observed=out)
        if steady and not out.get('errors') and len(out.get('children', [])) == len(cfg['children']):
            terms.append(coq_term(cfg, out)); keep.append((cfg, out))
    bad, err = core.coq_eval_cases(PROP, HEADER, terms, per_file=200)
    res.traces_validated = len(terms) - len(bad)
    if err:
        res.tie('correspondence:coq-eval', err)
    for i in bad[:8]:
        res.tie('correspondence:shutdown', dict(scenario=keep[i][0], implementation=keep[i][1].get('children'), term=terms[i]))
    return res.finish()
