"""C04: wait/terminate bounded, truthful, idempotent.
T-B: the REAL ThreadWorker / ProcessWorker / PersistentProcessWorker.is_alive/wait/terminate/close
run against a scripted child object (installed through the documented extension point _start),
which records every blocking call with its timeout; compared with Ctrl/Model.v on every history
of length <= 4.  thorough adds real children (GIL held by a C call, SIGSTOPped, swallowing,
sleeping) with a wall-clock bound."""
import itertools
import logging
import os
import queue
import random
import signal
import sys
import time

from harness import core

PROP = 'C04'
PROOFS = ['theories/Ctrl/Proofs.v', 'theories/Ctrl/RemoteLive.v']
HEADER = 'From PW Require Import Ctrl.Model Ctrl.Run.\n'
CLASSES = ['Coop', 'Swallows', 'BlockedC', 'GilHeld', 'Stopped']
THREAD_KINDS = ('KThread', 'KPersistentThread')


class FakeChild:
    """stands for multiprocessing.Process / threading.Thread"""

    def __init__(self, cls, log):
        self.cls, self.log = cls, log
        self.alive = True
        self.pid = 999999
        self.sentinel = None
        self.ident = 1
        self.native_id = 424242

    def is_alive(self):
        return self.alive

    def join(self, timeout=None):
        self.log.append(('BJoin', 'TInf' if timeout is None else 'TFin'))

    def terminate(self):         # SIGTERM
        if self.cls != 'Stopped':
            self.alive = False

    def kill(self):              # SIGKILL
        self.alive = False

    def graceful(self):
        if self.cls == 'Coop':
            self.alive = False


class FakeCtrlEnd:
    def __init__(self, child, log):
        self.child, self.log = child, log
        self.closed = False

    def put(self, obj):
        if self.closed:
            raise BrokenPipeError()
        self.sent = obj

    send = put

    def poll(self, timeout=0):
        self.log.append(('BPoll', 'TInf' if timeout is None else 'TFin'))
        if self.child.cls in ('Coop', 'Swallows', 'BlockedC'):
            self.child.graceful()      # the control thread raised the exception and closed its end
            return True
        return False

    def get(self, block=True, timeout=None):
        if self.child.cls in ('Coop', 'Swallows', 'BlockedC'):
            self.child.graceful()
            raise queue.Empty          # the control thread closed its end: immediate EOF
        # nobody will ever answer: a blocking read without timeout waits for ever
        self.log.append(('BGet', 'TInf' if (block and timeout is None) else 'TFin'))
        raise queue.Empty

    def close(self):
        self.closed = True


class FakeCtrl:
    def __init__(self, child, log):
        self.parent_end = FakeCtrlEnd(child, log)
        self.child_end = FakeCtrlEnd(child, log)


class FakeArgsEnd:
    def __init__(self, child):
        self.child = child

    def send(self, obj):
        if obj is None:
            self.child.graceful()      # a released persistent child finishes if it is responsive

    def close(self):
        pass


def make_worker(kind, cls, run):
    from pyworkers.thread import ThreadWorker
    from pyworkers.process import ProcessWorker
    from pyworkers.persistent_process import PersistentProcessWorker
    import pyworkers.thread as thread_mod
    log = []
    child = FakeChild(cls, log)
    if kind == 'KThread':
        class W(ThreadWorker):
            def _start(self):
                self._child = child
                self._dead = False
                self._tid = -1
    elif kind == 'KProcess':
        class W(ProcessWorker):
            def _start(self):
                self._child = child
                self._dead = False
                self._pid = 999999
    elif kind == 'KPersistentThread':
        from pyworkers.persistent_thread import PersistentThreadWorker

        class W(PersistentThreadWorker):
            def _start(self):
                self._child = child
                self._dead = False
                self._tid = -1
    else:
        class W(PersistentProcessWorker):
            def _start(self):
                self._child = child
                self._dead = False
                self._pid = 999999
    w = W(target=(lambda *a: None), run=run)
    # the real pipes the constructors created (some are replaced by scripted ones below): closed at the end of the history,
    # a long enumeration must not run out of file descriptors
    w._verif_pipes = [getattr(w, a) for a in ('_comms', '_ctrl_comms', '_results_pipe', '_args_pipe') if getattr(w, a, None) is not None]
    if kind == 'KPersistentThread':
        class AE(FakeArgsEnd):
            def put(self, obj):
                self.send(obj)

        class APT:
            parent_end = AE(child)
            child_end = AE(child)
        w._args_pipe = APT()
    if kind not in THREAD_KINDS:
        w._ctrl_comms = FakeCtrl(child, log)
    if kind == 'KPersistentProcess':
        class AP:
            parent_end = FakeArgsEnd(child)
            child_end = FakeArgsEnd(child)
        w._args_pipe = AP()
    if kind in THREAD_KINDS:
        # ThreadWorker.terminate raises the exception through foreign_raise(ident): scripted
        w._ident = -12345
    return w, child, log


OPS = [('IsAlive',), ('Wait', 'TFin'), ('Wait', 'TInf'), ('Terminate', 'TFin', True), ('Terminate', 'TFin', False), ('Terminate', 'TInf', True), ('Close',)]


def play(kind, cls, run, ops):
    import pyworkers.thread as thread_mod
    w, child, log = make_worker(kind, cls, run)
    orig = thread_mod.foreign_raise
    thread_mod.foreign_raise = lambda ident, exc: child.graceful()
    rets, viol = [], []
    try:
        for op in ops:
            before = len(log)
            alive_before = child.alive and run
            known_dead = (not run) or w._dead
            if op[0] == 'IsAlive':
                r = w.is_alive()
            elif op[0] == 'Wait':
                r = w.wait(timeout=None if op[1] == 'TInf' else 0.05)
            elif op[0] == 'Terminate':
                if kind in THREAD_KINDS and op[2]:
                    r = w.terminate(timeout=None if op[1] == 'TInf' else 0.05) if False else w.terminate(timeout=0.05 if op[1] == 'TFin' else 0.05, force=False)
                else:
                    r = w.terminate(timeout=None if op[1] == 'TInf' else 0.05, force=op[2])
            else:
                r = w.close(); r = True
            rets.append(bool(r))
            new = log[before:]
            alive_now = child.alive and run
            # the property itself
            if op[0] in ('Wait', 'Terminate'):
                if r is not (not alive_now):
                    viol.append(f'{op} returned {r} but the child is {"alive" if alive_now else "dead"} at that moment')
                if op[1] == 'TFin' and (len(new) > 4 or any(t != 'TFin' for _, t in new)):
                    viol.append(f'{op} with a finite timeout issued blocking calls {new}')
                if known_dead and (new or r is not True):
                    viol.append(f'{op} on a dead/never-run worker returned {r} after blocking calls {new}')
                if op[0] == 'Terminate' and op[2] and kind not in THREAD_KINDS and alive_now:
                    viol.append(f'terminate(force=True) left a {cls} child alive')
            if op[0] == 'IsAlive' and r is not alive_now:
                viol.append(f'is_alive() returned {r} but the child is {"alive" if alive_now else "dead"}')
    finally:
        thread_mod.foreign_raise = orig
        for pipe in getattr(w, '_verif_pipes', []):
            for end in ('parent_end', 'child_end'):
                try:
                    getattr(pipe, end).close()
                except Exception:
                    pass
    return rets, log, child.alive and run, viol


def coq_op(op, kind):
    if op[0] == 'IsAlive':
        return 'IsAlive'
    if op[0] == 'Close':
        return 'Close'
    if op[0] == 'Wait':
        return f'Wait {op[1]}'
    force = op[2] and kind not in THREAD_KINDS
    t = op[1] if not (kind in THREAD_KINDS) else 'TFin'
    return f'Terminate {t} {"true" if force else "false"}'


# ---------------------------------------------------------------- real children (thorough)
def gil_holder():
    import ctypes
    ctypes.PyDLL(None).sleep(60)


def stopper():
    os.kill(os.getpid(), signal.SIGSTOP)
    time.sleep(60)


def swallower():
    t0 = time.time()
    while time.time() - t0 < 60:
        try:
            time.sleep(0.01)
        except Exception:
            pass


def sleeper():
    time.sleep(60)


def lingerer():
    """returns at once - but the process stays: a non-daemon thread keeps the interpreter from exiting"""
    import threading
    threading.Thread(target=time.sleep, args=(30,)).start()
    return 'done'


def call_bounded(fn, bound, pid_getter):
    """run fn() in a thread; if it does not return within `bound` seconds kill the child to unblock it"""
    import threading
    out = {}

    def run():
        t0 = time.time()
        try:
            out['r'] = fn()
        except BaseException as e:   # noqa
            out['r'] = f'raised {type(e).__name__}: {e}'
        out['d'] = time.time() - t0
    th = threading.Thread(target=run, daemon=True)
    th.start(); th.join(bound)
    if th.is_alive():
        try:
            os.kill(pid_getter(), signal.SIGKILL)
        except Exception:
            pass
        th.join(10)
        return 'did not return', bound
    return out['r'], out['d']


def real_children(res, tier):
    from pyworkers.process import ProcessWorker
    from pyworkers.remote import RemoteWorker
    from pyworkers.remote_server import spawn_server
    server = spawn_server(('127.0.0.1', 0))
    kinds = [('process', lambda f: ProcessWorker(f))]
    if tier == 'thorough':
        kinds.append(('remote', lambda f: RemoteWorker(f, host=server.addr)))
    try:
        for name, f in (('GilHeld', gil_holder), ('Stopped', stopper), ('Swallows', swallower), ('BlockedC', sleeper)):
            for kname, mk in kinds:
                try:
                    w = mk(f)
                except BaseException as e:   # noqa
                    res.violation(dict(real=kname, child=name), f'could not create the worker: {type(e).__name__}')
                    continue
                time.sleep(0.5)
                t = 0.3
                bound = 5 * t + 2
                pid = w.pid
                r1, d1 = call_bounded(lambda: w.wait(timeout=t), bound + 3, lambda: pid)
                r2, d2 = call_bounded(lambda: w.terminate(timeout=t, force=True), bound + 3, lambda: pid)
                gone = not os.path.exists(f'/proc/{pid}') or open(f'/proc/{pid}/stat').read().split()[2] == 'Z'
                res.count('real:' + kname + ':' + name); res.case(('real', kname, name), nontrivial=True)
                if r1 is not False or d1 > bound:
                    res.violation(dict(real=kname, child=name), f'wait({t}) on a running {name} child returned {r1} after {d1:.2f}s (bound {bound:.1f}s)')
                if r2 is not True or d2 > bound or not gone:
                    res.violation(dict(real=kname, child=name), f'terminate({t}, force=True) on a {name} child returned {r2} after {d2:.2f}s (bound {bound:.1f}s), pid gone: {gone}')
                r3, _ = call_bounded(lambda: (w.terminate(timeout=t), w.wait(timeout=t)), bound, lambda: pid)
                if r3 != (True, True) and r2 is True:
                    res.violation(dict(real=kname, child=name), f'wait/terminate on the dead worker returned {r3}')
                try:
                    os.kill(pid, signal.SIGKILL)
                except Exception:
                    pass
        # a remote worker asked to wait for longer than any internal deadline of the control channel (the server answers after
        # 11 s): the wait is truthful and bounded by its own timeout, and the worker can still be ended by force afterwards
        try:
            sig0 = len(core.SIGTERMS_RECEIVED)
            core.SIGTERM_GUARD[0] = True
            w = RemoteWorker(swallower, host=server.addr)
            time.sleep(0.5)
            pid = w.pid
            r1, d1 = call_bounded(lambda: w.wait(timeout=11), 11 * 2 + 5, lambda: pid)
            gone1 = not os.path.exists(f'/proc/{pid}') or open(f'/proc/{pid}/stat').read().split()[2] == 'Z'
            r2, d2 = call_bounded(lambda: w.terminate(timeout=1, force=True), 5 * 1 + 6, lambda: pid)
            time.sleep(0.3)
            gone2 = not os.path.exists(f'/proc/{pid}') or open(f'/proc/{pid}/stat').read().split()[2] == 'Z'
            res.count('real:remote:long-wait'); res.case(('real', 'remote', 'long-wait'), nontrivial=True)
            if r1 is not False or gone1 or d1 > 11 * 1.5 + 2:
                res.violation(dict(real='remote', child='Swallows', call='wait(timeout=11)'), f'wait(11) on a running child returned {r1} after {d1:.1f}s (child gone: {gone1})')
            if len(core.SIGTERMS_RECEIVED) > sig0:
                res.violation(dict(real='remote', child='Swallows', call='wait(timeout=11) then terminate(1, force=True)'),
                              f'terminate(force=True) of a remote worker whose child is running fell back to sending SIGTERM to the CALLING process (returned {r2}, child gone: {gone2})')
            elif r2 is not True or not gone2:
                res.violation(dict(real='remote', child='Swallows', call='wait(timeout=11) then terminate(1, force=True)'),
                              f'after a wait of 11 s, terminate(1, force=True) returned {r2} after {d2:.1f}s and the child process {pid} is {"gone" if gone2 else "still running"}')
            try:
                os.kill(pid, signal.SIGKILL)
            except Exception:
                pass
        except BaseException as e:   # noqa
            res.violation(dict(real='remote', child='Swallows', call='long wait'), f'scenario raised {type(e).__name__}: {e}')
        finally:
            core.SIGTERM_GUARD[0] = False
        # a child which has delivered its result but whose process is still there: wait() must go on saying "not dead",
        # is_alive() must agree with the process table, and terminate(force=True) must still be able to end it
        for kname, mk in kinds + ([('remote', lambda f: RemoteWorker(f, host=server.addr))] if tier != 'thorough' else []):
            try:
                w = mk(lingerer)
            except BaseException as e:   # noqa
                res.violation(dict(real=kname, child='Lingering'), f'could not create the worker: {type(e).__name__}')
                continue
            time.sleep(0.8)
            pid = w.pid
            there = lambda: os.path.exists(f'/proc/{pid}') and open(f'/proc/{pid}/stat').read().split()[2] != 'Z'   # noqa: E731
            r1, d1 = call_bounded(lambda: w.wait(timeout=0.3), 6, lambda: pid)
            a1 = there()
            r1b, _ = call_bounded(lambda: w.wait(timeout=0.3), 6, lambda: pid)
            alive_says, _ = call_bounded(w.is_alive, 6, lambda: pid)
            a2 = there()
            res.count('real:' + kname + ':Lingering'); res.case(('real', kname, 'Lingering'), nontrivial=True)
            if True:
                if (r1 is True and a1) or (r1b is True and a2):
                    res.violation(dict(real=kname, child='Lingering'), f'wait(0.3) returned True ({r1}, {r1b}) although the child process {pid} is still running')
                elif alive_says is False and a2:
                    res.violation(dict(real=kname, child='Lingering'), f'is_alive() says False although the child process {pid} is still running')
            r2, d2 = call_bounded(lambda: w.terminate(timeout=0.3, force=True), 8, lambda: pid)
            time.sleep(0.2)
            if r2 is not True or there():
                res.violation(dict(real=kname, child='Lingering'), f'terminate(0.3, force=True) returned {r2} and the lingering child process {pid} is {"still running" if there() else "gone"}')
            try:
                os.kill(pid, signal.SIGKILL)
            except Exception:
                pass
    finally:
        try:
            server.terminate(force=True)
        except Exception:
            pass


def main(tier, seed, replay=None):
    logging.disable(logging.CRITICAL)
    core.quiet_stderr(PROP)
    res = core.Result(PROP, tier, seed)
    res.rule = ('every history of length <= 3 (quick) / 4 (thorough) over {is_alive, wait(finite), wait(None), terminate(finite, force), terminate(finite, no force), '
                'terminate(None, force), close} x 5 child classes x {thread, process, persistent process, persistent thread} x {run, not run}, played on the real methods '
                'against a scripted child that records every blocking call and its timeout (no wall-clock involved); quick also runs 4 real '
                'unresponsive children (interpreter lock held by a C sleep, SIGSTOPped, swallowing, blocked in sleep) for the process kind, thorough '
                'for process and remote kinds, with the bound 5 x timeout + 2 s. Non-trivial = history containing wait or terminate on a live child.')
    res.assumptions = ['reaction table of the child classes (who acknowledges the control message, who dies of the asynchronous exception, SIGTERM, SIGKILL): Ctrl/Model.v, exercised on real children',
                       'wall-clock duration = sum of the recorded blocking calls + non-blocking steps',
                       'ThreadWorker.terminate(force=True) sends SIGTERM to the whole process and is not exercised']
    res.trusted.append('Ctrl/Model.v: interpreter of the regenerated instruction lists (Gen/Ctrl.v), hand-written is_alive / persistent wait+close / reaction table of the child classes; scripted child of harness/props/c04.py')
    core.prove(res, PROP, ['Ctrl', 'RemoteLive'], PROOFS, run_files=['theories/Ctrl/Run.v'])
    sys.path.insert(0, core.REPO)
    terms, keep = [], []
    maxlen = 3 if tier == 'quick' else 4
    for kind in ('KThread', 'KProcess', 'KPersistentProcess', 'KPersistentThread'):
        for cls in CLASSES:
            for run in (True, False):
                for L in range(1, maxlen + 1):
                    if not run and L > 2:
                        continue
                    for ops in itertools.product(OPS, repeat=L):
                        if kind in THREAD_KINDS and any(o[0] == 'Terminate' and (o[2] or o[1] == 'TInf') for o in ops):
                            continue
                        rets, log, alive, viol = play(kind, cls, run, ops)
                        res.count(kind); res.count('class:' + cls)
                        res.case((kind, cls, run, ops), nontrivial=run and any(o[0] in ('Wait', 'Terminate') for o in ops),
                                 sample=dict(kind=kind, child=cls, ops=[' '.join(map(str, o)) for o in ops], returned=rets, blocking=log))
                        for v in viol[:1]:
                            res.violation(dict(kind=kind, child=cls, run=run, ops=[list(o) for o in ops]), v, observed=dict(returned=rets, blocking=log))
                        t = (f'check_hist {kind} {cls} {"true" if run else "false"} [{"; ".join(coq_op(o, kind) for o in ops)}] '
                             f'[{"; ".join("true" if r else "false" for r in rets)}] [{"; ".join(f"{b} {t}" for b, t in log)}] {"true" if alive else "false"}')
                        terms.append(t); keep.append((kind, cls, run, ops, rets, log))
    if tier == 'thorough' or True:
        real_children(res, tier)
    bad, err = core.coq_eval_cases(PROP, HEADER, terms, per_file=500)
    res.traces_validated = len(terms) - len(bad)
    if err:
        res.tie('correspondence:coq-eval', err)
    for i in bad[:10]:
        res.tie('correspondence:control', dict(case=repr(keep[i])[:600], term=terms[i][:800]))
    return res.finish()
