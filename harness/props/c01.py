"""C01 (and C03 via main(..., prop='C03')): outcome of a dead worker for every landing point.
T-S: Gen/Skel.v regenerated from thread.py / process.py / remote.py / persistent_*.py;
T-B: line-level injection into the REAL child run loops - thread kinds in-process through
sys.settrace, process kinds and the backends of remote kinds in spawned interpreters through harness/inject/sitecustomize.py -
compared with Child/Sem.v on the same (kind, target behaviour, landing points)."""
import concurrent.futures
import logging
import os
import random
import sys
import threading
import time

from harness import core

PROP = 'C01'
UNITS = ['Skel', 'RemoteLive']
PROOFS = ['theories/Child/Proofs.v', 'theories/Child/ProofsRemote.v', 'theories/Ctrl/RemoteLive.v']
HEADER = 'From PW Require Import Child.Sem Gen.Skel Child.Runs Child.Run.\n'

TARGETS = ['TReturn', 'TRaise', 'TRaiseBase', 'TLoop']
OBSERVE_MODES = ['wait', 'is_alive', 'join']


class Own(Exception):
    pass


class NeedsArgs(Exception):            # cannot be rebuilt on the parent side: constructor needs arguments
    def __init__(self, a, b):
        super().__init__(f'{a}{b}')


def t_return():
    return 7


def t_raise():
    raise Own('own')


def t_raise_unrebuildable():
    raise NeedsArgs(1, 2)


def t_raise_base():
    raise KeyboardInterrupt()


def t_loop():
    while True:
        time.sleep(0.002)


def p_target(x):
    return x


def t_loop_marker(flag, marker):
    try:
        open(flag, 'w').write('in')
        while True:
            time.sleep(0.002)
    finally:
        open(marker, 'w').write('finally ran')


def t_in_except(flag, marker):
    """the request finds the target recovering from an exception of its own (inside an `except` clause)"""
    try:
        try:
            raise KeyError('caught by the target')
        except KeyError:
            open(flag, 'w').write('in')
            while True:
                time.sleep(0.002)
    finally:
        open(marker, 'w').write('finally ran')


def t_in_finally_of_error(flag, marker):
    """... or cleaning up (a `finally` block) while an exception of its own is on its way out"""
    try:
        try:
            raise ValueError('raised by the target')
        finally:
            open(flag, 'w').write('in')
            while True:
                time.sleep(0.002)
    finally:
        open(marker, 'w').write('finally ran')


class _Ctx:
    def __init__(self, flag):
        self.flag = flag

    def __enter__(self):
        return self

    def __exit__(self, *exc):
        open(self.flag, 'w').write('in')
        while True:
            time.sleep(0.002)


def t_in_exit_of_error(flag, marker):
    """... or inside the __exit__ of a context manager left by an exception"""
    try:
        with _Ctx(flag):
            raise LookupError('raised by the target')
    finally:
        open(marker, 'w').write('finally ran')


def real_terminate_cases(res, tier):
    """C03 through the real terminate(): target inside try/finally, idle persistent workers; all kinds."""
    import tempfile
    from pyworkers.worker import WorkerTerminatedError
    from pyworkers.thread import ThreadWorker
    from pyworkers.process import ProcessWorker
    from pyworkers.remote import RemoteWorker
    from pyworkers.persistent_thread import PersistentThreadWorker
    from pyworkers.persistent_process import PersistentProcessWorker
    from pyworkers.persistent_remote import PersistentRemoteWorker
    from pyworkers.remote_server import spawn_server
    server = spawn_server(('127.0.0.1', 0))
    d = tempfile.mkdtemp(prefix='pwverif_c03_', dir=os.path.join(core.VERIF, 'scratch'))
    try:
        phases = [('inside try/finally', t_loop_marker), ('inside an except clause handling an exception of the target', t_in_except),
                  ('inside a finally block run because of an exception of the target', t_in_finally_of_error),
                  ('inside the __exit__ of a context manager left by an exception of the target', t_in_exit_of_error)]
        for name, cls, kw, phase, tgt in [(n, c, k, ph, t) for (n, c, k) in (('thread', ThreadWorker, {}), ('process', ProcessWorker, {}), ('remote', RemoteWorker, dict(host=server.addr)))
                                          for ph, t in phases]:
            flag, marker = os.path.join(d, f'{name}.{tgt.__name__}.flag'), os.path.join(d, f'{name}.{tgt.__name__}.marker')
            w = cls(tgt, args=(flag, marker), **kw)
            t0 = time.time()
            while not os.path.exists(flag) and time.time() - t0 < 20:
                time.sleep(0.01)
            ok = w.terminate(timeout=10)
            he, r, e = w.has_error, w.result, w.error
            res.count('real-terminate:' + name); res.case(('real-terminate', name, phase), nontrivial=True)
            if not (ok is True and he is True and r is None and isinstance(e, WorkerTerminatedError) and os.path.exists(marker)):
                res.violation(dict(kind=name, phase=phase, features=[]),
                              f'terminate() of a running interruptible target: returned {ok}, has_error={he}, result={r!r}, error={e!r}, finally ran={os.path.exists(marker)}')
        for name, cls, kw in (('pthread', PersistentThreadWorker, {}), ('pprocess', PersistentProcessWorker, {}), ('premote', PersistentRemoteWorker, dict(host=server.addr))):
            w = cls(p_target, **kw)
            w.enqueue(1); v = w.next_result(timeout=20)
            ok = w.terminate(timeout=10)
            he, e = w.has_error, w.error
            res.count('real-terminate:' + name); res.case(('real-terminate', name), nontrivial=True)
            if not (v == 1 and ok is True and he is True and isinstance(e, WorkerTerminatedError)):
                res.violation(dict(kind=name, phase='idle persistent worker', features=[]),
                              f'terminate() of an idle persistent worker: returned {ok}, has_error={he}, error={e!r}')
    finally:
        server.terminate(force=True)
        import shutil
        shutil.rmtree(d, ignore_errors=True)


FUNCS = {'TReturn': t_return, 'TRaise': t_raise, 'TRaiseBase': t_raise_base, 'TLoop': t_loop}


def classify(w):
    """three reads of the accessors -> model observation + stability"""
    from pyworkers.worker import WorkerTerminatedError
    reads = []
    for _ in range(3):
        try:
            he, r, e, alive = w.has_error, w.result, w.error, w.is_alive()
        except BaseException as ex:   # noqa
            return 'ORaises', f'accessor raised {type(ex).__name__}: {ex}'
        reads.append((he, repr(r), type(e).__name__ if e is not None else None, alive))
    # the same from threads which did not exist when the worker died (identifiers of finished threads are handed out again)
    for _ in range(2):
        box = {}

        def look():
            try:
                box['v'] = (w.has_error, repr(w.result), type(w.error).__name__ if w.error is not None else None, w.is_alive(), w.wait(0), w.terminate(0))
            except BaseException as ex:   # noqa
                box['x'] = f'{type(ex).__name__}: {ex}'
        t = threading.Thread(target=look)
        t.start(); t.join(20)
        if 'x' in box:
            return 'ORaises', f'seen from a thread started after the death: {box["x"]}'
        if 'v' not in box:
            return 'ORaises', 'a thread started after the death blocks in the accessors / wait(0) / terminate(0) of the dead worker'
        if box['v'][4] is not True or box['v'][5] is not True:
            return 'ORaises', f'seen from a thread started after the death: wait(0) -> {box["v"][4]}, terminate(0) -> {box["v"][5]} on a dead worker'
        reads.append(box['v'][:4])
    if len(set(reads)) != 1:
        return 'ORaises', f'observations change between reads: {reads}'
    he, r, e = w.has_error, w.result, w.error
    if he is None:
        return 'OUndef', 'has_error is None on a dead worker'
    if he is False:
        if e is not None:
            return 'ORaises', 'has_error False but error is not None'
        return 'OOk', None
    if r is not None:
        return 'ORaises', 'has_error True but result is not None'
    if e is None:
        return 'OErr None', None
    if isinstance(e, WorkerTerminatedError):
        return 'OErr (Some EWTE)', None
    if isinstance(e, (Own, NeedsArgs)):
        return 'OErr (Some EOwn)', None
    if isinstance(e, KeyboardInterrupt):
        return 'OErr (Some EBaseOwn)', None
    return 'ORaises', f'unexpected error object {e!r}'


# ------------------------------------------------------------------ thread kinds, in-process
class ThreadInjector:
    def __init__(self, plan):
        from pyworkers.thread import ThreadWorker
        from pyworkers.persistent_thread import PersistentThreadWorker
        self.codes = {ThreadWorker._run.__code__, PersistentThreadWorker._cleanup.__code__}
        self.plan = dict(plan)
        self.n = 0
        self.events = []

    def glob(self, frame, event, arg):
        if frame.f_code in self.codes:
            return self.local
        return None

    def local(self, frame, event, arg):
        if event != 'line':
            return self.local
        n = self.n
        self.n += 1
        self.events.append((frame.f_code.co_name, frame.f_lineno))
        if self.plan.get(n) == 'AWTE':
            from pyworkers.worker import WorkerTerminatedError
            raise WorkerTerminatedError()
        return self.local


TRACE_LOCK = threading.Lock()


def run_thread(persistent, tgt, plan):
    import faulthandler
    faulthandler.dump_traceback_later(120, exit=True)     # a hanging constructor/join must not hang the check
    try:
        return _run_thread(persistent, tgt, plan)
    finally:
        faulthandler.cancel_dump_traceback_later()


def _run_thread(persistent, tgt, plan):
    from pyworkers.thread import ThreadWorker
    from pyworkers.persistent_thread import PersistentThreadWorker
    inj = ThreadInjector(plan)
    with TRACE_LOCK:
        threading.settrace(inj.glob)
        try:
            if persistent:
                # the "target" of a persistent worker is its do_work loop: TReturn = released without input,
                # TLoop = idle, waiting for input; TRaise* = the first call raises
                w = PersistentThreadWorker(p_target if tgt in ('TReturn', 'TLoop') else (lambda x: FUNCS[tgt]()))
            else:
                w = ThreadWorker(FUNCS[tgt])
        finally:
            threading.settrace(None)
    if persistent and tgt in ('TRaise', 'TRaiseBase'):
        try:
            w.enqueue(1)
        except Exception:
            pass
    if persistent and tgt == 'TReturn':
        w.close()
    mode = OBSERVE_MODES[len(plan) + (plan[0][0] if plan else 0) % 3 if False else ((plan[0][0] if plan else 0) % 3)]
    if mode == 'wait' and tgt != 'TLoop':
        # death observed by wait() itself (for persistent kinds wait() also releases the child)
        dead = w.wait(0.4 if tgt == 'TLoop' else 3)
    elif mode == 'is_alive':
        t0 = time.time()
        while w.is_alive() and time.time() - t0 < (0.4 if tgt == 'TLoop' else 3):
            time.sleep(0.005)
        dead = not w.is_alive()
    else:
        w._child.join(0.4 if tgt == 'TLoop' else 3)
        dead = not w._child.is_alive()
    if not dead:
        # still inside the target: not an observation of a dead worker
        w.terminate(timeout=3)
        if persistent:
            pass
        return 'OAlive', None, inj.events
    ob, why = classify(w)
    return ob, why, inj.events


# ------------------------------------------------------------------ process kinds, spawned
INJECT_DIR = os.path.join(core.VERIF, 'harness', 'inject')


def spawn_env():
    os.environ['PWVERIF_TRACE'] = '1'
    pp = os.environ.get('PYTHONPATH', '')
    if INJECT_DIR not in pp.split(':'):
        os.environ['PYTHONPATH'] = INJECT_DIR + ':' + pp


def run_process(persistent, tgt, plan, rebuild=True, log=None, grace=3.0):
    from pyworkers.process import ProcessWorker
    from pyworkers.persistent_process import PersistentProcessWorker
    name = 'inj|' + '|'.join(f'{o}:{a}' for o, a in plan) + (f'|log={log}' if log else '')
    f = FUNCS[tgt]
    if tgt == 'TRaise' and not rebuild:
        f = t_raise_unrebuildable
    try:
        if persistent:
            w = PersistentProcessWorker(p_target if tgt in ('TReturn', 'TLoop') else raiser_for(tgt, rebuild), name=name)
        else:
            w = ProcessWorker(f, name=name)
    except BaseException as e:   # noqa - landing before the runtime info was sent makes the constructor raise
        return 'CtorRaised', type(e).__name__
    try:
        if persistent and tgt in ('TRaise', 'TRaiseBase'):
            try:
                w.enqueue(1)
            except Exception:
                pass
        if persistent and tgt == 'TReturn':
            w.close()
        # a child that is expected to end gets plenty of time (spawns run in parallel); one that may stay in its target a short grace
        w._child.join(grace if tgt == 'TLoop' else 25)
        if w._child.is_alive():
            return 'OAlive', None
        return classify(w)
    finally:
        try:
            if w._child.is_alive():
                w._child.kill(); w._child.join(2)
        except Exception:
            pass


def run_remote(persistent, tgt, plan, rebuild, addr, log=None, grace=3.0):
    """one remote worker on the server at [addr]; the plan travels in the worker's name to the backend process the
    server spawns (which loads the tracer through sitecustomize, like every spawned interpreter of this check)"""
    from pyworkers.remote import RemoteWorker
    from pyworkers.persistent_remote import PersistentRemoteWorker
    name = 'inj|' + '|'.join(f'{o}:{a}' for o, a in plan) + (f'|log={log}' if log else '')
    f = FUNCS[tgt]
    if tgt == 'TRaise' and not rebuild:
        f = t_raise_unrebuildable
    try:
        if persistent:
            w = PersistentRemoteWorker(p_target if tgt in ('TReturn', 'TLoop') else raiser_for(tgt, rebuild), name=name, host=addr)
        else:
            w = RemoteWorker(f, name=name, host=addr)
    except BaseException as e:   # noqa
        return 'CtorRaised', type(e).__name__
    try:
        if persistent and tgt in ('TRaise', 'TRaiseBase'):
            try:
                w.enqueue(1)
            except Exception:
                pass
        if persistent and tgt == 'TReturn':
            w.close()
        w._child.join(grace if tgt == 'TLoop' else 25)        # the frontend thread ends when the data connection does
        if w._child.is_alive():
            return 'OAlive', None
        # the end of the data connection is not yet the death of the worker (the backend process may still be on its
        # way out): the worker counts as dead once is_alive() says so
        t0 = time.time()
        while w.is_alive() and time.time() - t0 < 15:
            time.sleep(0.01)
        if w.is_alive():
            return 'OAlive', None
        return classify(w)
    finally:
        try:
            if w._child.is_alive():
                w.terminate(timeout=2, force=True)
        except Exception:
            pass


def raise_own(x):
    raise Own('own')


def raise_unreb(x):
    raise NeedsArgs(1, 2)


def raise_base(x):
    raise KeyboardInterrupt()


def raiser_for(tgt, rebuild):
    if tgt == 'TRaiseBase':
        return raise_base
    return raise_own if rebuild else raise_unreb


# ------------------------------------------------------------------ model side
def model_steps(events, call_line_returned):
    """impl line-event ordinal -> model step: the line holding the target call is two model steps
    (CallTarget, then the store/send of its result) when the call returns."""
    return None


def coq_case(kind, persistent, tgt, rebuild, plan_model, ob):
    K = {'thread': 'KThread', 'process': 'KProcess', 'remote': 'KRemote'}[kind]
    b = lambda x: 'true' if x else 'false'   # noqa: E731
    pl = '[' + '; '.join(f'({p}, {a})' for p, a in plan_model) + ']'
    # remote kind: landing points are given relative to the boundary right after the child announced itself
    fn = 'check_obs_rel' if kind == 'remote' else 'check_obs'
    return f'{fn} {K} {b(persistent)} {tgt} {b(rebuild)} {pl} ({ob})'


def handler_lines():
    """(function name, line) of the `except` handlers of the run loops - the domain of the known finding C03-handler-window"""
    import ast
    import inspect
    import textwrap
    from pyworkers.thread import ThreadWorker
    from pyworkers.process import ProcessWorker
    out = set()
    for fn in (ThreadWorker._run, ProcessWorker._run):
        src, first = inspect.getsourcelines(fn)
        tree = ast.parse(textwrap.dedent(''.join(src)))
        for n in ast.walk(tree):
            if isinstance(n, ast.ExceptHandler):
                for ln in range(n.lineno, n.end_lineno + 1):
                    out.add(('_run', first + ln - 1))
    return out


def line_labels():
    """line number -> label for the run loops: from the skeleton translator when it accepts the source,
    otherwise (the tie is broken then anyway) from the source text, so that the landing sweep still runs."""
    import gen_skel
    try:
        return gen_skel.skeletons(core.REPO)
    except Exception:
        pass
    import inspect
    import re
    from pyworkers.thread import ThreadWorker
    from pyworkers.process import ProcessWorker
    out = {}
    from pyworkers.remote import RemoteWorker
    for name, fn in (('thread_run', ThreadWorker._run), ('process_run', ProcessWorker._run), ('remote_backend', RemoteWorker._run_backend)):
        src, first = inspect.getsourcelines(fn)
        lines = {}
        for i, text in enumerate(src):
            t = text.strip()
            lab = 'Nop'
            if '_startup_sync.set()' in t and 'StartupDone' not in lines.values():
                lab = 'StartupDone'
            elif re.search(r'child_end\.(put|send)\(\(self\.(_pid|_host)', t):
                lab = 'SendInfo'
            elif 'child_end.put(' in t or 'child_end.send(' in t or t.startswith('send_msg(self._socket'):
                lab = 'SendRes'
            elif 'self.do_work()' in t:
                lab = 'CallTarget+SetResOk' if t.startswith('self._result') else 'CallTarget'
            lines[first + i] = lab
        out[name] = ('', lines, '', first)
    return out


class SlowToRebuild:
    """a result whose unpickling on the parent side takes a while: the window in which the backend process is already
    gone while the parent's frontend thread is still receiving the outcome"""

    def __init__(self, delay):
        self.delay = delay

    def __reduce__(self):
        return (_slow_rebuild, (self.delay,))


def _slow_rebuild(delay):
    time.sleep(delay)
    return 'rebuilt'


def t_return_slow():
    return [SlowToRebuild(1.5), 'payload']


def slow_outcome_probe(res, addr):
    """C01 on the parent side of a remote worker: whatever way the death is learnt (timed waits, is_alive polls), once it
    is reported the outcome is definite and never changes afterwards"""
    from pyworkers.remote import RemoteWorker
    for mode in ('timed-wait', 'is_alive', 'timed-terminate'):
        w = RemoteWorker(t_return_slow, host=addr)
        t0 = time.time()
        dead = False
        while not dead and time.time() - t0 < 20:
            if mode == 'timed-wait':
                dead = w.wait(timeout=0.1) or not w.is_alive()
            elif mode == 'is_alive':
                dead = not w.is_alive(); time.sleep(0.02)
            else:
                time.sleep(0.3)
                dead = w.terminate(timeout=0.1, force=False) or not w.is_alive()
        first = (w.has_error, repr(w.result), type(w.error).__name__)
        seen = {first}
        t1 = time.time()
        while time.time() - t1 < 2.5:
            seen.add((w.has_error, repr(w.result), type(w.error).__name__)); time.sleep(0.05)
        res.count('remote-slow-outcome:' + mode); res.case(('remote-slow-outcome', mode), nontrivial=True)
        if not dead:
            res.violation(dict(kind='remote', probe='slow-to-rebuild result', mode=mode, features=[]), 'the worker was never reported dead within 20 s')
        elif first[0] is None or len(seen) != 1:
            res.violation(dict(kind='remote', probe='slow-to-rebuild result', mode=mode, features=[]),
                          f'worker reported dead (through {mode}) with outcome {first}; outcomes seen during the next 2.5 s: {sorted(map(str, seen))}', observed=str(first))
        try:
            w.terminate(timeout=2, force=True)
        except Exception:
            pass


def remote_sweep(res, tier, single, sk, scratch, record, events_of):
    from pyworkers.remote_server import spawn_server
    servers = [spawn_server(('127.0.0.1', 0)) for _ in range(3)]     # spawned AFTER spawn_env(): their children load the tracer
    try:
        lines = sk['remote_backend'][1]
        info_lines = {ln for ln, lab in lines.items() if lab == 'SendInfo'}
        jobs = []
        for pers in (False, True):
            for tgt in (['TReturn', 'TRaise', 'TLoop'] if tier == 'quick' else TARGETS):
                log = os.path.join(scratch, f'rdry_{pers}_{tgt}.log')
                ob0, why0 = run_remote(pers, tgt, [], True, servers[0].addr, log=log)
                ev0 = [(l.split()[1], int(l.split()[2])) for l in open(log)] if os.path.exists(log) else []
                events_of[('remote', pers, tgt)] = ev0
                record('remote', pers, tgt, True, [], [], ob0, why0)
                start = next((i + 1 for i, (fn, ln) in enumerate(ev0) if fn == '_run_backend' and ln in info_lines), None)
                if start is None:
                    res.tie('correspondence:remote-trace', f'no line event of the backend on the statement that reports the runtime info (target {tgt}, persistent {pers}): {ev0[-5:]}')
                    continue
                points = list(range(start, len(ev0) + 1))
                if tier == 'quick' and (pers or tgt == 'TLoop'):
                    points = points[::3]
                acts = ['ATerm'] if single else ['AWTE', 'AKill', 'AKillMidSend']
                for p in points:
                    for a in acts:
                        if a == 'AKillMidSend' and not (p < len(ev0) and ('Send' in lines.get(ev0[p][1], '') or ev0[p][0] == '_cleanup')):
                            continue
                        jobs.append((pers, tgt, True, [(p, a)], start, len(ev0)))
                if not single and tgt == 'TRaise':
                    jobs.append((pers, tgt, False, [], start, len(ev0)))
                    if tier == 'quick':
                        jobs.append((pers, 'TRaiseBase', True, [], start, len(ev0)))      # a target ending with a BaseException (corpus: fixed defect)
        with concurrent.futures.ThreadPoolExecutor(max_workers=9) as ex:
            futs = [(j, ex.submit(run_remote, j[0], j[1], j[3], j[2], servers[i % len(servers)].addr)) for i, j in enumerate(jobs)]
            for i, ((pers, tgt, rb, plan, start, nev), fu) in enumerate(futs):
                ob, why = fu.result()
                if ob == 'OAlive' and (tgt != 'TLoop' or (plan and plan[0][0] < nev)):
                    ob, why = run_remote(pers, tgt, plan, rb, servers[i % len(servers)].addr, grace=10.0)
                record('remote', pers, tgt, rb, plan, [(o - start, a) for o, a in plan], ob, why)
        if not single:
            slow_outcome_probe(res, servers[0].addr)
    finally:
        for sv in servers:
            try:
                sv.terminate(timeout=2, force=True)
            except Exception:
                pass


def main(tier, seed, replay=None, prop=PROP):
    logging.disable(logging.CRITICAL)
    core.quiet_stderr(prop)
    res = core.Result(prop, tier, seed)
    single = prop == 'C03'
    res.rule = ('thread and persistent-thread workers in-process (sys.settrace): ' + ('one graceful terminate' if single else 'one asynchronous exception')
                + ' landed on EVERY line event of ThreadWorker._run / _cleanup x 4 target behaviours'
                +
                '; process and persistent-process workers in spawned interpreters (sitecustomize tracer): every line event after the runtime info '
                'was sent x {terminate' + ('' if single else ', SIGKILL, SIGKILL part-way through a send') + '} x targets that return / raise'
                + ('' if single else ' / raise an exception the parent cannot rebuild') + ' (quick: one-shot kind exhaustively, persistent kind sampled; thorough: all). '
                'Accessors are read three times. Non-trivial = at least one landing point; distinct = distinct (kind, target, plan).')
    res.assumptions = ['an asynchronous exception is raised at a statement (line) boundary of the target thread, or inside an interruptible target (CPython PyThreadState_SetAsyncExc)',
                       'a pipe delivers whole messages in order; a writer killed part-way leaves at most one truncated trailing message; EOF after the writer is gone',
                       'line-level landing points, one per run (sys.settrace stops tracing after the first raise); pairs of landing points and opcode-level points inside one statement exist in the theorems only',
                       'remote kinds: the backend process spawned by a real server on loopback is traced like a process child; the server process itself and TCP are not modelled']
    res.trusted.append('hand-written semantics Child/Sem.v for the generated skeletons; harness/inject/sitecustomize.py')
    core.prove(res, prop, UNITS, PROOFS, run_files=['theories/Child/Run.v'])
    gen_ok = not any(w.startswith('translator:') for w, _ in res.tie_broken)
    sys.path.insert(0, core.REPO)
    rnd = random.Random(seed)
    terms, keep = [], []
    events_of = {}

    def record(kind, pers, tgt, rebuild, plan_impl, plan_model, ob, why):
        res.count(f'{kind}:{"persistent" if pers else "one-shot"}'); res.count('target:' + tgt); res.count('obs:' + ob.split()[0])
        for _, a in plan_impl:
            res.count('action:' + a)
        res.case((kind, pers, tgt, rebuild, tuple(plan_impl)), nontrivial=bool(plan_impl),
                 sample=dict(kind=kind, persistent=pers, target=tgt, landing=plan_impl, observed=ob))
        bad = None
        if ob in ('OUndef', 'ORaises'):
            bad = why or ob
        elif ob == 'OOk' and tgt not in ('TReturn',) and not (pers and tgt == 'TLoop'):
            bad = 'has_error False although the target did not return'
        elif ob == 'OErr (Some EOwn)' and tgt != 'TRaise':
            bad = 'error is an exception the target never raised'
        if single and not bad and ob not in ('OAlive', 'CtorRaised'):
            own = {'TReturn': 'OOk', 'TRaise': 'OErr (Some EOwn)', 'TRaiseBase': 'OErr (Some EBaseOwn)' if kind == 'thread' else 'OErr None'}.get(tgt)
            if tgt == 'TLoop' and not pers and ob != 'OErr (Some EWTE)':
                bad = f'terminate landed while the target was running but the outcome is {ob}, not WorkerTerminatedError'
            elif tgt != 'TLoop' and ob not in (own, 'OErr (Some EWTE)'):
                bad = f'outcome {ob} is neither the target\'s own outcome ({own}) nor WorkerTerminatedError'
        if bad:
            in_handler = bool(plan_impl) and events_of.get((kind, pers, tgt)) is not None and plan_impl[0][0] < len(events_of[(kind, pers, tgt)]) \
                and events_of[(kind, pers, tgt)][plan_impl[0][0]] in HANDLER
            feats = ['handler-window'] if (single and ob == 'OErr None' and tgt in ('TRaise', 'TRaiseBase') and in_handler) else []
            res.violation(dict(kind=kind, persistent=pers, target=tgt, rebuild=rebuild, plan=plan_impl, features=feats), bad, observed=ob,
                          finding_matcher=lambda kf, case: bool(set(kf.get('domain_any_of', [])) & set(case.get('features', []))))
        if ob != 'CtorRaised':
            terms.append(coq_case(kind, pers, tgt, rebuild, plan_model, ob)); keep.append((kind, pers, tgt, rebuild, plan_impl, ob))

    def to_model(plan, events, tgt, call_lines):
        """shift ordinals after the target-call line when the call returned (its result store is a model step of its own)"""
        out = []
        for o, a in plan:
            shift = 0
            for i, (fn, ln) in enumerate(events[:o]):
                if (fn, ln) in call_lines and tgt == 'TReturn':
                    shift = 1
            out.append((o + shift, a))
        return out

    # ---- thread kinds
    sk = line_labels()
    HANDLER = handler_lines()
    call_lines_thread = {('_run', ln) for ln, lab in sk['thread_run'][1].items() if 'CallTarget+' in lab}
    for pers in (False, True):
        for tgt in TARGETS:
            ob0, why0, ev0 = run_thread(pers, tgt, [])
            events_of[('thread', pers, tgt)] = ev0
            record('thread', pers, tgt, True, [], [], ob0, why0)
            n = len(ev0) + 2
            sd_lines = {ln for ln, lab in sk['thread_run'][1].items() if lab == 'StartupDone'}
            start = next((i + 1 for i, (fn, ln) in enumerate(ev0) if fn == '_run' and ln in sd_lines), n)
            for p in range(start, n):
                ob, why, ev = run_thread(pers, tgt, [(p, 'AWTE')])
                record('thread', pers, tgt, True, [(p, 'AWTE')], to_model([(p, 'AWTE')], ev0, tgt, call_lines_thread), ob, why)
    # ---- process kinds
    spawn_env()
    call_lines_proc = {('_run', ln) for ln, lab in sk['process_run'][1].items() if 'CallTarget+' in lab}
    scratch = os.path.join(core.VERIF, 'scratch', f'{prop}.{os.getpid()}.trace')
    os.makedirs(scratch, exist_ok=True)
    jobs = []
    for pers in (False, True):
        for tgt in (['TReturn', 'TRaise', 'TLoop'] if tier == 'quick' else TARGETS):
            log = os.path.join(scratch, f'dry_{pers}_{tgt}.log')
            ob0, why0 = run_process(pers, tgt, [], log=log)
            ev0 = [(l.split()[1], int(l.split()[2])) for l in open(log)] if os.path.exists(log) else []
            events_of[('process', pers, tgt)] = ev0
            record('process', pers, tgt, True, [], [], ob0, why0)
            # landing domain: after the runtime info was sent
            info_lines = {ln for ln, lab in sk['process_run'][1].items() if lab == 'SendInfo'}
            start = next((i + 1 for i, (fn, ln) in enumerate(ev0) if fn == '_run' and ln in info_lines), len(ev0))
            points = list(range(start, len(ev0) + 1))
            if tier == 'quick' and (pers or tgt == 'TLoop'):
                points = points[::3]
            acts = ['AWTE'] if single else ['AWTE', 'AKill', 'AKillMidSend']
            for p in points:
                for a in acts:
                    if a == 'AKillMidSend' and not (p < len(ev0) and 'Send' in sk['process_run'][1].get(ev0[p][1], '')):
                        continue
                    jobs.append((pers, tgt, True, [(p, a)], ev0))
            if not single and tgt == 'TRaise':
                jobs.append((pers, tgt, False, [], ev0))
        if tier == 'quick' and not single:
            # a target ending with a BaseException of its own: in quick at least the run without any injection
            jobs.append((pers, 'TRaiseBase', True, [], []))
    with concurrent.futures.ThreadPoolExecutor(max_workers=8) as ex:
        futs = [(j, ex.submit(run_process, j[0], j[1], j[3], j[2])) for j in jobs]
        for (pers, tgt, rb, plan, ev0), fu in futs:
            ob, why = fu.result()
            if ob == 'OAlive' and (tgt != 'TLoop' or (plan and plan[0][0] < len(ev0))):
                # a child that must end was still there after 25 s (or, for a looping target, a landing point the dry run
                # did reach was not reached within the short grace on a loaded machine): once is an infrastructure
                # hiccup, twice is a finding
                ob, why = run_process(pers, tgt, plan, rb, grace=10.0)
            record('process', pers, tgt, rb, plan, to_model(plan, ev0, tgt, call_lines_proc), ob, why)
    res.notes.append(f'process sweep done at {time.time() - res.t0:.0f}s')
    # ---- remote kinds: the backend process the server spawns runs RemoteWorker._run_backend under the same tracer
    remote_sweep(res, tier, single, sk, scratch, record, events_of)
    res.notes.append(f'remote sweep done at {time.time() - res.t0:.0f}s')
    import shutil
    shutil.rmtree(scratch, ignore_errors=True)
    if single:
        real_terminate_cases(res, tier)
    if gen_ok:
        bad, err = core.coq_eval_cases(prop, HEADER, terms, per_file=300)
        res.traces_validated = len(terms) - len(bad)
        if err:
            res.tie('correspondence:coq-eval', err)
        for i in bad[:12]:
            res.tie('correspondence:child-run', dict(case=repr(keep[i]), term=terms[i]))
    return res.finish()
