"""C09: no worker outlives its pool; a pool stays usable across runs and restarts.
T-B (1) life cycle: the REAL Pool (add_worker / attach / restart_workers / close / terminate / __exit__) holding REAL
persistent worker objects whose children are scripted (harness/life.py), against PoolLife/Model.v;
(2) several runs of one pool with deaths and (partial) restart_workers in between: the real Pool.run /
restart_workers driven by harness/sched_pool.py against Pool/Model.v [rounds];
(3) real mixed pools (thread + process, thorough: + remote) with stuck, killed and healthy workers: OS-level check
that no child process survives the with-block."""
import itertools
import json
import logging
import os
import random
import signal
import sys
import time

from harness import core, life

PROP = 'C09'
PROOFS = ['theories/PoolLife/Proofs.v', 'theories/Pool/Rounds.v']
HEADER = 'From PW Require Import Ctrl.Model Ctrl.Run PoolLife.Model PoolLife.Run.\n'
HEADER_R = 'From PW Require Import Pool.Model Pool.Run.\nOpen Scope Z_scope.\n'


class CtorError(Exception):
    pass


class HookError(Exception):
    pass


FORCE = {'FDefault': None, 'FOn': True, 'FOff': False}


def play_life(pforce, ops):
    """ops: list of tuples, see coq_pop. Returns (results, keys, qkeys, closed, obs, violations)."""
    from pyworkers.pool import Pool
    from pyworkers.utils import Pipe
    env = life.Env()
    cmap = life.classes(env)
    life.mark_thread_terminate(cmap)
    hook = {'fail': False}

    class P(Pool):
        def handle_new_worker(self, worker):
            if hook['fail']:
                raise HookError()

    pool = P(lambda x: x, close_timeout=life.TFIN, force_terminate=None)
    pool.force = FORCE[pforce]
    idmap = {}
    handed = set()      # children which were in the pool's hands at some point
    results, viol = [], []

    def vid_of(w):
        return getattr(w, '_vid', None)

    def note():
        for w in pool._workers.values():
            idmap[w.id] = vid_of(w)
            handed.add(vid_of(w))

    with life.patched(env):
        for op in ops:
            kind = op[0]
            was_closed = pool._pool_closed
            before_keys = [vid_of(w) for w in pool._workers.values()]
            try:
                if kind == 'add':
                    _, i, k, c, h = op
                    env.plan = [(i, c)]
                    hook['fail'] = h
                    try:
                        pool.add_worker(lambda **kw: cmap[k](kw.pop('target'), **kw))
                    finally:
                        hook['fail'] = False
                        if i in env.children:
                            handed.add(i)
                        env.plan = []
                elif kind == 'add_ctor_fails':
                    def boom(**kw):
                        raise CtorError()
                    pool.add_worker(boom)
                elif kind == 'add_existing':
                    ex = [w for w in pool._workers.values() if vid_of(w) == op[1]]
                    if ex:
                        pool.add_worker(lambda **kw: ex[0])
                    elif pool._pool_closed:
                        pool.add_worker(lambda **kw: None)
                elif kind == 'attach':
                    _, i, k, c = op
                    env.plan = [(i, c)]
                    w = cmap[k](lambda x: x, results_pipe=Pipe())
                    env.plan = []
                    try:
                        pool.attach(w)
                        handed.add(i)
                    except RuntimeError:
                        # the user's own worker: never in the pool's hands
                        env.children[i][0].kill()
                        del env.children[i]
                        raise
                elif kind == 'kill':
                    if op[1] in env.children and op[1] in before_keys:
                        env.children[op[1]][0].kill()
                elif kind == 'restart':
                    env.plan = list(op[1])
                    try:
                        pool.restart_workers(timeout=life.TFIN)
                    finally:
                        env.plan = []
                elif kind == 'close':
                    pool.close(force=FORCE[op[1]])
                elif kind == 'terminate':
                    pool.terminate(force=FORCE[op[1]])
                elif kind == 'exit':
                    if op[1]:
                        try:
                            raise KeyError('body failed')
                        except KeyError:
                            pool.__exit__(*sys.exc_info())
                    else:
                        pool.__exit__(None, None, None)
                results.append('Done')
            except RuntimeError:
                results.append('RaisedRuntime')
            except ValueError:
                results.append('RaisedValue')
            except CtorError:
                results.append('RaisedCtor')
            except HookError:
                results.append('RaisedHook')
            note()
            # ---- the property itself, on the implementation
            eff = {'close': lambda: op[1], 'terminate': lambda: op[1], 'exit': lambda: 'FDefault'}.get(kind)
            if eff:
                f = eff()
                f = pforce if f == 'FDefault' else f
                if f != 'FOff' and not was_closed:
                    # (a later close()/terminate()/exit on a pool which an earlier call closed with forced termination
                    # disabled returns at once - the user's explicit choice, not a violation)
                    for i in sorted(handed):
                        if i in env.children:
                            ch, lg, k = env.children[i]
                            if k == 'KPersistentProcess' and ch.alive:
                                viol.append(f'after {kind} (forced termination not disabled) the child of process worker {i} ({ch.cls}) is still alive')
                if not pool._pool_closed:
                    viol.append(f'pool not closed after {kind}')
            if kind == 'add' and results[-1] != 'Done' and not pool._pool_closed:
                if [vid_of(w) for w in pool._workers.values()] != before_keys:
                    viol.append('a failed add_worker changed the registry')
                i = op[1]
                if i in env.children and env.children[i][2] == 'KPersistentProcess' and env.children[i][0].alive:
                    viol.append(f'add_worker failed ({results[-1]}) and left the child of the half-registered process worker {i} running')
            if kind in ('add', 'attach') and results[-1] == 'Done' and pool._pool_closed:
                viol.append(f'{kind} succeeded on a closed pool: the worker can neither be run nor closed through the pool')
    keys = [vid_of(w) for w in pool._workers.values()]
    for wid_, w in pool._workers.items():
        if w.id != wid_:
            viol.append(f'registry key {wid_} does not match the id {w.id} of the worker stored under it')
    qkeys = [idmap.get(k, -1) for k in pool._queues.keys()]
    obs = [(i, ch.alive, list(lg)) for i, (ch, lg, k) in sorted(env.children.items()) if i in handed]
    closed = pool._pool_closed
    # nothing here is a real child: drop every reference so that the pipes are closed by the collector
    from pyworkers.worker import Worker
    Worker._active_children[:] = []
    for q in list(pool._queues.values()):
        try:
            q.close()
        except Exception:
            pass
    pool._workers.clear(); pool._queues.clear()
    global _plays
    _plays += 1
    if _plays % 20 == 0:
        import gc
        gc.collect()
    return results, keys, qkeys, closed, obs, viol


_plays = 0


def coq_pop(op):
    k = op[0]
    b = lambda x: 'true' if x else 'false'   # noqa: E731
    if k == 'add':
        return f'PAdd {op[1]} {op[2]} {op[3]} {b(op[4])}'
    if k == 'add_ctor_fails':
        return 'PAddCtorFails'
    if k == 'add_existing':
        return f'PAddExisting {op[1]}'
    if k == 'attach':
        return f'PAttach {op[1]} {op[2]} {op[3]}'
    if k == 'kill':
        return f'PKill {op[1]}'
    if k == 'restart':
        return 'PRestart TFin [' + '; '.join(f'({i}, {c})' for i, c in op[1]) + ']'
    if k == 'close':
        return f'PClose None {op[1]}'
    if k == 'terminate':
        return f'PTerminate None {op[1]}'
    return f'PExit {b(op[1])}'


def life_term(pforce, ops, out):
    results, keys, qkeys, closed, obs, _ = out
    nl = lambda xs: '[' + '; '.join(map(str, xs)) + ']'   # noqa: E731
    o = '[' + '; '.join(f'({i}, {"true" if a else "false"}, {life.blk(lg)})' for i, a, lg in obs) + ']'
    return (f'check_life TFin {pforce} [{"; ".join(coq_pop(x) for x in ops)}] {nl(results)} {nl(keys)} {nl(qkeys)} '
            f'{"true" if closed else "false"} {o}')


class Gen:
    """builds histories with fresh ids; tracks which ids are registered so that kills / add_existing refer to them"""

    def __init__(self):
        self.next = 1
        self.reg = []
        self.closed = False

    def fresh(self):
        self.next += 1
        return self.next - 1

    def expand(self, tok, rnd=None):
        t = tok[0]
        if t == 'add':
            i = self.fresh()
            if not self.closed and not tok[3]:
                self.reg.append(i)
            return ('add', i, tok[1], tok[2], tok[3])
        if t == 'attach':
            i = self.fresh()
            if not self.closed:
                self.reg.append(i)
            return ('attach', i, tok[1], tok[2])
        if t == 'add_existing':
            if not self.reg:
                return None
            i = self.reg[0] if tok[1] == 'first' else self.reg[-1]
            if not self.closed:
                self.reg.remove(i)
            return ('add_existing', i)
        if t == 'kill':
            if not self.reg:
                return None
            return ('kill', self.reg[0] if tok[1] == 'first' else self.reg[-1])
        if t == 'restart':
            news = [(self.fresh(), tok[1]) for _ in self.reg]
            # which ids survive is decided by the implementation; generation only needs *some* registered ids:
            # after a restart the generator forgets the old ids and learns the new ones from the run (see sync)
            return ('restart', news)
        if t in ('close', 'terminate', 'exit'):
            self.closed = True
            return tok
        return tok


ADD_TOKENS = [('add', 'KPersistentProcess', 'Coop', False), ('add', 'KPersistentProcess', 'Stopped', False),
              ('add', 'KPersistentProcess', 'Swallows', False), ('add', 'KPersistentThread', 'Coop', False),
              ('add', 'KPersistentThread', 'Swallows', False), ('add', 'KPersistentProcess', 'GilHeld', True),
              ('add_ctor_fails',), ('attach', 'KPersistentProcess', 'BlockedC')]
OTHER_TOKENS = [('add_existing', 'first'), ('kill', 'first'), ('kill', 'last'), ('restart', 'Coop'), ('restart', 'Stopped'),
                ('close', 'FDefault'), ('close', 'FOff'), ('terminate', 'FDefault'), ('terminate', 'FOff'), ('exit', False), ('exit', True)]
ALL_CLASSES = ['Coop', 'Swallows', 'BlockedC', 'GilHeld', 'Stopped']


def build(tokens, pforce):
    """expand tokens into ops, playing prefix by prefix so that registered ids are known; returns (ops, out)"""
    g = Gen()
    ops = []
    out = None
    for tok in tokens:
        op = g.expand(tok)
        if op is None:
            continue
        ops.append(op)
        if tok[0] in ('restart', 'add_existing') or True:
            out = play_life(pforce, ops)
            g.reg = list(out[1])
    if out is None:
        out = play_life(pforce, ops)
    return ops, out


def life_cases(tier, seed, res):
    rnd = random.Random(seed)
    seen = set()
    cases = []

    def consider(tokens, pforce, kind):
        ops, out = build(tokens, pforce)
        key = (pforce, tuple(map(repr, ops)))
        if key in seen:
            return
        seen.add(key)
        cases.append((pforce, ops, out, kind))

    # corpus: minimised histories of earlier findings
    cdir = os.path.join(core.VERIF, 'corpus', 'C09')
    if os.path.isdir(cdir):
        for fn in sorted(os.listdir(cdir)):
            if fn.endswith('.json'):
                c = json.load(open(os.path.join(cdir, fn)))
                if c.get('kind') == 'life':
                    consider([tuple(t) for t in c['tokens']], c['pforce'], 'corpus')
    L = 3 if tier == 'quick' else 4
    srnd = random.Random(seed + 17)
    for n in range(1, L + 1):
        for toks in itertools.product(ADD_TOKENS + OTHER_TOKENS, repeat=n):
            if toks[0] not in ADD_TOKENS:
                continue
            if n == 4 and srnd.random() > 0.15:
                continue        # histories of length 4: a seeded sample (every history up to length 3 is played)
            consider(list(toks), 'FDefault', 'exhaustive' if n < 4 else 'length-4-sample')
    for _ in range(2500 if tier == 'quick' else 10000):
        n = rnd.randint(3, 9)
        toks = []
        for j in range(n):
            if rnd.random() < 0.45:
                k = rnd.choice(['KPersistentProcess', 'KPersistentThread'])
                toks.append(rnd.choice([('add', k, rnd.choice(ALL_CLASSES), rnd.random() < 0.15),
                                        ('attach', k, rnd.choice(ALL_CLASSES)), ('add_ctor_fails',)]))
            else:
                t = rnd.choice(OTHER_TOKENS)
                if t[0] == 'restart':
                    t = ('restart', rnd.choice(ALL_CLASSES))
                toks.append(t)
        consider(toks, rnd.choice(['FDefault', 'FDefault', 'FOn', 'FOff']), 'random')
    return cases


# ---------------------------------------------------------------- several runs
def rounds_cases(tier, seed, res):
    from harness import pool_cases as pc
    from harness.sched_pool import run_rounds
    rnd = random.Random(seed + 1)
    out = []
    cdir = os.path.join(core.VERIF, 'corpus', 'C09')
    fixed = []
    if os.path.isdir(cdir):
        for fn in sorted(os.listdir(cdir)):
            if fn.endswith('.json'):
                c = json.load(open(os.path.join(cdir, fn)))
                if c.get('kind') == 'rounds':
                    fixed.append(c)
    for c in fixed:
        rounds = [([tuple(b) for b in bs], ins, [tuple(t) for t in sc]) for bs, ins, sc in c['rounds']]
        outs, d = run_rounds(pc.F, c['nw'], rounds, extra=c['extra'], retry=c['retry'])
        out.append((dict(nw=c['nw'], extra=c['extra'], retry=c['retry'], rounds=rounds), outs, d, 'corpus'))
    N = 700 if tier == 'quick' else 4000
    for _ in range(N):
        nw = rnd.randint(1, 3)
        extra = rnd.randint(0, 1)
        retry = rnd.random() < 0.8
        nr = rnd.randint(2, 4)
        rounds = []
        nxt = 1
        for r in range(nr):
            between = []
            if r > 0:
                for _ in range(rnd.randint(0, 2)):
                    x = rnd.random()
                    if x < 0.35:
                        between.append(('exit', rnd.randrange(nw)))
                    elif x < 0.75:
                        between.append(('restart_all',))
                    else:
                        between.append(('restart_fail', rnd.randrange(nw)))
            ni = rnd.randint(0, 4)
            inputs = list(range(nxt, nxt + ni))
            nxt += ni
            rounds.append((between, inputs, []))
        # grow the scripts round by round: extend the current round while it is blocked with an exhausted script
        cur = 0
        outs, d = run_rounds(pc.F, nw, rounds, extra=extra, retry=retry)
        deaths = 0
        for _ in range(80):
            if len(outs) <= cur:
                break
            if outs[cur][0] != 'blocked':
                cur += 1
                if cur >= len(rounds):
                    break
                continue
            pr = d['per_round'][cur]
            # enabled environment steps
            en = [('poll',)]
            for i in range(nw):
                if pr['alive'][i]:
                    en.append(('ans', i)); en.append(('ans', i))
                    if deaths < 3:
                        en.append(('fail', i)); en.append(('exit', i))
            st = rnd.choice(en)
            if st[0] in ('fail', 'exit'):
                deaths += 1
            b, ins, sc = rounds[cur]
            rounds[cur] = (b, ins, sc + [st])
            outs, d = run_rounds(pc.F, nw, rounds, extra=extra, retry=retry)
        out.append((dict(nw=nw, extra=extra, retry=retry, rounds=rounds), outs, d, 'random'))
    return out


def rounds_term(case, outs, d):
    from harness import pool_cases as pc
    rs = []
    for k, (between, inputs, script) in enumerate(case['rounds'][:len(outs)]):
        bs = []
        for b in between:
            if b[0] == 'exit':
                bs.append(f'BEnv (Exit {b[1]}%nat)')
            elif b[0] == 'restart_all':
                bs.append('BRestartAll')
            else:
                bs.append(f'BRestartFail {b[1]}%nat')
        ops, pi = [], 0
        ready = d['ready'][k] if k < len(d['ready']) else []
        for st in script:
            if st[0] == 'poll':
                order = ready[pi] if pi < len(ready) else []
                pi += 1
                ops.append('Poll ' + pc.coq_list(order, lambda i: f'{i}%nat'))
            else:
                ops.append({'ans': 'Ans', 'fail': 'Fail', 'exit': 'Exit'}[st[0]] + f' {st[1]}%nat')
        rs.append(f'({pc.coq_list(bs)}, {pc.coq_list(inputs)}, {pc.coq_list(ops)})')
    return (f'check_rounds {case["nw"]}%nat {pc.coq_bool(case["retry"])} {case["extra"]}%nat true '
            f'{pc.coq_list(d["picks"], lambda i: f"{i}%nat")} {pc.coq_list(rs)} {pc.coq_list([pc.coq_out(o) for o in outs])}')


def rounds_oracle(case, outs, d):
    from harness import pool_cases as pc
    for k, o in enumerate(outs):
        between, inputs, script = case['rounds'][k]
        exp = sorted(pc.F(x) for x in inputs)
        if o[0] == 'internal':
            return f'run {k + 1} ended with an internal error ({o[1]})'
        if o[0] == 'livelock':
            return f'run {k + 1} does not terminate'
        if o[0] == 'return' and case['retry'] and sorted(o[1]) != exp:
            return f'run {k + 1} returned {o[1]} for inputs {inputs}: not exactly one result per input of THIS run'
        if o[0] == 'return' and not case['retry'] and not pc.multiset_le(o[1], exp):
            return f'run {k + 1} returned {o[1]} which are not results of its own inputs {inputs}'
        if o[0] == 'poolerr' and not pc.multiset_le(o[1] or [], exp):
            return f'run {k + 1}: partial results {o[1]} do not stem from its own inputs {inputs}'
        pr = d['per_round'][k]
        if between and between[-1] == ('restart_all',) and d['between'][k][-1:] == ['ok'] and len(inputs) >= case['nw']:
            if o[0] in ('return', 'poolerr', 'blocked') and any(not g and not a for g, a in zip(pr['got'], pr['attempted'])):
                return f'run {k + 1} follows a complete restart_workers() but a restarted worker was never handed work: {pr["got"]}'
        if o[0] == 'none' and any(d['alive_at_start'][k]) and between and ('restart_all',) in between and d['between'][k] and d['between'][k][-1] == 'ok' and between[-1] == ('restart_all',):
            return f'run {k + 1} returned None right after a complete restart_workers()'
    if d.get('map_guard'):
        return 'pool left in the running state after run() ended'
    return None


# ---------------------------------------------------------------- real pools
def stuck_target(x):
    t0 = time.time()
    while time.time() - t0 < 120:
        try:
            time.sleep(0.01)
        except Exception:
            pass
    return x


def sq(x):
    return x * x


def slow_sq(x):
    time.sleep(0.05)
    return x * x


def poison_linger(x):
    """dies on input 13 - but its process lingers: a non-daemon thread keeps the interpreter from exiting"""
    if x == 13:
        import threading
        threading.Thread(target=time.sleep, args=(20,)).start()
        raise ValueError('poison')
    time.sleep(0.05)
    return x * x


def pid_gone(pid):
    try:
        st = open(f'/proc/{pid}/stat').read().split()[2]
        return st == 'Z'
    except OSError:
        return True


def real_pools(res, tier, seed):
    from pyworkers.pool import Pool
    from pyworkers.worker import WorkerType
    rnd = random.Random(seed)
    server = None
    kinds = [WorkerType.THREAD, WorkerType.PROCESS]
    host = {}
    from pyworkers.remote_server import spawn_server
    server = spawn_server(('127.0.0.1', 0))
    kinds.append(WorkerType.REMOTE)
    host = dict(host=server.addr)
    scenarios = [
        ('healthy-two-runs-exit', ['add', 'add', 'run', 'run', 'exit']),
        ('stuck-worker-exit', ['add', 'add_stuck', 'busy_stuck', 'exit']),
        ('stuck-worker-exception', ['add', 'add_stuck', 'busy_stuck', 'exit_exc']),
        ('killed-then-run-restart-run', ['add', 'add', 'kill0', 'run', 'restart', 'run', 'close']),
        ('restart-with-unread-and-dead', ['add', 'add', 'run', 'kill1', 'restart', 'run', 'terminate']),
        ('failed-hook', ['add', 'add_hookfail', 'run', 'exit']),
        ('died-in-run-but-process-lingers-exit', ['add_linger', 'add', 'run_poison', 'exit']),
        ('died-in-run-but-process-lingers-exception', ['add_linger', 'run_poison', 'exit_exc']),
    ]
    if tier == 'thorough':
        scenarios += [('many-restarts', ['add', 'add', 'add', 'run', 'restart', 'kill0', 'restart', 'run', 'kill2', 'run', 'exit_exc']),
                      ('stuck-close-force', ['add_stuck', 'add', 'busy_stuck', 'close'])]
    try:
        for name, steps in scenarios:
            for kind in kinds[1:]:
                if kind == WorkerType.REMOTE and tier != 'thorough' and 'lingers' not in name:
                    continue       # quick: the remote kind only where it differs most from the process kind
                hook = {'fail': False}

                class P(Pool):
                    def handle_new_worker(self, worker):
                        if hook['fail']:
                            raise HookError()
                kw = host if kind == WorkerType.REMOTE else {}
                pool = P(slow_sq, close_timeout=0.5)
                pids, extra_pids = [], []
                why = None
                t0 = time.time()
                try:
                    for st in steps:
                        if st == 'add':
                            w = pool.add_worker(kind, **kw); pids.append(w.pid)
                            w2 = pool.add_worker(WorkerType.THREAD)
                        elif st == 'add_linger':
                            w = pool.add_worker(kind, target=poison_linger, **kw); pids.append(w.pid)
                        elif st == 'run_poison':
                            try:
                                pool.run(iter([13, 2, 3]))
                            except Exception:
                                pass
                            time.sleep(0.3)
                        elif st == 'add_stuck':
                            w = pool.add_worker(kind, target=stuck_target, **kw); pids.append(w.pid)
                            stuck = w
                        elif st == 'busy_stuck':
                            stuck.enqueue(1)
                            time.sleep(0.3)
                        elif st == 'add_hookfail':
                            hook['fail'] = True
                            before = set(os.listdir('/proc'))
                            try:
                                pool.add_worker(kind, **kw)
                                why = 'add_worker with a failing hook did not raise'
                            except HookError:
                                pass
                            hook['fail'] = False
                        elif st.startswith('kill'):
                            ws = [w for w in pool.workers if not w.is_thread]
                            w = ws[int(st[4:]) % len(ws)]
                            os.kill(w.pid, signal.SIGKILL) if kind == WorkerType.PROCESS else w.terminate(timeout=0.5)
                            time.sleep(0.2)
                        elif st == 'run':
                            xs = [rnd.randint(1, 50) for _ in range(rnd.randint(1, 6))]
                            try:
                                r = pool.run(iter(xs))
                                if r is not None and sorted(r) != sorted(x * x for x in xs):
                                    why = f'run returned {r} for inputs {xs}'
                            except Exception as e:   # noqa
                                from pyworkers.pool import PoolError
                                if not isinstance(e, PoolError):
                                    why = f'run raised {type(e).__name__}: {e}'
                        elif st == 'restart':
                            old = [w.pid for w in pool.workers if not w.is_thread]
                            pool.restart_workers(timeout=1)
                            time.sleep(0.1)
                            for p_ in old:
                                if not pid_gone(p_):
                                    why = f'restart_workers returned but the old child {p_} is still running'
                            for w in pool.workers:
                                if not w.is_thread:
                                    pids.append(w.pid)
                                if not w.is_alive():
                                    why = 'a restarted worker is not alive'
                        elif st == 'exit':
                            pool.__exit__(None, None, None)
                        elif st == 'exit_exc':
                            try:
                                raise KeyError('body')
                            except KeyError:
                                pool.__exit__(*sys.exc_info())
                        elif st == 'close':
                            pool.close()
                        elif st == 'terminate':
                            pool.terminate()
                except Exception as e:   # noqa
                    why = why or f'history raised {type(e).__name__}: {e}'
                time.sleep(0.3)
                alive = [p_ for p_ in pids if not pid_gone(p_)]
                wall = time.time() - t0
                res.count(f'real:{kind.name}:{name}'); res.case(('real', kind.name, name), nontrivial=True,
                                                                 sample=dict(real_pool=kind.name, scenario=name, steps=steps, child_pids=len(pids), survivors=len(alive), wall_s=round(wall, 1)))
                if alive:
                    why = why or f'child processes {alive} of the pool are still running after it was closed'
                for p_ in alive:
                    try:
                        os.kill(p_, signal.SIGKILL)
                    except OSError:
                        pass
                if why:
                    res.violation(dict(real=kind.name, scenario=name, steps=steps), why)
    finally:
        if server is not None:
            try:
                server.terminate(force=True)
            except Exception:
                pass


def main(tier, seed, replay=None):
    logging.disable(logging.CRITICAL)
    core.quiet_stderr(PROP)
    res = core.Result(PROP, tier, seed)
    res.rule = ('(1) life cycle: every history of length <= 2 starting with a registration over 19 operation tokens (thorough: and a seeded 15 % sample of those one step longer) '
                '(add_worker with 6 kind/child-class/failing-hook variants, constructor failure, attach, add_worker handing back a registered worker, '
                'kill first/last, restart_workers, close / terminate with and without force, leaving the with-block normally / through an exception) plus '
                'seeded random histories of 3-9 operations over all five child classes and force settings, on the real Pool holding real persistent '
                'process/thread worker objects with scripted children; (2) seeded random histories of 2-4 consecutive Pool.run calls with deaths inside '
                'and kills / complete / partial restart_workers between them (scripted fake workers on real pipes); (3) real pools mixing thread and '
                'process workers (thorough: and remote workers) with healthy, stuck and killed children, checked in /proc. '
                'Non-trivial = history with a close/terminate/exit or a restart; distinct = distinct (force setting, operations).')
    res.assumptions = ['worker ids of live workers are unique (host, pid, tid)', 'reaction table of the child classes (Ctrl/Model.v), validated on real children by C04',
                       'ThreadWorker.terminate(force=True) (SIGTERM to the own process) is recorded, not executed',
                       'remote workers obey the same wait/terminate contract as process workers (exercised on real remote workers in thorough, not modelled)']
    res.trusted.append('hand-written models PoolLife/Model.v, Pool/Model.v [rounds]; scripted children (harness/life.py, harness/props/c04.py), scripted pool (harness/sched_pool.py)')
    core.prove(res, PROP, ['RemoteLive'], PROOFS, run_files=['theories/PoolLife/Run.v', 'theories/Pool/Run.v'])
    sys.path.insert(0, core.REPO)
    if replay:
        c = json.load(open(replay)).get('first', {}).get('case')
        if c.get('kind') == 'life':
            out = play_life(c['pforce'], [tuple(tuple(y) if isinstance(y, list) and y and isinstance(y[0], list) else y for y in x) for x in c['ops']])
            print('replay:', out)
        else:
            print('replay case:', c)
        return 0
    # (1)
    terms, keep = [], []
    for pforce, ops, out, kind in life_cases(tier, seed, res):
        res.count('life:' + kind)
        for o in ops:
            res.count('op:' + o[0])
        nontriv = any(o[0] in ('close', 'terminate', 'exit', 'restart') for o in ops)
        res.case(('life', pforce, tuple(map(repr, ops))), nontrivial=nontriv,
                 sample=dict(pool_force=pforce, operations=[' '.join(map(str, o)) for o in ops], results=out[0], registry=out[1], closed=out[3],
                             children=[dict(id=i, alive=a, blocking_calls=len(lg)) for i, a, lg in out[4]]))
        for v in out[5][:1]:
            res.violation(dict(kind='life', pforce=pforce, ops=[list(o) for o in ops]), v, observed=dict(results=out[0], registry=out[1]))
        terms.append(life_term(pforce, ops, out)); keep.append((pforce, ops, out))
    bad, err = core.coq_eval_cases(PROP, HEADER, terms, per_file=300)
    res.traces_validated += len(terms) - len(bad)
    if err:
        res.tie('correspondence:coq-eval', err)
    for i in bad[:8]:
        pforce, ops, out = keep[i]
        res.tie('correspondence:pool-life-cycle', dict(pforce=pforce, ops=[list(o) for o in ops], implementation=dict(results=out[0], registry=out[1], queues=out[2], closed=out[3], children=out[4]), term=terms[i][:1500]))
    # (2)
    terms, keep = [], []
    for case, outs, d, kind in rounds_cases(tier, seed, res):
        res.count('rounds:' + kind); res.count(f'runs:{len(outs)}')
        for o in outs:
            res.count('run-outcome:' + o[0])
        nontriv = any(b for b, _, _ in case['rounds']) or any(t[0] in ('fail', 'exit') for _, _, sc in case['rounds'] for t in sc)
        res.case(('rounds', case['nw'], case['extra'], case['retry'], repr(case['rounds'])), nontrivial=nontriv,
                 sample=dict(workers=case['nw'], extra=case['extra'], retry=case['retry'],
                             rounds=[dict(between=[' '.join(map(str, b)) for b in bs], inputs=ins, script=[' '.join(map(str, t)) for t in sc]) for bs, ins, sc in case['rounds']],
                             outcomes=[list(o) for o in outs]))
        why = rounds_oracle(case, outs, d)
        if why:
            res.violation(dict(kind='rounds', nw=case['nw'], extra=case['extra'], retry=case['retry'],
                               rounds=[[list(map(list, bs)), ins, list(map(list, sc))] for bs, ins, sc in case['rounds']]), why, observed=[list(o) for o in outs])
        terms.append(rounds_term(case, outs, d)); keep.append((case, outs))
    bad, err = core.coq_eval_cases(PROP + 'r', HEADER_R, terms, per_file=300)
    res.traces_validated += len(terms) - len(bad)
    if err:
        res.tie('correspondence:coq-eval-rounds', err)
    for i in bad[:8]:
        case, outs = keep[i]
        res.tie('correspondence:consecutive-runs', dict(case=repr(case)[:1500], implementation=[list(o) for o in outs], term=terms[i][:1500]))
    # (3)
    real_pools(res, tier, seed)
    return res.finish()
