"""C06: a persistent result stream is a correct prefix and always ends.
T-A: Gen/Persist.v (loop body, _send_result, _cleanup) regenerated and tied to the proved
programs; T-B: a graceful terminate (WorkerTerminatedError) landed on EVERY line event of the
real PersistentThreadWorker's do_work / _send_result / _cleanup / _run (in-process), SIGKILL and
terminate at sampled points of the PersistentProcessWorker (spawned), the real terminate() on
busy / idle workers of all kinds, and - for the Pool's case - a thread worker writing to an mp
pipe watched with multiprocessing.connection.wait.  Oracle: the specification of C06."""
import concurrent.futures
import logging
import multiprocessing as mp
import multiprocessing.connection
import os
import queue
import random
import sys
import threading
import time

from harness import core
from harness.props import c01, c05

PROP = 'C06'
UNITS = ['Persist', 'Forwarder']
PROOFS = ['theories/Persist/Proofs.v', 'theories/Persist/ForwarderProofs.v']
HEADER_F = 'From PW Require Import Persist.Forwarder Persist.ForwarderRun.\nOpen Scope Z_scope.\n'


def sq(x):
    return x * x + 1


def slow_sq(x):
    time.sleep(0.15)
    return x * x + 1


def drain(w, limit=20):
    """everything obtainable through the public API after death; must not block"""
    out = []
    done = threading.Event()
    res = {}

    def run():
        try:
            res['vals'] = list(w.results_iter(maxitems=limit))
            try:
                w.next_result()
                res['after'] = 'value'
            except queue.Empty:
                res['after'] = 'Empty'
        except BaseException as e:   # noqa
            res['exc'] = f'{type(e).__name__}: {e}'
        done.set()
    t = threading.Thread(target=run, daemon=True)
    t.start()
    if not done.wait(5):
        return None, 'results_iter()/next_result() blocks on a dead worker'
    if 'exc' in res:
        return None, 'reading the stream raised ' + res['exc']
    return res['vals'], res['after']


def check_prefix(vals, after, expected, what):
    if vals is None:
        return f'{what}: {after}'
    if vals != expected[:len(vals)]:
        return f'{what}: delivered {vals} is not a prefix of the expected results {expected}'
    if after != 'Empty':
        return f'{what}: next_result() after the end of the stream did not raise queue.Empty'
    return None


class Injector:
    def __init__(self, plan):
        from pyworkers.thread import ThreadWorker
        from pyworkers.persistent_thread import PersistentThreadWorker as P
        self.codes = {ThreadWorker._run.__code__, P.do_work.__code__, P._send_result.__code__, P._cleanup.__code__}
        self.plan, self.n, self.events = dict(plan), 0, []

    def glob(self, frame, event, arg):
        return self.local if frame.f_code in self.codes else None

    def local(self, frame, event, arg):
        if event != 'line':
            return self.local
        n = self.n
        self.n += 1
        self.events.append((frame.f_code.co_name, frame.f_lineno))
        if self.plan.get(n) == 'AWTE':
            from pyworkers.worker import WorkerTerminatedError
            raise WorkerTerminatedError()
        return self.local


def stuck_sleep(x):
    time.sleep(60)
    return x


def thread_case(inputs, plan, pipe=None):
    """a persistent thread worker fed `inputs`, then released; the exception lands per `plan`."""
    from pyworkers.persistent_thread import PersistentThreadWorker
    inj = Injector(plan)
    with c01.TRACE_LOCK:
        threading.settrace(inj.glob)
        try:
            w = PersistentThreadWorker(sq, results_pipe=pipe) if pipe is not None else PersistentThreadWorker(sq)
        finally:
            threading.settrace(None)
    for x in inputs:
        try:
            w.enqueue(x)
        except Exception:
            break
    w.close()
    dead = w.wait(5)
    if plan and dead:
        # an asynchronous exception reaches a thread child only through terminate(): the caller that raised it is still in
        # that call, which goes on (join, bookkeeping) after the child is gone - stand in for the rest of it
        w.terminate(timeout=1)
    return w, dead, inj.events


class ScriptedSock:
    """the data connection as the frontend thread sees it: the given bytes, then the peer is gone"""

    def __init__(self, data):
        self.data = data

    def recv(self, n):
        out, self.data = self.data[:n], self.data[n:]
        return out

    def close(self):
        pass


def forwarder_cases(res, tier, seed):
    """the REAL PersistentRemoteWorker._fetch_results fed every prefix of what a remote child can send; compared with
    Persist/Forwarder.v and judged by the property (prefix of the results, stream ends)"""
    import struct
    from pyworkers import remote_pickle
    from pyworkers.persistent_remote import PersistentRemoteWorker
    from pyworkers.utils import Pipe
    terms, keep = [], []
    w0 = PersistentRemoteWorker(sq, run=False)
    wid = w0.id

    def frame(obj):
        d = remote_pickle.dumps(obj)
        return struct.pack('!I', len(d)) + d

    nmax = 3 if tier == 'quick' else 4
    for n in range(0, nmax + 1):
        vals = [10 * (i + 1) for i in range(n)]
        for marker in (None, False, True):
            for final in (False, True):
                msgs = [('FRes', i + 1, v) for i, v in enumerate(vals)]
                if marker is not None:
                    msgs.append(('FEnd', n + (1 if marker else 0)))
                if final:
                    msgs.append(('FFinal',))
                for cut in range(0, len(msgs) + 1):
                    for garbage in ((False, True) if cut < len(msgs) else (False,)):
                        stream = msgs[:cut]
                        data = b''
                        for m in stream:
                            if m[0] == 'FRes':
                                data += frame((m[1], True, m[2], wid))
                            elif m[0] == 'FEnd':
                                data += frame((m[1], False, None, wid))
                            else:
                                data += frame((False, None)) + frame('state')
                        if garbage:
                            data += frame((1, True, 0, wid))[:7]      # the connection dies in the middle of the next message
                        w = PersistentRemoteWorker(sq, run=False, results_pipe=Pipe())
                        w._socket = ScriptedSock(data)
                        crashed = None
                        try:
                            w._fetch_results()
                        except AssertionError:
                            crashed = 'AssertionError'
                        except BaseException as e:   # noqa
                            crashed = type(e).__name__
                        ep = w._results_pipe.parent_end
                        out, closed = [], False
                        while True:
                            try:
                                if not ep.poll(0):
                                    break
                                m = ep.recv()
                            except (EOFError, OSError):
                                closed = True
                                break
                            out.append(('ORes', m[2]) if m[1] else ('OEnd',))
                        got = [m[1] for m in out if m[0] == 'ORes']
                        ended = closed or any(m[0] == 'OEnd' for m in out)
                        case = dict(kind='remote-forwarder', results=vals, child_marker=marker, final=final, arrived=cut, cut_inside_next=garbage)
                        res.count('forwarder'); res.case(('fwd', n, marker, final, cut, garbage), nontrivial=cut < len(msgs) or marker is True,
                                                         sample=dict(case, on_pipe=[list(m) for m in out], pipe_closed=closed, frontend=crashed or 'ended') if cut % 3 == 0 else None)
                        if got != vals[:len(got)] or any(m[0] == 'ORes' for m in out[len(got):]):
                            res.violation(dict(case, features=[]), f'the consumer of the results pipe sees {got}, not a prefix of {vals}')
                        elif not ended:
                            res.violation(dict(case, features=[]), f'neither an end marker nor EOF reaches the consumer of the results pipe (frontend thread: {crashed or "ended"})')
                        elif not any(m[0] == 'OEnd' for m in out):
                            res.violation(dict(case, features=[]), 'no end marker reaches the consumer of the results pipe, only its closing - which a consumer blocked on the default '
                                          'in-memory results queue cannot observe: next_result() would wait for ever')
                        for end in ('parent_end', 'child_end'):
                            try:
                                getattr(w._results_pipe, end).close()
                            except Exception:
                                pass
                        cm = '; '.join({'FRes': lambda m: f'FRes {m[1]} {m[2]}', 'FEnd': lambda m: f'FEnd {m[1]}', 'FFinal': lambda m: 'FFinal'}[m[0]](m) for m in stream)
                        om = '; '.join(f'ORes {m[1]}' if m[0] == 'ORes' else 'OEnd' for m in out)
                        terms.append(f'check_forward [{cm}] [{om}] {"true" if closed else "false"}')
                        keep.append((case, out, closed))
    from pyworkers.worker import Worker
    Worker._active_children[:] = []
    bad, err = core.coq_eval_cases(PROP + 'f', HEADER_F, terms, per_file=400)
    res.traces_validated += len(terms) - len(bad)
    if err:
        res.tie('correspondence:coq-eval', err)
    for i in bad[:6]:
        res.tie('correspondence:remote-forwarder', dict(case=keep[i][0], on_pipe=[list(m) for m in keep[i][1]], closed=keep[i][2], term=terms[i]))


def main(tier, seed, replay=None):
    logging.disable(logging.CRITICAL)
    core.quiet_stderr(PROP)
    res = core.Result(PROP, tier, seed)
    res.rule = ('persistent thread worker with 0-3 inputs: WorkerTerminatedError landed on every line event of _run / do_work / _send_result / _cleanup after '
                'start-up (in-process tracer), stream read back through results_iter()/next_result() under a 5 s no-block bound; the same sweep with '
                'the worker writing to an mp pipe watched by multiprocessing.connection.wait (what the Pool does); persistent process workers: '
                'SIGKILL / terminate at sampled line events (spawned tracer) and the real terminate() / SIGKILL on busy and idle workers of the '
                'thread, process and remote kinds. Non-trivial = a landing point or a kill; distinct = distinct (kind, inputs, landing point).')
    res.assumptions = ['EOF is delivered on a pipe once its last writer is gone (kernel)', 'line-level landing points; the positions inside one statement exist in the theorem only']
    res.trusted.append('hand-written interpreter Persist/Model.v (crash semantics); harness/props/c06.py')
    core.prove(res, PROP, UNITS, PROOFS, run_files=['theories/Persist/ForwarderRun.v'])
    sys.path.insert(0, core.REPO)
    from pyworkers.utils import Pipe
    known = lambda kf, case: bool(set(kf.get('domain_any_of', [])) & set(case.get('features', [])))   # noqa: E731
    sk = c01.line_labels()
    sd_lines = {ln for ln, lab in sk['thread_run'][1].items() if lab == 'StartupDone'}
    # ---- thread kind: every landing point
    for n_in in ((0, 1, 2, 3) if tier == 'thorough' else (0, 2, 3)):
        inputs = list(range(1, n_in + 1))
        expected = [sq(x) for x in inputs]
        w0, dead0, ev0 = thread_case(inputs, [])
        start = next((i + 1 for i, (fn, ln) in enumerate(ev0) if fn == '_run' and ln in sd_lines), 0)
        vals, after = drain(w0)
        why = check_prefix(vals, after, expected, 'no fault') or (None if vals == expected else f'without any fault only {vals} of {expected} were delivered')
        res.case(('thread', n_in, None), nontrivial=False)
        if why:
            res.violation(dict(kind='thread', inputs=inputs, plan=[], features=[]), why, finding_matcher=known)
        for p in range(start, len(ev0)):
            for use_mp in (False, True):
                pipe = Pipe() if use_mp else None
                w, dead, ev = thread_case(inputs, [(p, 'AWTE')], pipe)
                res.count('thread:' + ('mp-pipe' if use_mp else 'local-pipe')); res.count(f'inputs:{n_in}')
                res.case(('thread', n_in, p, use_mp), nontrivial=True,
                         sample=dict(kind='thread', inputs=inputs, landing=(p,) + ev0[p], mp_pipe=use_mp) if p % 7 == 0 else None)
                where = ev0[p]
                if not dead:
                    res.violation(dict(kind='thread', inputs=inputs, plan=[[p, 'AWTE']], at=list(where), features=[]), 'worker not dead after close()/wait()', finding_matcher=known)
                    continue
                if not use_mp:
                    vals, after = drain(w)
                    why = check_prefix(vals, after, expected, f'landing on {where}')
                    if why:
                        res.violation(dict(kind='thread', inputs=inputs, plan=[[p, 'AWTE']], at=list(where), features=[]), why, finding_matcher=known)
                else:
                    # the Pool's view: wait on the raw endpoint until an end marker or EOF shows up
                    got, ended = [], False
                    ep = pipe.parent_end
                    t0 = time.time()
                    while time.time() - t0 < 1.5 and not ended:
                        if mp.connection.wait([ep], 0.2):
                            try:
                                m = ep.recv()
                            except EOFError:
                                ended = True
                                break
                            if not m[1]:
                                ended = True
                            else:
                                got.append(m[2])
                    feats = ['thread-worker-on-mp-pipe-landing-in-cleanup-or-finally'] if where[0] in ('_cleanup', '_run') else []
                    if got != expected[:len(got)]:
                        res.violation(dict(kind='thread/mp-pipe', inputs=inputs, plan=[[p, 'AWTE']], at=list(where), features=feats),
                                      f'results on the pipe {got} are not a prefix of {expected}', finding_matcher=known)
                    elif not ended:
                        res.violation(dict(kind='thread/mp-pipe', inputs=inputs, plan=[[p, 'AWTE']], at=list(where), features=feats),
                                      f'landing on {where}: neither an end marker nor EOF reaches a consumer waiting on the result pipe', finding_matcher=known)
                    try:
                        pipe.parent_end.close()
                    except Exception:
                        pass
    # ---- real terminate / kill on busy and idle workers of every kind
    from pyworkers.persistent_thread import PersistentThreadWorker
    from pyworkers.persistent_process import PersistentProcessWorker
    from pyworkers.persistent_remote import PersistentRemoteWorker
    from pyworkers.remote_server import spawn_server
    import signal
    server = spawn_server(('127.0.0.1', 0))
    try:
        mk = {'thread': lambda: PersistentThreadWorker(slow_sq), 'process': lambda: PersistentProcessWorker(slow_sq),
              'remote': lambda: PersistentRemoteWorker(slow_sq, host=server.addr)}
        for kind in ('thread', 'process', 'remote'):
            for how in ('terminate-busy', 'terminate-idle', 'kill-busy'):
                if how == 'kill-busy' and kind == 'thread':
                    continue
                w = mk[kind]()
                inputs = [1, 2, 3, 4]
                for x in inputs:
                    w.enqueue(x)
                if how == 'terminate-idle':
                    first = [w.next_result(timeout=20) for _ in inputs]
                    w.terminate(timeout=10)
                    vals, after = drain(w)
                    vals = first + (vals or []) if vals is not None else None
                else:
                    first = [w.next_result(timeout=20)]
                    if how == 'kill-busy':
                        os.kill(w.pid, signal.SIGKILL)
                        w.wait(10) if kind == 'process' else w.terminate(timeout=10)
                    else:
                        w.terminate(timeout=10)
                    vals, after = drain(w)
                    vals = first + vals if vals is not None else None
                res.count('real:' + kind + ':' + how); res.case(('real', kind, how), nontrivial=True)
                why = check_prefix(vals, after, [slow_sq.__wrapped__(x) if hasattr(slow_sq, '__wrapped__') else x * x + 1 for x in inputs], f'{kind} {how}')
                if not w.is_alive() and why is None and how != 'terminate-idle' and vals is not None and len(vals) == len(inputs):
                    pass
                if w.is_alive():
                    why = why or f'{kind} worker still alive after {how}'
                if why:
                    res.violation(dict(kind=kind, how=how, features=[]), why, finding_matcher=known)
        # a consumer that is ALREADY waiting for the next result when the worker is ended by force (the target cannot be
        # interrupted): it must be released - queue.Empty - not left waiting for ever
        import threading
        mkb = {'thread': None, 'process': lambda: PersistentProcessWorker(stuck_sleep), 'remote': lambda: PersistentRemoteWorker(stuck_sleep, host=server.addr)}
        for kind in ('process', 'remote'):
            for how in ('terminate-force', 'sigkill'):
                w = mkb[kind]()
                w.enqueue(1)
                time.sleep(0.5)
                out = {}

                def consume():
                    try:
                        out['r'] = ('value', w.next_result())
                    except queue.Empty:
                        out['r'] = 'Empty'
                    except BaseException as e:   # noqa
                        out['r'] = type(e).__name__
                t = threading.Thread(target=consume, daemon=True)
                t.start(); time.sleep(0.3)
                if how == 'sigkill':
                    os.kill(w.pid, signal.SIGKILL)
                else:
                    w.terminate(timeout=1, force=True)
                t.join(10)
                res.count('real:' + kind + ':blocked-consumer-' + how); res.case(('real', kind, 'blocked-consumer', how), nontrivial=True)
                if out.get('r') != 'Empty':
                    res.violation(dict(kind=kind, how='consumer blocked in next_result() while the worker is ended: ' + how, features=[]),
                                  f'the consumer got {out.get("r", "nothing - it is still blocked 10 s after the worker died")} instead of queue.Empty', finding_matcher=known)
                try:
                    w.terminate(timeout=1, force=True)
                except Exception:
                    pass
    finally:
        server.terminate(force=True)
    forwarder_cases(res, tier, seed)
    return res.finish()
