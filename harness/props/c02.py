"""C02: every worker kind computes what a direct call would.
T-A: Gen/Create.v regenerated from Worker.create; the rest is differential execution: the same
target / arguments in a thread, a process and a remote worker, via constructor and via the factory,
compared with the direct call and with each other (values, exceptions with arguments, sizes across
the pipe buffer, not-run workers)."""
import logging
import os
import random
import sys
import threading
import time

from harness import core

PROP = 'C02'
UNITS = ['Create', 'Transport', 'Framing']      # Framing: the remote kind's results travel through send_msg/recv_msg/_recv_exact
PROOFS = ['theories/Equiv/Pipe.v', 'theories/Equiv/TransportProofs.v']
HEADER_T = 'From PW Require Import Equiv.Transport Equiv.TransportRun.\n'


class Custom:
    def __init__(self, a, b=None):
        self.a, self.b = a, b

    def __eq__(self, o):
        return type(o) is Custom and (self.a, self.b) == (o.a, o.b)

    def __repr__(self):
        return f'Custom({self.a!r}, {self.b!r})'


class Err0(Exception):
    pass


class Err2(Exception):
    def __init__(self, a=None, b=None):
        super().__init__(a, b)


def identity(x):
    return x


def make(kind, n):
    if kind == 'bytes':
        return b'\x07' * n
    if kind == 'list':
        return list(range(n))
    return 'x' * n


def sized(kind, n):
    return make(kind, n)


def combine(a, b=2, *rest, k=None, **kw):
    return (a, b, rest, k, sorted(kw.items()))


def raiser(which, *args):
    raise {'Err0': Err0, 'Err2': Err2, 'ValueError': ValueError, 'KeyError': KeyError, 'ZeroDivisionError': ZeroDivisionError}[which](*args)


def lingering(x, secs=1.2):
    """returns at once, but the child process stays around for a while (a non-daemon thread is still running)"""
    threading.Thread(target=time.sleep, args=(secs,)).start()
    return x


def transport_histories(res, tier):
    """the REAL ProcessWorker.wait / result / has_error (child scripted through _start, data pipe real) on every history
    of {child sends, child exits, parent waits, parent reads the accessors}; compared with Equiv/Transport.v"""
    import itertools
    from harness.props.c04 import make_worker
    from pyworkers.utils import Pipe
    EV = ['CSend', 'CExit', 'PWait', 'PGet']
    L = 5 if tier == 'quick' else 6
    terms, keep = [], []
    for n in range(1, L + 1):
        for es in itertools.product(EV, repeat=n):
            if es.count('CSend') > 1 or es.count('CExit') > 1:
                continue
            w, child, log = make_worker('KProcess', 'Coop', True)
            w._comms = Pipe()
            exited = False
            obs, viol = [], None
            sent = None
            for e in es:
                if e == 'CSend':
                    if not exited:
                        w._comms.child_end.put(((True, 41), 'state'))
                        sent = 41
                elif e == 'CExit':
                    child.alive = False
                    exited = True
                    w._comms.child_end.close()
                elif e == 'PWait':
                    w.wait(timeout=0.01)
                else:
                    he, r, er = w.has_error, w.result, w.error
                    if he is None:
                        obs.append((0, 0))
                    elif he is False:
                        obs.append((1, r))
                    else:
                        obs.append((2, 0))
                    if exited:
                        want = (1, 41) if sent else (2, 0)
                        if obs[-1] != want and viol is None:
                            viol = f'after the child {"sent its result and " if sent else ""}exited the accessors show {obs[-1]} (1 = value, 2 = (False, None)), expected {want}'
            for end in ('parent_end', 'child_end'):
                try:
                    getattr(w._comms, end).close()
                except Exception:
                    pass
            res.count('transport-history'); res.case(('transport', es), nontrivial='CSend' in es and 'PWait' in es,
                                                   sample=dict(history=list(es), accessors=obs))
            if viol:
                res.violation(dict(transport_history=list(es)), viol, observed=obs)
            ev = {'CSend': 'CSend 41', 'CExit': 'CExit', 'PWait': 'PWait', 'PGet': 'PGet'}
            terms.append(f'check_transport [{"; ".join(ev[e] for e in es)}] [{"; ".join(f"({a}, {b})" for a, b in obs)}]')
            keep.append((es, obs))
    from pyworkers.worker import Worker
    Worker._active_children[:] = []
    bad, err = core.coq_eval_cases(PROP + 't', HEADER_T, terms, per_file=400)
    res.traces_validated += len(terms) - len(bad)
    if err:
        res.tie('correspondence:coq-eval', err)
    for i in bad[:6]:
        res.tie('correspondence:reception', dict(history=list(keep[i][0]), implementation=keep[i][1], term=terms[i]))


PROTOCOLS = ['wait', 'timed-wait-then-wait', 'poll-is_alive', 'short-waits']


def observe_protocol(w, protocol, timeout=20):
    """different ways a caller may wait for the same worker - the outcome must not depend on them"""
    t0 = time.time()
    if protocol == 'timed-wait-then-wait':
        w.wait(0.3)
        w.has_error       # peeking while the worker may still be alive must not disturb anything
    elif protocol == 'poll-is_alive':
        while w.is_alive() and time.time() - t0 < timeout:
            time.sleep(0.02)
    elif protocol == 'short-waits':
        while not w.wait(0.05) and time.time() - t0 < timeout:
            pass
    return observe(w, timeout)


def direct(f, args, kwargs):
    try:
        return ('ok', f(*args, **kwargs))
    except Exception as e:
        return ('err', type(e), e.args)


def observe(w, timeout=20):
    t0 = time.time()
    dead = w.wait(timeout)
    dur = time.time() - t0
    if not dead:
        try:
            w.terminate(timeout=2)
        except Exception:
            pass
        return ('hang', dur)
    he, r, e = w.has_error, w.result, w.error
    if he is False:
        return ('ok', r) if e is None else ('bad', 'has_error False with an error')
    if he is True and r is None and e is not None:
        return ('err', type(e), e.args)
    return ('bad', f'has_error={he} result={r!r} error={e!r}')


def summarize(o):
    if o[0] == 'ok':
        r = o[1]
        return ('ok', (type(r).__name__, len(r)) if isinstance(r, (bytes, str, list)) and len(r) > 64 else repr(r))
    if o[0] == 'err':
        return ('err', o[1].__name__, repr(o[2]))
    return o


def late_block(n, delay):
    """a large result that arrives a little later"""
    time.sleep(delay)
    return b'z' * n


def tagged_block(i, n, at=None):
    """a large result that says whose it is, delivered at a given instant"""
    if at is not None:
        while time.time() < at:
            time.sleep(0.005)
    return bytes([65 + i]) * n


def main_script_cases(res, tier):
    """values and wrapped callables that live in the MAIN SCRIPT, against a stand-alone server (harness/c02_main_driver.py)"""
    import json
    import subprocess
    env = dict(os.environ)
    env['PYTHONPATH'] = core.REPO
    env['PYTHONHASHSEED'] = '0'
    try:
        p = subprocess.run([core.PY, os.path.join(core.VERIF, 'harness', 'c02_main_driver.py')], env=env, cwd=core.VERIF,
                           stdout=subprocess.PIPE, stderr=subprocess.DEVNULL, text=True, timeout=300)
        line = [l for l in p.stdout.split('\n') if l.startswith('C02MAIN ')]
        out = json.loads(line[0][8:]) if line else dict(error=f'no result (exit {p.returncode})')
    except subprocess.TimeoutExpired:
        out = dict(error='driver did not finish within 300 s')
    if out.get('error'):
        res.tie('harness:main-script-driver', out['error'])
        return
    for c in out['cases']:
        res.count('main-script'); res.case(('main-script', c['call'], c['kind']), nontrivial=True,
                                           sample=dict(call=c['call'], kind=c['kind'], outcome=c['got'], direct=c['want']))
        if c['got'] != c['want']:
            res.violation(dict(main_script_call=c['call'], kind=c['kind']),
                          f'{c["kind"]} worker gives {c["got"]} for {c["call"]} (objects defined in the main script), the direct call gives {c["want"]}', observed=c['got'])


def main(tier, seed, replay=None):
    logging.disable(logging.CRITICAL)
    core.quiet_stderr(PROP)
    res = core.Result(PROP, tier, seed)
    res.rule = ('targets x argument shapes (positional, keyword, defaults, *rest, **kw) x return values (None, 0, "", [], nested containers, a custom class, '
                'bytes/str/list of sizes 0 .. 8 MB crossing 64 KiB and the socketpair limit) x exception classes with 0-2 arguments x {thread, process, '
                'remote} x {constructor, Worker.create} x {run None/True/False, target None}: every outcome compared with the direct call and the kinds '
                'with each other; a worker that has not ended 20 s after wait() counts as a deadlock. Non-trivial = non-None result or an exception.')
    res.assumptions = ['CPython pickle reproduces values and exceptions (type and args); sizes of OS pipe buffers are whatever this kernel provides',
                       'the pipe model of Equiv/Pipe.v: a writer blocks when the buffer is full, a reader takes what is there']
    res.trusted.append('hand-written pipe model Equiv/Pipe.v; harness/props/c02.py')
    core.prove(res, PROP, UNITS, PROOFS, run_files=['theories/Equiv/TransportRun.v'])
    sys.path.insert(0, core.REPO)
    from pyworkers.worker import Worker, WorkerType
    from pyworkers.thread import ThreadWorker
    from pyworkers.process import ProcessWorker
    from pyworkers.remote import RemoteWorker
    from pyworkers.persistent import PersistentWorker
    from pyworkers.remote_server import spawn_server
    server = spawn_server(('127.0.0.1', 0))
    host = server.addr
    kinds = {'thread': (ThreadWorker, WorkerType.THREAD, {}), 'process': (ProcessWorker, WorkerType.PROCESS, {}),
             'remote': (RemoteWorker, WorkerType.REMOTE, dict(host=host))}
    rnd = random.Random(seed)
    cases = []
    values = [None, 0, False, '', [], {}, (), 1.5, 'text', [1, [2, {'a': (3, None)}]], {'k': [1, 2], 'z': None}, Custom(1, [2, 3]), b'']
    for v in values:
        cases.append((identity, (v,), {}))
    sizes = [0, 1, 65535, 65536, 65537, 200_000, 1_000_000, 5_000_000] + ([8_000_000] if tier == 'thorough' else [])
    for n in sizes:
        cases.append((sized, ('bytes', n), {}))
    for n in ([70_000, 1_000_000] if tier == 'quick' else [65536, 70_000, 300_000, 1_000_000, 3_000_000]):
        cases.append((sized, ('list', n // 8), {})); cases.append((sized, ('str', n), {}))
    cases += [(combine, (1,), {}), (combine, (1, 3), {}), (combine, (1, 3, 4, 5), {}), (combine, (1,), {'k': 9}), (combine, (1,), {'z': 0, 'b': 7})]
    for which, args in (('Err0', ()), ('Err0', ('msg',)), ('Err2', (1, 'two')), ('ValueError', ('v', 2)), ('KeyError', ('k',)), ('ZeroDivisionError', ())):
        cases.append((raiser, (which,) + args, {}))
    try:
        for f, args, kwargs in cases:
            want = direct(f, args, kwargs)
            outs = {}
            for kname, (cls, wt, extra) in kinds.items():
                for how in ('ctor', 'factory'):
                    if how == 'factory' and tier == 'quick' and kname != 'thread' and f is not identity:
                        continue
                    try:
                        if how == 'ctor':
                            w = cls(target=f, args=args, kwargs=kwargs, **extra)
                        else:
                            w = Worker.create(wt, target=f, args=args, kwargs=kwargs, **extra)
                    except BaseException as e:   # noqa
                        outs[(kname, how)] = ('ctor-raised', type(e).__name__)
                        continue
                    outs[(kname, how)] = observe(w)
                    if type(w) is not cls:
                        outs[(kname, how)] = ('bad', f'factory built {type(w).__name__}')
            label = (f.__name__, repr(args)[:40], repr(kwargs)[:30])
            res.count('target:' + f.__name__)
            res.case(label, nontrivial=want[0] == 'err' or want[1] is not None,
                     sample=dict(call=f'{f.__name__}{repr(args)[:40]}', direct=summarize(want), kinds={f'{k[0]}/{k[1]}': summarize(o) for k, o in outs.items()}))
            for k, o in outs.items():
                ok = (o[0] == want[0] == 'ok' and o[1] == want[1]) or (o[0] == want[0] == 'err' and o[1] is want[1] and o[2] == want[2])
                if not ok:
                    res.violation(dict(call=f.__name__, args=repr(args)[:80], kwargs=repr(kwargs)[:60], kind=k[0], how=k[1]),
                                  f'{k[0]} worker ({k[1]}) gives {summarize(o)}, the direct call gives {summarize(want)}', observed=summarize(o))
        # the same call observed through different waiting protocols, with a child which lingers after returning
        for f, args in ((identity, ('v',)), (lingering, ([1, 2, 3],)), (sized, ('bytes', 300_000)), (raiser, ('Err2', 1, 'two'))):
            want = direct(f, args, {})
            if f is lingering:
                time.sleep(1.3)
            for kname, (cls, wt, extra) in kinds.items():
                for proto in PROTOCOLS:
                    if tier == 'quick' and kname == 'remote' and proto in ('short-waits',):
                        continue
                    w = cls(target=f, args=args, **extra)
                    o = observe_protocol(w, proto)
                    res.count('protocol:' + proto); res.case(('protocol', f.__name__, kname, proto), nontrivial=True,
                                                             sample=dict(call=f.__name__, kind=kname, protocol=proto, outcome=summarize(o)))
                    ok = (o[0] == want[0] == 'ok' and o[1] == want[1]) or (o[0] == want[0] == 'err' and o[1] is want[1] and o[2] == want[2])
                    if not ok:
                        res.violation(dict(call=f.__name__, args=repr(args)[:60], kind=kname, protocol=proto),
                                      f'{kname} worker observed through `{proto}` gives {summarize(o)}, the direct call gives {summarize(want)}', observed=summarize(o))
        # workers that are not run
        for kname, (cls, wt, extra) in kinds.items():
            for label, kw in (('run=False', dict(target=identity, args=(1,), run=False)), ('target=None', dict(target=None)),
                              ('target=None,run=None', dict(target=None, run=None))):
                for how in ('ctor', 'factory'):
                    w = cls(**kw, **extra) if how == 'ctor' else Worker.create(wt, **kw, **extra)
                    o = (w.is_alive(), w.wait(0), w.terminate(0), w.has_error, w.result, w.error)
                    res.count('not-run'); res.case(('norun', kname, label, how), nontrivial=True)
                    if o != (False, True, True, False, None, None) or type(w) is not cls:
                        res.violation(dict(kind=kname, how=how, norun=label), f'a worker that is not run must be dead at once with has_error False, result None: observed {o}')
        # several workers of one kind delivering large results at the same time: each one gets ITS result
        for kname, (cls, wt, extra) in kinds.items():
            at = time.time() + (1.0 if kname == 'thread' else 3.0)       # all of them deliver at the same instant
            ws = [cls(target=tagged_block, args=(i, 16_000_000, at), **extra) for i in range(3)]
            for w in ws:
                w.wait(60)
            res.count('concurrent-large:' + kname); res.case(('concurrent-large', kname), nontrivial=True)
            for i, w in enumerate(ws):
                want = tagged_block(i, 16_000_000)
                got = w.result
                if w.has_error is not False or got != want:
                    summary = (type(got).__name__, len(got) if hasattr(got, '__len__') else None, {b: got.count(bytes([b])) for b in set(got[:1] + got[-1:])} if isinstance(got, bytes) else None)
                    res.violation(dict(kind=kname, concurrent_large_results=3, worker=i),
                                  f'worker {i} of three {kname} workers returning 16 MB blocks at the same instant: has_error={w.has_error}, result {summary} differs from the direct call')
                    break
        # an unbounded wait() on a worker whose large outcome is still to come: neither side may end up waiting for the other
        for kname, (cls, wt, extra) in kinds.items():
            w = cls(target=late_block, args=(6_000_000, 0.5), **extra)
            done, ok = core.with_deadline(w.wait, 40)
            res.count('unbounded-wait-large:' + kname); res.case(('unbounded-wait-large', kname), nontrivial=True)
            if not done:
                res.violation(dict(kind=kname, call='late_block(6 MB after 0.5 s)', protocol='wait() without a timeout'),
                              f'{kname} worker: wait() with no timeout did not return within 40 s for a 6 MB result that the target delivers after 0.5 s')
                try:
                    w.terminate(timeout=1, force=True) if kname != 'thread' else None
                except BaseException:   # noqa
                    pass
            elif not (ok is True and w.has_error is False and w.result == late_block(6_000_000, 0)):
                res.violation(dict(kind=kname, call='late_block(6 MB after 0.5 s)', protocol='wait() without a timeout'),
                              f'{kname} worker: wait() -> {ok}, has_error={w.has_error}, result differs from the direct call')
        # the factory for persistent classes
        for wt, name in ((WorkerType.THREAD, 'PersistentThreadWorker'), (WorkerType.PROCESS, 'PersistentProcessWorker'), (WorkerType.REMOTE, 'PersistentRemoteWorker')):
            w = PersistentWorker.create(wt, target=identity, run=False, **({'host': host} if wt is WorkerType.REMOTE else {}))
            res.case(('factory-persistent', name), nontrivial=True)
            if type(w).__name__ != name:
                res.violation(dict(factory=name), f'PersistentWorker.create({wt}) built {type(w).__name__}')
    finally:
        server.terminate(force=True)
    transport_histories(res, tier)
    main_script_cases(res, tier)
    return res.finish()
