"""C02: every worker kind computes what a direct call would.
T-A: Gen/Create.v regenerated from Worker.create; the rest is differential execution: the same
target / arguments in a thread, a process and a remote worker, via constructor and via the factory,
compared with the direct call and with each other (values, exceptions with arguments, sizes across
the pipe buffer, not-run workers)."""
import logging
import os
import random
import sys
import threading
import time

from harness import core

PROP = 'C02'
UNITS = ['Create']
PROOFS = ['theories/Equiv/Pipe.v']


class Custom:
    def __init__(self, a, b=None):
        self.a, self.b = a, b

    def __eq__(self, o):
        return type(o) is Custom and (self.a, self.b) == (o.a, o.b)

    def __repr__(self):
        return f'Custom({self.a!r}, {self.b!r})'


class Err0(Exception):
    pass


class Err2(Exception):
    def __init__(self, a=None, b=None):
        super().__init__(a, b)


def identity(x):
    return x


def make(kind, n):
    if kind == 'bytes':
        return b'\x07' * n
    if kind == 'list':
        return list(range(n))
    return 'x' * n


def sized(kind, n):
    return make(kind, n)


def combine(a, b=2, *rest, k=None, **kw):
    return (a, b, rest, k, sorted(kw.items()))


def raiser(which, *args):
    raise {'Err0': Err0, 'Err2': Err2, 'ValueError': ValueError, 'KeyError': KeyError, 'ZeroDivisionError': ZeroDivisionError}[which](*args)


def direct(f, args, kwargs):
    try:
        return ('ok', f(*args, **kwargs))
    except Exception as e:
        return ('err', type(e), e.args)


def observe(w, timeout=20):
    t0 = time.time()
    dead = w.wait(timeout)
    dur = time.time() - t0
    if not dead:
        try:
            w.terminate(timeout=2)
        except Exception:
            pass
        return ('hang', dur)
    he, r, e = w.has_error, w.result, w.error
    if he is False:
        return ('ok', r) if e is None else ('bad', 'has_error False with an error')
    if he is True and r is None and e is not None:
        return ('err', type(e), e.args)
    return ('bad', f'has_error={he} result={r!r} error={e!r}')


def summarize(o):
    if o[0] == 'ok':
        r = o[1]
        return ('ok', (type(r).__name__, len(r)) if isinstance(r, (bytes, str, list)) and len(r) > 64 else repr(r))
    if o[0] == 'err':
        return ('err', o[1].__name__, repr(o[2]))
    return o


def main(tier, seed, replay=None):
    logging.disable(logging.CRITICAL)
    core.quiet_stderr(PROP)
    res = core.Result(PROP, tier, seed)
    res.rule = ('targets x argument shapes (positional, keyword, defaults, *rest, **kw) x return values (None, 0, "", [], nested containers, a custom class, '
                'bytes/str/list of sizes 0 .. 8 MB crossing 64 KiB and the socketpair limit) x exception classes with 0-2 arguments x {thread, process, '
                'remote} x {constructor, Worker.create} x {run None/True/False, target None}: every outcome compared with the direct call and the kinds '
                'with each other; a worker that has not ended 20 s after wait() counts as a deadlock. Non-trivial = non-None result or an exception.')
    res.assumptions = ['CPython pickle reproduces values and exceptions (type and args); sizes of OS pipe buffers are whatever this kernel provides',
                       'the pipe model of Equiv/Pipe.v: a writer blocks when the buffer is full, a reader takes what is there']
    res.trusted.append('hand-written pipe model Equiv/Pipe.v; harness/props/c02.py')
    core.prove(res, PROP, UNITS, PROOFS)
    sys.path.insert(0, core.REPO)
    from pyworkers.worker import Worker, WorkerType
    from pyworkers.thread import ThreadWorker
    from pyworkers.process import ProcessWorker
    from pyworkers.remote import RemoteWorker
    from pyworkers.persistent import PersistentWorker
    from pyworkers.remote_server import spawn_server
    server = spawn_server(('127.0.0.1', 0))
    host = server.addr
    kinds = {'thread': (ThreadWorker, WorkerType.THREAD, {}), 'process': (ProcessWorker, WorkerType.PROCESS, {}),
             'remote': (RemoteWorker, WorkerType.REMOTE, dict(host=host))}
    rnd = random.Random(seed)
    cases = []
    values = [None, 0, False, '', [], {}, (), 1.5, 'text', [1, [2, {'a': (3, None)}]], {'k': [1, 2], 'z': None}, Custom(1, [2, 3]), b'']
    for v in values:
        cases.append((identity, (v,), {}))
    sizes = [0, 1, 65535, 65536, 65537, 200_000, 1_000_000, 5_000_000] + ([8_000_000] if tier == 'thorough' else [])
    for n in sizes:
        cases.append((sized, ('bytes', n), {}))
    for n in ([70_000, 1_000_000] if tier == 'quick' else [65536, 70_000, 300_000, 1_000_000, 3_000_000]):
        cases.append((sized, ('list', n // 8), {})); cases.append((sized, ('str', n), {}))
    cases += [(combine, (1,), {}), (combine, (1, 3), {}), (combine, (1, 3, 4, 5), {}), (combine, (1,), {'k': 9}), (combine, (1,), {'z': 0, 'b': 7})]
    for which, args in (('Err0', ()), ('Err0', ('msg',)), ('Err2', (1, 'two')), ('ValueError', ('v', 2)), ('KeyError', ('k',)), ('ZeroDivisionError', ())):
        cases.append((raiser, (which,) + args, {}))
    try:
        for f, args, kwargs in cases:
            want = direct(f, args, kwargs)
            outs = {}
            for kname, (cls, wt, extra) in kinds.items():
                for how in ('ctor', 'factory'):
                    if how == 'factory' and tier == 'quick' and kname != 'thread' and f is not identity:
                        continue
                    try:
                        if how == 'ctor':
                            w = cls(target=f, args=args, kwargs=kwargs, **extra)
                        else:
                            w = Worker.create(wt, target=f, args=args, kwargs=kwargs, **extra)
                    except BaseException as e:   # noqa
                        outs[(kname, how)] = ('ctor-raised', type(e).__name__)
                        continue
                    outs[(kname, how)] = observe(w)
                    if type(w) is not cls:
                        outs[(kname, how)] = ('bad', f'factory built {type(w).__name__}')
            label = (f.__name__, repr(args)[:40], repr(kwargs)[:30])
            res.count('target:' + f.__name__)
            res.case(label, nontrivial=want[0] == 'err' or want[1] is not None,
                     sample=dict(call=f'{f.__name__}{repr(args)[:40]}', direct=summarize(want), kinds={f'{k[0]}/{k[1]}': summarize(o) for k, o in outs.items()}))
            for k, o in outs.items():
                ok = (o[0] == want[0] == 'ok' and o[1] == want[1]) or (o[0] == want[0] == 'err' and o[1] is want[1] and o[2] == want[2])
                if not ok:
                    res.violation(dict(call=f.__name__, args=repr(args)[:80], kwargs=repr(kwargs)[:60], kind=k[0], how=k[1]),
                                  f'{k[0]} worker ({k[1]}) gives {summarize(o)}, the direct call gives {summarize(want)}', observed=summarize(o))
        # workers that are not run
        for kname, (cls, wt, extra) in kinds.items():
            for label, kw in (('run=False', dict(target=identity, args=(1,), run=False)), ('target=None', dict(target=None)),
                              ('target=None,run=None', dict(target=None, run=None))):
                for how in ('ctor', 'factory'):
                    w = cls(**kw, **extra) if how == 'ctor' else Worker.create(wt, **kw, **extra)
                    o = (w.is_alive(), w.wait(0), w.terminate(0), w.has_error, w.result, w.error)
                    res.count('not-run'); res.case(('norun', kname, label, how), nontrivial=True)
                    if o != (False, True, True, False, None, None) or type(w) is not cls:
                        res.violation(dict(kind=kname, how=how, norun=label), f'a worker that is not run must be dead at once with has_error False, result None: observed {o}')
        # the factory for persistent classes
        for wt, name in ((WorkerType.THREAD, 'PersistentThreadWorker'), (WorkerType.PROCESS, 'PersistentProcessWorker'), (WorkerType.REMOTE, 'PersistentRemoteWorker')):
            w = PersistentWorker.create(wt, target=identity, run=False, **({'host': host} if wt is WorkerType.REMOTE else {}))
            res.case(('factory-persistent', name), nontrivial=True)
            if type(w).__name__ != name:
                res.violation(dict(factory=name), f'PersistentWorker.create({wt}) built {type(w).__name__}')
    finally:
        server.terminate(force=True)
    return res.finish()
