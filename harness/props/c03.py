"""C03: graceful terminate at every landing point - the C01 machinery with one injection and the C03 oracle."""
from harness.props import c01


def main(tier, seed, replay=None):
    return c01.main(tier, seed, replay, prop='C03')
