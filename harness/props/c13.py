"""C13: remote_pickle is invisible to code that does not opt in.
T-A: Gen/MroScan.v regenerated from __check_type_cached; source pins for the pickler;
T-B: generated class hierarchies against the real metaclass check and dispatch table;
direct oracle: remote_pickle vs pickle on generated graphs and a standard-library menu."""
import collections
import copy
import copyreg
import dataclasses
import datetime
import decimal
import enum
import fractions
import io
import itertools
import logging
import pickle
import random
import re

from harness import core

PROP = 'C13'
UNITS = ['MroScan']
PROOFS = ['theories/Pickle/MroProofs.v', 'theories/Pickle/Dispatch.v']
HEADER = 'From PW Require Import Pickle.Desc Gen.MroScan Pickle.MroProofs Pickle.Dispatch Pickle.Run.\n'

FEATURES = ['none', 'plain', 'remote', 'varkw', 'remote_kw', 'reduce', 'reduce_ex']
CALLS = []
COUNTER = [0]


def make_class(name, bases, feat):
    ns = {}
    if feat == 'plain':
        def __getstate__(self):
            CALLS.append((name, 'plain')); return dict(self.__dict__)
        ns['__getstate__'] = __getstate__
    elif feat == 'remote':
        def __getstate__(self, remote=False):
            CALLS.append((name, remote)); return dict(self.__dict__)
        ns['__getstate__'] = __getstate__
    elif feat == 'varkw':
        def __getstate__(self, **kwargs):
            CALLS.append((name, 'kw', tuple(sorted(kwargs.items()))))
            s = getattr(super(cls_holder[0], self), '__getstate__', None)
            try:
                return s(**kwargs) if s else dict(self.__dict__)
            except TypeError:
                return dict(self.__dict__)
        ns['__getstate__'] = __getstate__
    elif feat == 'remote_kw':
        def __getstate__(self, remote=False, **kwargs):
            CALLS.append((name, remote)); return dict(self.__dict__)
        ns['__getstate__'] = __getstate__
    elif feat == 'reduce':
        def __reduce__(self):
            return (object.__new__, (type(self),), dict(self.__dict__))
        ns['__reduce__'] = __reduce__
    elif feat == 'reduce_ex':
        def __reduce_ex__(self, proto):
            return (object.__new__, (type(self),), dict(self.__dict__))
        ns['__reduce_ex__'] = __reduce_ex__
    ns['__setstate__'] = lambda self, st: self.__dict__.update(st)
    cls_holder = [None]
    COUNTER[0] += 1
    name = f'{name}_{COUNTER[0]}'
    ns['__module__'] = __name__
    ns['__qualname__'] = name
    c = type(bases[0])(name, bases, ns) if bases and type(bases[0]) is not type else type(name, bases, ns)
    cls_holder[0] = c
    globals()[name] = c          # picklable by reference
    return c


def desc_of(base):
    import inspect
    d = base.__dict__
    g = d.get('__getstate__')
    tr = vk = su = False
    if g:
        try:
            sig = inspect.signature(g)
            tr = 'remote' in [p.name for p in sig.parameters.values()]
            vk = inspect.Parameter.VAR_KEYWORD in [p.kind for p in sig.parameters.values()]
        except (ValueError, TypeError):
            su = True
    b = lambda x: 'true' if x else 'false'   # noqa: E731
    return f'mkDesc {b(d.get("__reduce_ex__"))} {b(d.get("__reduce__"))} {b(g)} {b(tr)} {b(vk)} {b(su)}'


def mro_term(cls):
    return '[' + '; '.join(desc_of(b) for b in cls.__mro__[:-1]) + ']'


def real_check(cls):
    from pyworkers.remote_pickle import SupportRemoteGetState
    try:
        return 'Some true' if issubclass(cls, SupportRemoteGetState) else 'Some false'
    except Warning:
        return 'None'


def spec_check(derived_first):
    """C13 on a single-inheritance chain, most derived class first."""
    scanned = []
    for f in derived_first:
        if f in ('reduce', 'reduce_ex'):
            break
        scanned.append(f)
    seen_plain = False
    for f in scanned:
        if f == 'plain':
            seen_plain = True
        if f in ('remote', 'remote_kw') and seen_plain:
            return 'None'
    if any(f in ('reduce', 'reduce_ex') for f in derived_first):
        return 'Some false'
    return 'Some true' if any(f in ('remote', 'remote_kw') for f in derived_first) else 'Some false'


def build_chain(feats, marker=False):
    """feats: most-base first.  Returns the most derived class, or 'Warning' if class creation
    itself raised (marker-derived inconsistent chains)."""
    from pyworkers.remote_pickle import SupportRemoteGetState
    bases = (SupportRemoteGetState,) if marker else (object,)
    c = None
    for i, f in enumerate(feats):
        try:
            c = make_class(f'K{i}_{f}', bases, f)
        except Warning:
            return 'Warning'
        bases = (c,)
    return c


# ------------------------------------------------------------------ graphs for the byte-level oracle
class Plain:
    def __init__(self, **kw):
        self.__dict__.update(kw)

    def __eq__(self, o):
        return type(o) is type(self) and _eq(self.__dict__, o.__dict__, set())


class Slotted:
    __slots__ = ('a', 'b')

    def __init__(self, a=1, b=2):
        self.a, self.b = a, b


class WithState:
    def __init__(self, v):
        self.v = v

    def __getstate__(self):
        return {'v': self.v, 'extra': 1}

    def __setstate__(self, st):
        self.v = st['v']


class WithNewArgs(int):
    def __new__(cls, x, tag='t'):
        o = super().__new__(cls, x); o.tag = tag; return o

    def __getnewargs__(self):
        return (int(self), self.tag)


class WithReduce:
    def __init__(self, v):
        self.v = v

    def __reduce__(self):
        return (WithReduce, (self.v,))


class Color(enum.Enum):
    RED = 1
    BLUE = 2


@dataclasses.dataclass
class DC:
    x: int
    y: list


NT = collections.namedtuple('NT', 'a b')


def _eq(a, b, seen):
    return repr(a) == repr(b)   # structural comparison through repr is enough for the generated graphs


def gen_graph(rnd, depth):
    r = rnd.random()
    if depth == 0 or r < 0.25:
        return rnd.choice([None, True, 0, -7, 2 ** 70, 1.5, 'x', b'yz', (), Color.RED, datetime.date(2020, 1, 2),
                           decimal.Decimal('1.25'), fractions.Fraction(1, 3), re.compile('a+b'), len, Plain, range(3),
                           complex(1, 2), frozenset([1, 2]), NT(1, 2), bytearray(b'ab'), ValueError('v', 2)])
    kids = [gen_graph(rnd, depth - 1) for _ in range(rnd.randint(0, 3))]
    if r < 0.4:
        return list(kids)
    if r < 0.5:
        return tuple(kids)
    if r < 0.6:
        return {f'k{i}': k for i, k in enumerate(kids)}
    if r < 0.7:
        return Plain(**{f'a{i}': k for i, k in enumerate(kids)})
    if r < 0.76:
        return WithState(kids)
    if r < 0.82:
        return DC(len(kids), kids)
    if r < 0.88:
        return WithReduce(kids)
    if r < 0.92:
        return WithNewArgs(len(kids))
    if r < 0.96:
        s = Slotted(kids, depth); return s
    shared = kids or [1]
    lst = [shared, shared]          # shared reference
    lst.append(lst)                 # cycle
    return lst


class LateReg:
    """does not opt in; picklable only through a reducer registered with copyreg (it refuses the default protocol)"""
    def __init__(self, v):
        self.v = v

    def __reduce_ex__(self, proto):
        raise TypeError('LateReg is only picklable through copyreg')


def _late_make_a(v):
    return LateReg(v)


def _late_make_b(v, tag):
    return LateReg(v)


def _late_reduce_a(o):
    return _late_make_a, (o.v,)


def _late_reduce_b(o):
    return _late_make_b, (o.v, 'b')


MENU = [None, True, 123, 2 ** 100, 1.25, 'text', b'bytes', bytearray(b'ba'), (1, 'a'), [1, [2]], {'a': {'b': 1}}, {1, 2}, frozenset('ab'),
        datetime.datetime(2020, 1, 2, 3, 4, 5), datetime.timedelta(1), datetime.timezone.utc, decimal.Decimal('3.14'),
        fractions.Fraction(2, 7), Color.BLUE, DC(1, [2]), NT(1, 2), ValueError('bad', 3), KeyError('k'), OSError(2, 'x'),
        len, re.compile, collections.OrderedDict, collections.OrderedDict(a=1), collections.deque([1, 2]), collections.Counter('aab'),
        collections.defaultdict(list, a=[1]), re.compile('x+', re.I), range(1, 9, 2), slice(1, 2), complex(0, 1), Ellipsis, NotImplemented,
        type(None), int, Plain, itertools.count(3), io.BytesIO(b'abc')]


def main(tier, seed, replay=None):
    logging.disable(logging.CRITICAL)
    res = core.Result(PROP, tier, seed)
    res.rule = ('(a) every single-inheritance chain of depth <= 3 (quick) / 4 (thorough) over the 7 class features {no hook, plain __getstate__, '
                '__getstate__(remote), **kwargs pass-through, remote+kwargs, __reduce__, __reduce_ex__}, duck-typed and marker-derived, plus '
                'random multiple-inheritance hierarchies: real issubclass(T, SupportRemoteGetState) vs the generated scan; (b) real dispatch-table '
                'look-ups of RemotePickler(remote=b) vs the dispatch model; (c) byte equality remote_pickle.dumps == pickle.dumps on a standard-library '
                'menu and on seeded random graphs (containers, shared references, cycles, classes with the usual hooks) x protocols 2-5 x remote '
                'True/False; (d) opt-in classes under pickle/copy/deepcopy and remote=False get __getstate__ without the flag. Non-trivial = chain '
                'with at least one hook / graph with an instance of a user class.')
    res.assumptions = ['CPython pickle.Pickler consults the instance attribute dispatch_table instead of copyreg.dispatch_table (documented)',
                       'byte-level equivalence with pickle is a differential test, not a theorem (CPython C code is not modelled)']
    res.trusted.append('hand-written Pickle/Dispatch.v (pinned to remote_pickler_3_6.py by tools/pin.py); harness/props/c13.py')
    core.prove(res, PROP, UNITS, PROOFS, run_files=['theories/Pickle/Run.v'])
    gen_ok = not any(w.startswith('translator:') for w, _ in res.tie_broken)
    import sys
    sys.path.insert(0, core.REPO)
    from pyworkers import remote_pickle
    from pyworkers.remote_pickle import SupportRemoteGetState, SupportRemoteGetStateMeta
    rnd = random.Random(seed)
    terms, keep = [], []
    # (a) chains
    maxd = 3 if tier == 'quick' else 4
    chains = [list(c) for d in range(1, maxd + 1) for c in itertools.product(FEATURES, repeat=d)]
    if tier == 'quick':
        chains += [[rnd.choice(FEATURES) for _ in range(4)] for _ in range(300)]
    for marker in (False, True):
        for feats in chains:
            c = build_chain(feats, marker)
            res.count('chain:' + ('marker' if marker else 'duck'))
            res.case(('chain', marker, tuple(feats)), nontrivial=any(f != 'none' for f in feats),
                     sample=dict(chain=feats, marker=marker))
            if c == 'Warning':
                # the chain up to the failing class is inconsistent: cannot build the full MRO; covered by duck-typed twin
                continue
            got = real_check(c)
            terms.append(f'check_mro {mro_term(c)} ({got})'); keep.append(('chain', feats, marker, got))
            # the statement of C13 about chains, computed independently (most derived first)
            want = spec_check(feats[::-1])
            if got != want:
                res.violation(dict(chain=feats, marker=marker), f'opt-in check gives {got}, the property requires {want} (Some true = opt-in, None = Warning)', observed=got)
            again = real_check(c)
            if again != got:
                res.violation(dict(chain=feats, marker=marker), f'the opt-in check of the same class answers {got} the first time and {again} the second time', observed=again)
            # and what it means for pickling an instance
            try:
                o = c(); o.v = 1
            except Exception:
                o = None
            if o is not None:
                for remote in (True, False):
                    try:
                        ref = pickle.dumps(o)
                    except Exception as e:
                        ref = ('exc', type(e).__name__)
                    for attempt in (1, 2):
                        try:
                            b = remote_pickle.dumps(o, remote=remote)
                        except Warning:
                            b = ('warning',)
                        except Exception as e:
                            b = ('exc', type(e).__name__)
                        if want == 'Some false' and b != ref:
                            res.violation(dict(chain=feats, marker=marker, remote=remote, attempt=attempt),
                                          'an instance of a class that does not opt in is not pickled like pickle.dumps does', observed=str(b)[:80])
                        if want == 'None' and remote and b != ('warning',):
                            res.violation(dict(chain=feats, marker=marker, remote=remote, attempt=attempt),
                                          'an instance of a class with an inconsistent opt-in chain is pickled without Warning', observed=str(b)[:80])
            # direct oracle: never silently registered without a remote-aware __getstate__
            if got == 'Some true' and not any(f in ('remote', 'remote_kw') for f in feats):
                res.violation(dict(chain=feats, marker=marker), 'class registered as opt-in although no __getstate__ takes `remote`', observed=got)
            if any(f in ('remote', 'remote_kw') for f in feats):
                # inconsistent: a plain __getstate__ more derived than a remote-aware one, no reducer in between/before
                derived_first = feats[::-1]
                seen_plain = False; inconsistent = False
                for f in derived_first:
                    if f in ('reduce', 'reduce_ex'):
                        break
                    if f == 'plain':
                        seen_plain = True
                    if f in ('remote', 'remote_kw') and seen_plain:
                        inconsistent = True
                if inconsistent and got != 'None':
                    res.violation(dict(chain=feats, marker=marker), 'inconsistent opt-in chain accepted without Warning', observed=got)
    # multiple inheritance
    for _ in range(200 if tier == 'quick' else 2000):
        try:
            a = build_chain([rnd.choice(FEATURES) for _ in range(rnd.randint(1, 2))])
            b = build_chain([rnd.choice(FEATURES) for _ in range(rnd.randint(1, 2))])
            c = make_class('MI_' + rnd.choice(FEATURES), (a, b), rnd.choice(FEATURES))
        except (TypeError, Warning):
            continue
        got = real_check(c)
        res.count('chain:multiple-inheritance'); res.case(('mi', mro_term(c)), nontrivial=True)
        terms.append(f'check_mro {mro_term(c)} ({got})'); keep.append(('mi', mro_term(c), False, got))
    # (b) dispatch routes
    sample_objs = [io.BytesIO(b'q'), 1, 'a', [1], {'a': 1}, (1,), {1}, None, 1.5, b'x', re.compile('a'), complex(1, 1), Plain(a=1), Plain, len, WithState(1), Color.RED,
                   build_chain(['remote'])(), build_chain(['plain', 'remote'])(), build_chain(['remote'], True)(), build_chain(['remote', 'varkw'], True)(),
                   build_chain(['remote', 'reduce'])(), build_chain(['none'], True)()]
    incons = build_chain(['remote', 'plain'])
    if incons != 'Warning':
        sample_objs.append(incons())
    for remote in (True, False):
        for o in sample_objs:
            t = type(o)
            p = remote_pickle.Pickler(io.BytesIO(), remote=remote)
            if t in pickle._Pickler.dispatch:
                route = 'RBuiltin'
            else:
                try:
                    r = p.dispatch_table[t]
                    route = 'RRemote' if getattr(r, '__func__', None) is remote_pickle.Pickler.remote_reduce else 'RTable 0'
                except KeyError:
                    route = 'RGlobal' if isinstance(o, type) else 'RReduceEx'
                except Warning:
                    route = 'RWarning'
                except Exception as e:
                    route = 'RWarning'
                    res.violation(dict(cls=t.__name__, remote=remote), f'looking up the reducer of a non-opt-in class raises {type(e).__name__}: {e}')
            bl = lambda x: 'true' if x else 'false'   # noqa: E731
            cls_term = (f'(mkCls {bl(t in pickle._Pickler.dispatch)} {"(Some 0)" if t in copyreg.dispatch_table else "None"} '
                        f'{bl(isinstance(o, type))} {bl(t in SupportRemoteGetState.supported_classes)} {mro_term(t)})')
            terms.append(f'check_route {bl(remote)} {cls_term} {"(" + route + ")" if " " in route else route}')
            keep.append(('route', t.__name__, remote, route))
            res.count('route'); res.case(('route', t.__name__, remote), nontrivial=not (t in pickle._Pickler.dispatch))
    # (c) byte-level oracle
    graphs = [('menu', m) for m in MENU] + [('graph', gen_graph(rnd, rnd.randint(1, 4))) for _ in range(300 if tier == 'quick' else 3000)]
    for kind, g in graphs:
        for proto in (2, 3, 4, 5):
            try:
                ref = pickle.dumps(g, protocol=proto)
            except Exception as e:   # not picklable by the standard pickler either
                ref = ('exc', type(e).__name__)
            for remote in (True, False):
                try:
                    got = remote_pickle.dumps(g, protocol=proto, remote=remote)
                except Exception as e:
                    got = ('exc', type(e).__name__)
                res.count('bytes:' + kind)
                res.case(('bytes', kind, repr(g)[:80], proto, remote), nontrivial=kind == 'graph' or not isinstance(g, (int, float, str, bytes, type(None))),
                         sample=dict(value=repr(g)[:60], protocol=proto, remote=remote) if proto == 4 and remote else None)
                if got != ref:
                    res.violation(dict(value=repr(g)[:200], protocol=proto, remote=remote),
                                  'remote_pickle.dumps differs from pickle.dumps for a graph without opt-in classes',
                                  observed=dict(remote_pickle=str(got)[:400], pickle=str(ref)[:400]))
                elif not isinstance(got, tuple):
                    try:
                        back = remote_pickle.loads(got)
                        if repr(back)[:300] != repr(pickle.loads(ref))[:300] and 'object at 0x' not in repr(back):
                            res.violation(dict(value=repr(g)[:200], protocol=proto, remote=remote), 'remote_pickle.loads result differs from pickle.loads', observed=repr(back)[:80])
                    except Exception as e:
                        try:
                            pickle.loads(ref)
                            res.violation(dict(value=repr(g)[:200], protocol=proto, remote=remote), f'remote_pickle.loads raises {type(e).__name__} where pickle.loads succeeds')
                        except Exception:
                            pass
    # (d) opt-in classes keep the plain protocol everywhere else
    Opt = build_chain(['remote'], True)
    Duck = build_chain(['plain', 'remote'])      # derived takes remote, base plain
    for C in (Opt, Duck):
        o = C(); o.x = [1, 2]
        for label, fn in (('pickle', lambda: pickle.loads(pickle.dumps(o))), ('copy', lambda: copy.copy(o)), ('deepcopy', lambda: copy.deepcopy(o)),
                          ('remote=False', lambda: remote_pickle.loads(remote_pickle.dumps(o, remote=False))),
                          ('remote=True', lambda: remote_pickle.loads(remote_pickle.dumps(o, remote=True)))):
            del CALLS[:]
            try:
                back = fn()
                flags = [c[1] for c in CALLS if c[1] in (True, False)]
                want = [True] if label == 'remote=True' else [False]
                res.count('optin:' + label); res.case(('optin', C.__name__, label), nontrivial=True)
                if flags != want or back.x != [1, 2]:
                    res.violation(dict(cls=C.__name__, how=label), f'__getstate__ called with remote={flags}, expected {want}; restored x={getattr(back, "x", None)}')
            except Exception as e:
                res.violation(dict(cls=C.__name__, how=label), f'{label} of an opt-in object raises {type(e).__name__}: {e}')
    # (e) reducers registered with copyreg while the process has long been pickling (picklers exist already, no new opt-in class in between)
    for step, (name, reducer) in enumerate([('first registration', _late_reduce_a), ('registration replaced', _late_reduce_b),
                                            ('registration replaced again', _late_reduce_a)]):
        copyreg.pickle(LateReg, reducer)
        try:
            for holder in (lambda o: o, lambda o: [o, {'k': o}], lambda o: Plain(a=o)):
                g = holder(LateReg(5))
                for remote in (True, False):
                    for proto in (2, 4):
                        ref = pickle.dumps(g, protocol=proto)
                        try:
                            got = remote_pickle.dumps(g, protocol=proto, remote=remote)
                        except Exception as e:       # noqa
                            got = ('exc', type(e).__name__)
                        res.count('bytes:late-copyreg'); res.case(('late-copyreg', step, repr(type(g)), remote, proto), nontrivial=True)
                        if got != ref:
                            res.violation(dict(value=f'{type(g).__name__} holding an instance of a class whose reducer was registered with copyreg.pickle() after '
                                                     f'picklers had been used ({name})', protocol=proto, remote=remote),
                                          'remote_pickle.dumps differs from pickle.dumps for a graph without opt-in classes (late copyreg registration not honoured)',
                                          observed=dict(remote_pickle=str(got)[:200], pickle=str(ref)[:200]))
        finally:
            copyreg.dispatch_table.pop(LateReg, None)
    if gen_ok:
        bad, err = core.coq_eval_cases(PROP, HEADER, terms, per_file=300)
        res.traces_validated = len(terms) - len(bad)
        if err:
            res.tie('correspondence:coq-eval', err)
        for i in bad[:10]:
            res.tie('correspondence:' + keep[i][0], dict(case=repr(keep[i])[:500], term=terms[i][:1500]))
    return res.finish()
