"""C19: Worker.active_children() over histories of creations, deaths, restarts.
T-A: Gen/Registry.v is regenerated from worker.py; T-B: histories replayed on real
ThreadWorker / PersistentThreadWorker objects (and start-up failures / not-run
workers) against Registry/Model.v."""
import itertools
import json
import logging
import os
import random
import threading

from harness import core

PROP = 'C19'
UNITS = ['Registry']
PROOFS = ['theories/Registry/Proofs.v']
HEADER = 'From PW Require Import Registry.Model Registry.Run.\nOpen Scope nat_scope.\n'


class History:
    """Plays ops on the real classes; worker k = k-th created object."""

    def __init__(self):
        from pyworkers.worker import Worker
        from pyworkers.thread import ThreadWorker
        from pyworkers.persistent_thread import PersistentThreadWorker
        self.Worker, self.TW, self.PTW = Worker, ThreadWorker, PersistentThreadWorker
        Worker._active_children = []
        for cls in (ThreadWorker, PersistentThreadWorker):      # every history starts from a fresh registry (also one a subclass may have been given)
            if '_active_children' in vars(cls):
                delattr(cls, '_active_children')
        self.objs = []      # (worker, release event or None, persistent?)

        class FailingStart(ThreadWorker):
            def _start(self):   # child died during start-up: _dead stays True
                self._child = threading.Thread(target=lambda: None)
                self._child.start(); self._child.join()
                self._tid = -1
        self.Failing = FailingStart

    def create(self, run, ok, persistent):
        ev = threading.Event()
        if not run:
            w = (self.PTW if persistent else self.TW)(target=lambda *a: None, run=False)
            self.objs.append((w, None, persistent)); return
        if not ok:
            w = self.Failing(target=ev.wait)
            self.objs.append((w, None, False)); return
        if persistent:
            w = self.PTW(target=lambda x: x)
            self.objs.append((w, None, True))
        else:
            w = self.TW(target=ev.wait)
            self.objs.append((w, ev, False))

    def die(self, i):
        if i >= len(self.objs):
            return
        w, ev, pers = self.objs[i]
        if ev is not None:
            ev.set()
        if w.is_alive():
            assert w.wait(10), 'worker did not finish'

    def restart(self, i):
        """returns True if a restart was performed (persistent, was run)"""
        if i >= len(self.objs):
            return False
        w, ev, pers = self.objs[i]
        if not pers or not w._started:
            return False
        w.restart(timeout=10)
        return True

    def active(self, via=0):
        """via 0: Worker.active_children(); 1/2: the same static method reached through the subclass ThreadWorker / PersistentThreadWorker;
        3: through the most recently created worker object"""
        ids = {id(w): k for k, (w, _, _) in enumerate(self.objs)}
        holder = [self.Worker, self.TW, self.PTW, self.objs[-1][0] if self.objs else self.Worker][via]
        return [ids.get(id(c), -1) for c in holder.active_children()]

    def registry(self):
        ids = {id(w): k for k, (w, _, _) in enumerate(self.objs)}
        return [ids.get(id(c), -1) for c in self.Worker._active_children]

    def alive_set(self):
        return sorted(k for k, (w, _, _) in enumerate(self.objs) if w.is_alive())

    def cleanup(self):
        for w, ev, pers in self.objs:
            if ev is not None:
                ev.set()
            try:
                if w.is_alive():
                    w.wait(5)
            except Exception:
                pass
        self.Worker._active_children = []


def play(ops):
    """ops: list of ('create', run, ok, persistent) | ('die', i) | ('restart', i) | ('active',).
    Returns (model_ops as Coq terms, outs, final registry, violations)."""
    h = History()
    coq, outs, viol = [], [], []
    try:
        for op in ops:
            if op[0] == 'create':
                h.create(op[1], op[2], op[3])
                coq.append(f'Create {"true" if op[1] else "false"} {"true" if op[2] else "false"}')
            elif op[0] == 'die':
                h.die(op[1]); coq.append(f'Die {op[1]}')
            elif op[0] == 'restart':
                if h.restart(op[1]):
                    coq.append(f'Restart {op[1]}')
            else:
                alive_before = h.alive_set()
                via = op[1] if len(op) > 1 else 0
                out = h.active(via)
                outs.append(out); coq.append('Active')
                # the property itself (stated for Worker.active_children(); a call through a subclass or an object is the same function and is
                # compared with the model only)
                if via == 0 and (sorted(out) != alive_before or len(set(out)) != len(out)):
                    viol.append(f'active_children() yielded {out}, live workers are {alive_before}')
                reg = h.registry()
                if len(reg) > len(alive_before):
                    viol.append(f'registry retains {len(reg)} workers after the call although only {len(alive_before)} are alive')
        reg = h.registry()
    finally:
        h.cleanup()
    return coq, outs, reg, viol


def concurrent_probe(n_before, n_during):
    """A second thread creates workers while active_children() is polling is_alive():
    whatever the interleaving, the next query must yield every live worker."""
    h = History()
    created = []
    fired = []

    class Gate(h.TW):
        def is_alive(self):
            r = super().is_alive()
            if threading.current_thread() is main and not fired and getattr(self, '_gate_armed', False):
                fired.append(1)

                def make():
                    for _ in range(n_during):
                        ev = threading.Event()
                        created.append((h.TW(target=ev.wait), ev))
                t = threading.Thread(target=make)
                t.start()
                t.join(0.3)     # with the lock held by the caller this times out: fine
                threads.append(t)
            return r
    main = threading.current_thread()
    threads = []
    viol = []
    try:
        evs = []
        for _ in range(n_before):
            ev = threading.Event(); evs.append(ev)
            w = Gate(target=ev.wait)
            h.objs.append((w, ev, False))
        h.objs[0][0]._gate_armed = True
        first = list(h.Worker.active_children())
        for t in threads:
            t.join(10)
        for w, ev in created:
            h.objs.append((w, ev, False))
        second = h.active()
        alive = h.alive_set()
        if sorted(second) != alive or len(set(second)) != len(second):
            viol.append(f'after workers were created concurrently with a query, active_children() yields {second}, live workers are {alive}')
    finally:
        h.cleanup()
    return viol


def gen_random(rnd, length):
    ops, n = [], 0
    for _ in range(length):
        r = rnd.random()
        if r < 0.35 or n == 0:
            run = rnd.random() < 0.85
            ops.append(('create', run, rnd.random() < 0.9, rnd.random() < 0.5)); n += 1
        elif r < 0.6:
            ops.append(('die', rnd.randrange(n)))
        elif r < 0.72:
            ops.append(('restart', rnd.randrange(n)))
        else:
            ops.append(('active',) if rnd.random() < 0.7 else ('active', rnd.randint(1, 3)))
    ops.append(('active',))
    return ops


def exhaustive(maxlen):
    alpha = [('create', True, True, True), ('create', True, True, False), ('create', False, True, True), ('create', True, False, False),
             ('die', 0), ('die', 1), ('restart', 0), ('active',), ('active', 1)]
    for L in range(1, maxlen + 1):
        for s in itertools.product(alpha, repeat=L):
            if s[-1] != ('active',) or s[0][0] != 'create':
                continue
            yield list(s)


def main(tier, seed, replay=None):
    logging.disable(logging.CRITICAL)
    res = core.Result(PROP, tier, seed)
    res.rule = ('histories over {create (thread / persistent thread; run, not-run, failing start), die, restart, active_children()} on real worker '
                'objects: every history of length <= 5 (quick) / 6 (thorough) ending in a query, seeded random histories of length 5-60 and a few of '
                'several hundred operations; each query is a checked point. Non-trivial = the history contains a death or restart before a query.')
    res.assumptions = ['operations are atomic w.r.t. the registry because the code holds _children_lock around prune+copy (pinned by the translator: '
                       'only `with Worker.*lock` blocks are accepted)',
                       'is_alive() of each worker object is the oracle `alive` of the model']
    res.trusted.append('hand-written history machine Registry/Model.v around the generated functions; harness/props/c19.py')
    core.prove(res, PROP, UNITS, PROOFS, run_files=['theories/Registry/Run.v'])
    gen_ok = not any(w.startswith('translator:') for w, _ in res.tie_broken)
    import sys
    sys.path.insert(0, core.REPO)
    rnd = random.Random(seed)
    hists = []
    cdir = os.path.join(core.VERIF, 'corpus', PROP)
    if os.path.isdir(cdir):
        for fn in sorted(os.listdir(cdir)):
            if fn.endswith('.json'):
                hists.append(('corpus', [tuple(o) for o in json.load(open(os.path.join(cdir, fn)))['ops']]))
    if replay:
        c = json.load(open(replay)).get('first', {}).get('case')
        hists = [('replay', [tuple(o) for o in c['ops']])]
    else:
        hists += [('exhaustive', h) for h in exhaustive(5 if tier == 'quick' else 6)]
        for _ in range(300 if tier == 'quick' else 3000):
            hists.append(('random', gen_random(rnd, rnd.randint(5, 60))))
        for _ in range(3 if tier == 'quick' else 20):
            hists.append(('long', gen_random(rnd, rnd.randint(300, 500))))
    terms, keep = [], []
    for kind, ops in hists:
        coq, outs, reg, viol = play(ops)
        res.count('kind:' + kind); res.count('queries', len(outs))
        nontriv = any(o[0] in ('die', 'restart') for o in ops)
        res.case(tuple(ops), nontrivial=nontriv, sample=dict(ops=[' '.join(map(str, o)) for o in ops[:12]], yielded=outs[:4]))
        for v in viol[:1]:
            res.violation(dict(ops=[list(o) for o in ops]), v, observed=outs)
        terms.append(f'check_hist [{"; ".join(coq)}] [{"; ".join("[" + "; ".join(map(str, o)) + "]" for o in outs)}] [{"; ".join(map(str, reg))}]')
        keep.append((ops, outs, reg))
    for nb, nd in ([1, 1], [2, 1], [3, 2]) if tier == 'quick' else [(a, b) for a in range(1, 5) for b in range(1, 4)]:
        viol = concurrent_probe(nb, nd)
        res.count('kind:concurrent')
        res.case(('concurrent', nb, nd), nontrivial=True)
        for v in viol[:1]:
            res.violation(dict(concurrent=dict(workers_before=nb, created_during_query=nd), ops=[]), v)
    if gen_ok:
        bad, err = core.coq_eval_cases(PROP, HEADER, terms, per_file=300)
        res.traces_validated = len(terms) - len(bad)
        if err:
            res.tie('correspondence:coq-eval', err)
        for i in bad[:10]:
            ops, outs, reg = keep[i]
            res.tie('correspondence:active_children', dict(ops=[list(o) for o in ops], implementation=dict(yielded=outs, registry=reg), term=terms[i][:1500]))
    return res.finish()
