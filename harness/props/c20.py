"""C20: creating a worker returns a usable worker or raises - it never hangs.
T-B: the REAL RemoteWorker / PersistentRemoteWorker constructor against a scripted fake server that
cuts either server->client message of the handshake at a chosen byte offset (FIN or RST), refuses the
control connection, or is simply not there; a real server for the unknown-context case and for a
server killed during the handshake; process and thread kinds with a child that dies during start-up.
Every construction runs under a 10 s hang bound."""
import logging
import os
import random
import signal
import sys
import threading
import time

from harness import core, server_tools as st

PROP = 'C20'
UNITS = ['Framing', 'Handshake', 'ServerLoop']
PROOFS = ['theories/Server/Model.v', 'theories/Server/Handshake.v', 'theories/Framing/Proofs.v']
HANG = 10.0


def construct(fn):
    """run a constructor under the hang bound: ('returned', worker) | ('raised', exc) | ('hang', None)"""
    out = {}

    def run():
        try:
            out['w'] = fn()
        except BaseException as e:   # noqa
            out['e'] = e
    t = threading.Thread(target=run, daemon=True)
    t0 = time.time()
    t.start(); t.join(HANG)
    if t.is_alive():
        return 'hang', None, time.time() - t0
    if 'e' in out:
        return 'raised', out['e'], time.time() - t0
    return 'returned', out['w'], time.time() - t0


def main(tier, seed, replay=None):
    logging.disable(logging.CRITICAL)
    core.quiet_stderr(PROP)
    res = core.Result(PROP, tier, seed)
    res.rule = ('RemoteWorker and PersistentRemoteWorker constructors against a scripted server: control-address message and runtime-info message cut at '
                'every byte offset (quick: every 3rd and the boundaries) with FIN and RST, control connection refused, nobody listening, complete handshake; real '
                'server: unknown context id, server killed right after accepting; thread and process kinds with a child that dies at the very start. Bound: '
                '10 s per construction. Non-trivial = a construction that meets a fault.')
    res.assumptions = ['TCP connect to a port nobody listens on is refused at once on loopback', 'a server that accepts and then stays silent for ever is outside the property (no peer failure is observable)']
    res.trusted.append('hand-written model Server/Model.v construct (pinned to RemoteWorker._start/_run_frontend); scripted server of harness/server_tools.py')
    core.prove(res, PROP, UNITS, PROOFS)
    sys.path.insert(0, core.REPO)
    from pyworkers.remote import RemoteWorker
    from pyworkers.persistent_remote import PersistentRemoteWorker
    from pyworkers.process import ProcessWorker
    from pyworkers.thread import ThreadWorker
    import pyworkers.worker as pw_worker

    hangs = [0]

    class Enough(Exception):
        pass

    def check(label, outcome, obj, dur, must_raise):
        if outcome == 'hang':
            hangs[0] += 1
        res.count('outcome:' + outcome); res.case(label, nontrivial=must_raise, sample=dict(case=label, outcome=outcome, seconds=round(dur, 2)) if res.evaluations % 9 == 0 else None)
        if outcome == 'hang':
            res.violation(dict(case=list(label)), f'the constructor did not return within {HANG:.0f} s')
            if hangs[0] >= 3:
                raise Enough()      # three constructions hang: the property is decided, do not wait 10 s for each of the rest
        elif must_raise and outcome == 'returned':
            res.violation(dict(case=list(label)), 'the constructor returned a worker although the handshake did not complete')
        elif not must_raise and outcome == 'raised':
            res.violation(dict(case=list(label)), f'the constructor raised {type(obj).__name__} on a complete handshake')
        if outcome == 'returned':
            try:
                obj.terminate(timeout=1, force=False) if False else None
            except Exception:
                pass

    try:
        sweep(res, tier, check, RemoteWorker, PersistentRemoteWorker)
    except Enough:
        pass
    local_kinds(res, ProcessWorker, ThreadWorker)
    return res.finish()


def sweep(res, tier, check, RemoteWorker, PersistentRemoteWorker):
    lens = {'addr': len(st.frame(('127.0.0.1', 50000))), 'info': len(st.frame(('fakehost', 4242, 4243, 4244)))}
    for cls in (RemoteWorker, PersistentRemoteWorker):
        for stage in ('addr', 'info'):
            n = lens[stage]
            offs = range(n) if tier == 'thorough' else sorted(set([0, 1, 3, 4, 5, n - 2, n - 1] + list(range(0, n, 3))))
            for k in offs:
                for end in (('fin', 'rst') if tier == 'thorough' or k % 2 == 0 else ('fin',)):
                    fs = st.FakeServer(stage, k, end)
                    o, x, d = construct(lambda: cls(st.sq3, args=(2,), host=fs.addr))
                    check((cls.__name__, stage, k, end), o, x, d, True)
        fs = st.FakeServer('refuse', 0)
        o, x, d = construct(lambda: cls(st.sq3, args=(2,), host=fs.addr))
        check((cls.__name__, 'ctrl-refused'), o, x, d, True)
        o, x, d = construct(lambda: cls(st.sq3, args=(2,), host=('127.0.0.1', 1)))
        check((cls.__name__, 'nobody-listening'), o, x, d, True)
        fs = st.FakeServer(None, 0)
        o, x, d = construct(lambda: cls(st.sq3, args=(2,), host=fs.addr))
        check((cls.__name__, 'complete'), o, x, d, False)
        if o == 'returned' and x.id[:2] != ('fakehost', 4242):
            res.violation(dict(case=[cls.__name__, 'complete']), f'the worker\'s id {x.id} is not the identity the child reported')
    # real server: unknown context; server killed during the handshake
    server = st.start_server()
    try:
        for cls in (RemoteWorker, PersistentRemoteWorker):
            o, x, d = construct(lambda: cls(None, host=server.addr, context=4711))
            check((cls.__name__, 'unknown-context'), o, x, d, True)
        # the server-side child dies before it reports its identity (an argument whose unpickling - which happens in the
        # child only, the payload is opaque to the server - ends the process)
        for cls in (RemoteWorker, PersistentRemoteWorker):
            o, x, d = construct(lambda: cls(st.sq3, args=(ExitOnUnpickle(),), host=server.addr))
            res.count('outcome:remote-child-dies-early-' + o); res.case((cls.__name__, 'remote-child-exits-before-reporting'), nontrivial=True)
            if o == 'hang':
                res.violation(dict(case=[cls.__name__, 'remote child exits before reporting its identity']), 'the constructor did not return within 10 s')
            elif o == 'returned' and (x.is_alive() or x.has_error is None):
                res.violation(dict(case=[cls.__name__, 'remote child exits before reporting its identity']), 'constructor returned a worker that is neither alive nor definitely dead')
        before = set(st.descendants(server.pid))
        o, x, d = construct(lambda: RemoteWorker(st.sq3, args=(2,), host=server.addr))
        check(('RemoteWorker', 'healthy-after-failures'), o, x, d, False)
        if o == 'returned':
            x.wait(10)
    finally:
        server.terminate(force=True)
    server_dies_while_the_child_starts(res, RemoteWorker, PersistentRemoteWorker)
    creation_fails_inside_a_context(res)


class ExitOnUnpickle:
    def __reduce__(self):
        return (os._exit, (7,))


def make_bad_ctx_worker():
    """a persistent remote worker class which cannot be rebuilt on the server side (its __setstate__ refuses there): creating
    it inside a context fails in the context's helper process with something that is not a ConnectionClosedError"""
    from pyworkers.persistent_remote import PersistentRemoteWorker

    class BadCtxWorker(PersistentRemoteWorker):
        def __setstate__(self, st):
            if st.get('_from_remote_parent'):
                raise RuntimeError('cannot be rebuilt on this side')
            super().__setstate__(st)
    BadCtxWorker.__qualname__ = 'BadCtxWorker'
    globals()['BadCtxWorker'] = BadCtxWorker
    return BadCtxWorker


def creation_fails_inside_a_context(res):
    """a worker requested inside a registered context whose creation fails in the helper process: the constructor raises (it
    does not wait for an answer that never comes) and the context stays usable for the next client"""
    from pyworkers.remote_context import RemoteContext
    from pyworkers.persistent_remote import PersistentRemoteWorker
    server = st.start_server()
    case = dict(case=['PersistentRemoteWorker', 'creation inside a context fails in the helper process'])
    try:
        ctx = RemoteContext(77, target=st.sq3, host=server.addr)
        Bad = make_bad_ctx_worker()
        o, x, d = construct(lambda: Bad(None, host=server.addr, context=77))
        res.count('outcome:creation-fails-inside-context-' + o); res.case(('PersistentRemoteWorker', 'creation-fails-inside-context'), nontrivial=True)
        if o == 'hang':
            res.violation(case, 'the constructor did not return within 10 s')
        elif o == 'returned' and (x.is_alive() or x.has_error is None):
            res.violation(case, 'constructor returned a worker that is neither alive nor definitely dead')
        # the next, well-behaved client of the same context
        def good():
            w = PersistentRemoteWorker(None, host=server.addr, context=77)
            w.enqueue(2)
            v = w.next_result(block=True)
            w.wait(5)
            return v
        o2, x2, d2 = construct(good)
        if not (o2 == 'returned' and x2 == 8):
            res.violation(dict(case=['PersistentRemoteWorker', 'context after a creation that failed in the helper']),
                          f'after a worker could not be created inside context 77 the next client of that context: {o2} {x2!r}')
        try:
            ctx.close()
        except Exception:
            pass
    finally:
        try:
            server.terminate(force=True)
        except Exception:
            pass


class ParkOnUnpickle:
    """pins an instant of the start-up: the payload is rebuilt in the backend child only, after it was spawned and before it
    reports its identity; the child says where it is and waits there until it is told to go on"""

    def __init__(self, d):
        self.d = d

    def __reduce__(self):
        return (_park, (self.d,))


def _park(d):
    open(os.path.join(d, 'parked'), 'w').write(str(os.getpid()))
    t0 = time.time()
    while not os.path.exists(os.path.join(d, 'go')) and time.time() - t0 < 15:
        time.sleep(0.02)
    return 0


def server_dies_while_the_child_starts(res, RemoteWorker, PersistentRemoteWorker):
    """the server process is killed after it has spawned the backend child and before it has answered the child's identity
    report: the constructor must raise (or return a worker that is definitely dead) and no child may be left behind"""
    import signal
    import tempfile
    import shutil
    for cls in (RemoteWorker, PersistentRemoteWorker):
        server = st.start_server()
        d = tempfile.mkdtemp(prefix='pwverif_c20_', dir=os.path.join(core.VERIF, 'scratch'))
        out = {}
        th = threading.Thread(target=lambda: out.update(r=construct(lambda: cls(st.sq3, args=(ParkOnUnpickle(d),), host=server.addr))), daemon=True)
        case = dict(case=[cls.__name__, 'server killed after spawning the child, before answering its identity report'])
        try:
            th.start()
            t0 = time.time()
            while not os.path.exists(os.path.join(d, 'parked')) and time.time() - t0 < 10:
                time.sleep(0.02)
            res.count('outcome:server-dies-while-child-starts'); res.case((cls.__name__, 'server-dies-while-child-starts'), nontrivial=True)
            if not os.path.exists(os.path.join(d, 'parked')):
                res.tie('harness:c20-park', 'the backend child never reached the payload (the start-up order changed?)')
                continue
            time.sleep(0.05)
            child = int(open(os.path.join(d, 'parked')).read() or 0)
            os.kill(server.pid, signal.SIGKILL)
            time.sleep(0.2)
            open(os.path.join(d, 'go'), 'w').write('go')
            th.join(HANG + 5)
            o, x, dur = out.get('r', ('hang', None, HANG))
            if o == 'hang':
                res.violation(case, 'the constructor did not return within 10 s')
            elif o == 'returned' and (x.is_alive() or x.has_error is None):
                res.violation(case, 'constructor returned a worker that is neither alive nor definitely dead')
            t1 = time.time()
            while child and os.path.exists(f'/proc/{child}') and open(f'/proc/{child}/stat').read().split()[2] != 'Z' and time.time() - t1 < 10:
                time.sleep(0.1)
            if child and os.path.exists(f'/proc/{child}') and open(f'/proc/{child}/stat').read().split()[2] != 'Z':
                res.violation(case, f'the half-started child process {child} is still running 10 s after the server died: a failed construction left a child behind')
                try:
                    os.kill(child, signal.SIGKILL)
                except OSError:
                    pass
        finally:
            try:
                server.terminate(force=True)
            except Exception:
                pass
            shutil.rmtree(d, ignore_errors=True)


def local_kinds(res, ProcessWorker, ThreadWorker):
    # process kind: child exits before reporting its identity; thread kind: child dies at the very start
    class DiesEarly(ProcessWorker):
        def _run(self):
            os._exit(3)
    DiesEarly.__qualname__ = 'DiesEarly'
    globals()['DiesEarly'] = DiesEarly
    DiesEarly.__module__ = __name__
    o, x, d = construct(lambda: DiesEarly(st.sq3, args=(2,)))
    res.count('outcome:' + o); res.case(('ProcessWorker', 'child-exits-before-reporting'), nontrivial=True)
    if o == 'hang':
        res.violation(dict(case=['ProcessWorker', 'child exits before reporting']), 'the constructor did not return')
    elif o == 'returned' and (x.is_alive() or x.has_error is None):
        res.violation(dict(case=['ProcessWorker', 'child exits before reporting']), 'constructor returned a worker that is neither alive nor definitely dead')

    class ThreadDiesEarly(ThreadWorker):
        def _run(self):
            raise SystemExit()
    o, x, d = construct(lambda: ThreadDiesEarly(st.sq3, args=(2,)))
    res.count('outcome:' + o); res.case(('ThreadWorker', 'child-dies-before-startup-event'), nontrivial=True)
    if o == 'hang':
        res.violation(dict(case=['ThreadWorker', 'child dies before the start-up event']), 'the constructor did not return')
    # exception landing on the first lines of the real ThreadWorker._run
    from harness.props import c01
    for p in range(0, 6):
        o, x, d = construct(lambda: c01.run_thread(False, 'TReturn', [(p, 'AWTE')]))
        res.count('outcome:thread-early-' + o); res.case(('ThreadWorker', 'exception-at-line', p), nontrivial=True)
        if o == 'hang':
            res.violation(dict(case=['ThreadWorker', 'exception on line event', p]), 'the constructor did not return')
    return None
