"""C14 (and C15 through main(..., with_patches=True)): remote_pickle's load-time machinery.
T-B: real remote_pickle.dumps/loads on generated graphs of opt-in and plain objects against
Pickle/State.v; the oracle is the specification of C14/C15 itself."""
import json
import logging
import os
import random
import threading

from harness import core, pickle_graphs as pg

PROP = 'C14'
PROOFS = ['theories/Pickle/StateLoops.v', 'theories/Pickle/StateSteps.v', 'theories/Pickle/StateProofs.v', 'theories/Pickle/Announce.v']
HEADER = 'From PW Require Import Pickle.State Pickle.StateRun.\nOpen Scope Z_scope.\n'


def canon(obj, seen):
    if isinstance(obj, (pg.OptBase, pg.OptNoSet)):
        i = obj.__dict__.get('_id')
        if id(obj) in seen:
            return ('ref', i)
        seen[id(obj)] = True
        return ('opt', i, sorted((pg.name_key(k), canon(v, seen)) for k, v in obj.__dict__.items() if k != '_id'))
    if isinstance(obj, pg.PlainObj):
        return ('pobj', sorted((pg.name_key(k), canon(v, seen)) for k, v in obj.__dict__.items()))
    if isinstance(obj, list):
        return ('lst', [canon(x, seen) for x in obj])
    if isinstance(obj, dict):
        return ('dict',)
    return ('atom', obj)


def canon_term(t):
    if t[0] == 'opt':
        return ('opt', t[1], sorted((k, canon_term(v)) for k, v in t[3]))
    if t[0] == 'pobj':
        return ('pobj', sorted((k, canon_term(v)) for k, v in t[1]))
    if t[0] == 'lst':
        return ('lst', [canon_term(x) for x in t[1]])
    return t


def known_matcher(kf, case):
    return bool(set(kf.get('domain_any_of', [])) & set(case.get('features', [])))


SHAPES = [
    ('opt', 0, True, [(1, ('atom', 5))]),
    ('opt', 0, True, [(1, ('opt', 1, True, [(2, ('atom', 3))]))]),
    ('opt', 0, True, [(1, ('opt', 1, True, [(1, ('opt', 2, True, [(1, ('opt', 3, True, []))]))]))]),
    ('opt', 0, True, [(1, ('opt', 1, True, [])), (2, ('opt', 2, True, []))]),                       # two siblings
    ('opt', 0, True, [(1, ('opt', 1, True, [])), (2, ('opt', 2, True, [])), (3, ('opt', 3, True, []))]),
    ('opt', 0, True, [(1, ('lst', [('opt', 1, True, []), ('opt', 2, True, [])]))]),                 # container-held
    ('lst', [('opt', 0, True, [(1, ('atom', 1))]), ('opt', 1, True, [(1, ('atom', 2))])]),           # top-level container
    ('opt', 0, True, [(1, ('opt', 1, True, [(2, ('ref', 0))]))]),                                   # cycle
    ('lst', [('opt', 0, True, []), ('pobj', [(1, ('ref', 0))]), ('lst', [('ref', 0)])]),             # shared between holders
    ('opt', 0, True, [(1, ('opt', 1, True, [])), (2, ('ref', 1))]),                                 # same child under two names
    ('opt', 0, False, [(1, ('atom', 1))]),                                                          # no __setstate__
    ('opt', 0, True, [(1, ('pobj', [(1, ('opt', 1, True, [(3, ('atom', 9))]))]))]),                 # held by a plain object
    ('pobj', [(1, ('opt', 0, True, [(1, ('opt', 1, True, []))]))]),
    ('opt', 0, True, [(1, ('opt', 1, True, [])), (2, ('lst', [('opt', 2, True, []), ('opt', 3, False, [])])), (3, ('opt', 4, True, [(1, ('opt', 5, True, []))])),
                      (4, ('pobj', [(1, ('opt', 6, True, []))])), (5, ('ref', 1)), (6, ('ref', 1))]),       # everything at once
    ('opt', 0, True, [(1, ('opt', 1, True, [(7, ('opt', 2, True, [(3, ('atom', 1))]))])), (2, ('ref', 2))]),   # first occurrence inside an earlier attribute (known finding)
    ('opt', 0, True, [(1, ('opt', 1, True, [(3, ('atom', 9))])), (2, ('opt', 2, True, [(5, ('ref', 1))]))]),   # child only referred to (known finding with a dict patch)
]
# patch dictionaries that go with the last two shapes when patches are in play
SHAPE_PATCHES = {len(SHAPES) - 2: {1: {3: 11}, 2: {3: 22}}, len(SHAPES) - 1: {2: {5: {3: 7}}}}


def one_call(term, pt):
    """returns (observation, [coq terms])"""
    data, get_log = pg.dump_term(term)
    real = pg.real_patches(pt) if pt is not None else None
    before = pg.snapshot(real) if real is not None else None
    ob = pg.run_loads(data, real, {})
    after = pg.snapshot(real) if real is not None else None
    exp = f'(XErr {pg.ERRMAP.get(ob["err"], "EIndex")})' if ob['err'] else f'(XOk {pg.coq_restored(ob["restored"])})'
    ts = [f'check_load ({pg.coq_node(term)}) {pg.coq_pdict(pt)} {exp}']
    # the dump side: which instances the pickler announced, with which children names (ids in pickling order)
    ids = pg.opt_ids(term)
    if len(ids) == len(ob['recreates']):
        rec = '[' + '; '.join(f'({i}%nat, [{"; ".join(map(str, names))}], {"true" if flag else "false"})' for i, (names, flag) in zip(ids, ob['recreates'])) + ']'
        ts.append(f'check_dump ({pg.coq_node(term)}) {rec}')
    # the restored states against the SPECIFICATION the theorems are about (Pickle/State.v: spec), not only against the
    # machine - outside the domains of the known findings, where the specification and the code knowingly differ
    if not ob['err'] and not pg.features(term, pt):
        ts.append(f'check_spec ({pg.coq_node(term)}) {pg.coq_pdict(pt)} {pg.coq_restored(ob["restored"])}')
    return dict(ob, get_log=get_log, heap_before=before, heap_after=after), ts


def oracle(term, pt, ob, with_patches):
    """C14 (+ C15 when patches are used), stated directly."""
    ids = pg.opt_ids(term)
    if ob['err']:
        return f'remote_pickle.loads raised {ob["err"]}'
    got = sorted(ob['get_log'])
    if got != sorted((i, True) for i in ids):
        return f'__getstate__ calls {got}: expected exactly one call with remote=True per opt-in instance {ids}'
    spec = pg.spec_states(term, pt or {})
    seen = {}
    for i, fields in ob['restored']:
        if i in seen:
            return f'opt-in instance {i} restored twice'
        seen[i] = True
        want = spec.get(i)
        gotf = {k: (('patchdict',) if r[0] == 'dict' else r) for k, r in fields}
        if gotf != want:
            return f'instance {i} restored with state {gotf}, the specification gives {want}'
    if sorted(seen) != sorted(ids):
        return f'instances restored through __setstate__: {sorted(seen)}, expected {sorted(ids)}'
    if not pt and canon(ob['back'], {}) != canon_term(term):
        return 'the loaded graph does not have the shape of the dumped one'
    if with_patches and ob['heap_before'] != ob['heap_after']:
        return f'the caller\'s patch dictionaries were modified by loads: {ob["heap_before"]} -> {ob["heap_after"]}'
    return None


def main(tier, seed, replay=None, prop=PROP, with_patches=False):
    logging.disable(logging.CRITICAL)
    res = core.Result(prop, tier, seed)
    res.rule = ('hand-picked shapes (top-level, chains to depth 4, 2 and 3 siblings, container-held, top-level container, cycle, shared between '
                'holders, same child under two names, no __setstate__, held by a plain object, all of these at once, the two shapes of the known findings), seeded random graphs with up to 4 opt-in instances '
                '(containers, plain holders, memo references, cycles) and chains of depth 1-5'
                + ('; each with seeded patch dictionaries (top-level keys, existing / non-existing children, nested, reused between calls), call '
                   'histories of 2-4 loads on one thread including failing calls, each call compared with the same call on a fresh thread, and 4 '
                   'concurrent threads' if with_patches else '') +
                '. Non-trivial = at least two opt-in instances or a patch; distinct = distinct (graph term, patch term).')
    res.assumptions = ['pickle restores an object by calling the reduce callable first, then unpickling the state, then BUILD (__setstate__): the event order of Pickle/State.v',
                       'states of opt-in objects are dicts (non-dict states are exercised by the harness only)']
    res.trusted.append('hand-written machine and pickler bookkeeping Pickle/State.v (pinned to state.py / remote_reduce by tools/pin.py; the announcements it predicts are compared with the reduce callables and children_names the real pickler emits); harness/pickle_graphs.py')
    # the opt-in decision itself (SupportRemoteGetStateMeta.__check_type_cached, regenerated into Gen/MroScan.v and
    # characterised in Pickle/MroProofs.v) decides WHICH instances have their state taken with remote=True
    core.prove(res, prop, ['MroScan'], PROOFS + ['theories/Pickle/MroProofs.v'], run_files=['theories/Pickle/StateRun.v'])
    import sys
    sys.path.insert(0, core.REPO)
    rnd = random.Random(seed)
    cases = [(t, None) for t in SHAPES]
    n = 400 if tier == 'quick' else 4000
    for _ in range(n):
        cases.append((pg.gen_term(rnd), None))
    for _ in range(n // 4):
        cases.append((pg.gen_chain(rnd, rnd.randint(1, 5)), None))
    if with_patches:
        pc = []
        for i, (t, _) in enumerate(cases[:len(SHAPES)] + cases[len(SHAPES):len(SHAPES) + n // 2]):
            pc.append((t, SHAPE_PATCHES[i] if i in SHAPE_PATCHES else pg.gen_patches(rnd, t, deep=rnd.random() < 0.3)))
        for _ in range(n // 2):
            t = pg.gen_chain(rnd, rnd.randint(1, 4))
            pc.append((t, pg.gen_patches(rnd, t, deep=rnd.random() < 0.3)))
        cases = pc
    terms, keep = [], []
    for term, pt in cases:
        ob, cts = one_call(term, pt)
        feats = sorted(pg.features(term, pt))
        res.count('graph:' + term[0]); res.count('outcome:' + (ob['err'] or 'ok'))
        for f in feats:
            res.count('domain:' + f)
        res.case((repr(term), repr(pt)), nontrivial=len(pg.opt_ids(term)) >= 2 or bool(pt),
                 sample=dict(graph=pg.coq_node(term)[:160], patches=repr(pt)[:80], outcome=ob['err'] or 'ok', restored=ob['restored'][:2]))
        why = oracle(term, pt, ob, with_patches)
        if why:
            res.violation(dict(term=repr(term), patches=repr(pt), features=feats), why, observed=dict(err=ob['err'], restored=ob['restored']),
                          finding_matcher=known_matcher)
        for ct in cts:
            terms.append(ct); keep.append((term, pt, ob))
    direct_probes(res)
    if with_patches:
        histories(res, rnd, tier)
    bad, err = core.coq_eval_cases(prop, HEADER, terms, per_file=200)
    res.traces_validated = len(terms) - len(bad)
    if err:
        res.tie('correspondence:coq-eval', err)
    for i in bad[:10]:
        term, pt, ob = keep[i]
        res.tie('correspondence:loads', dict(term=repr(term), patches=repr(pt), implementation=dict(err=ob['err'], restored=ob['restored'], heap_after=ob['heap_after']), coq=terms[i][:1500]))
    return res.finish()


class FalsyState:
    """opt-in class whose remote state is falsy but not None"""
    STATE = {}
    calls = []

    def __getstate__(self, remote=False):
        return type(self).STATE

    def __setstate__(self, st):
        FalsyState.calls.append(st)


def direct_probes(res):
    """shapes the term language cannot express: falsy states, overlapping loads on two threads"""
    import pickle
    from pyworkers import remote_pickle
    for st in ({}, 0, (), ''):
        FalsyState.STATE = st
        del FalsyState.calls[:]
        pickle.loads(pickle.dumps(FalsyState()))
        want = list(FalsyState.calls)
        del FalsyState.calls[:]
        try:
            o = remote_pickle.loads(remote_pickle.dumps(FalsyState()))
            got = list(FalsyState.calls)
            leftover = '__setstate__' in vars(o)
        except BaseException as e:   # noqa
            got, leftover = type(e).__name__, False
        res.count('probe:falsy-state'); res.case(('falsy', repr(st)), nontrivial=True)
        if got != want or leftover:
            res.violation(dict(probe='falsy state', state=repr(st), features=[]),
                          f'opt-in object with remote state {st!r}: __setstate__ calls {got} (standard unpickling: {want}), load-time hook left on the instance: {leftover}',
                          finding_matcher=known_matcher)
    # the opt-in decision for classes with several bases, some of them classified before the class itself exists
    # (a marker base without a remote-aware __getstate__; a plain mix-in that went through remote_pickle earlier)
    from pyworkers.remote_pickle import SupportRemoteGetState
    calls = []

    class Aware:
        def __getstate__(self, remote=False):
            calls.append(remote)
            return dict(self.__dict__)

        def __setstate__(self, st):
            self.__dict__.update(st)

    class MarkerMixin(SupportRemoteGetState):
        pass

    class PlainMixin:
        pass
    for nm, c in (('Aware', Aware), ('MarkerMixin', MarkerMixin), ('PlainMixin', PlainMixin)):
        c.__qualname__ = 'Probe' + nm; c.__module__ = pg.__name__; setattr(pg, 'Probe' + nm, c)
    remote_pickle.dumps([PlainMixin(), MarkerMixin()])          # both mix-ins are classified now
    for bases in ((MarkerMixin, Aware), (PlainMixin, Aware), (Aware, MarkerMixin), (Aware, PlainMixin), (PlainMixin, MarkerMixin, Aware)):
        nm = 'ProbeMI_' + '_'.join(b.__qualname__ for b in bases)
        try:
            cls = type(nm, bases, {'__module__': pg.__name__})
        except Warning:
            continue
        cls.__qualname__ = nm; setattr(pg, nm, cls)
        del calls[:]
        o = cls(); o.x = 1
        try:
            back = remote_pickle.loads(remote_pickle.dumps([o, o, {'k': o}]))
            got = list(calls)
            ok = got == [True] and back[0].x == 1 and back[0] is back[1] is back[2]['k']
        except BaseException as e:   # noqa
            got, ok = type(e).__name__, False
        res.count('probe:multiple-inheritance'); res.case(('mi', nm), nontrivial=True)
        if not ok:
            res.violation(dict(probe='opt-in class with several bases', bases=[b.__qualname__ for b in bases], features=[]),
                          f'instance of class({", ".join(b.__qualname__ for b in bases)}) - a remote-aware __getstate__ is inherited: __getstate__ called with remote={got}, expected exactly [True]',
                          finding_matcher=known_matcher)
    # two loads overlapping in time on two threads
    gate, inside = threading.Event(), threading.Event()

    class Slow(pg.OptBase):
        def __setstate__(self, st):
            if st.get('fslow'):
                inside.set(); gate.wait(5)
            super().__setstate__(st)
    Slow.__qualname__ = 'Slow'; Slow.__module__ = pg.__name__; pg.Slow = Slow
    a = pg.OptBase(); a._id = 0; b = pg.OptBase(); b._id = 1; c = Slow(); c._id = 2; c.fslow = 1
    a.f1 = b; b.f1 = c
    data_slow = remote_pickle.dumps(a)
    c.fslow = 0
    data_fast = remote_pickle.dumps(a)
    out = {}

    def t1():
        try:
            out['slow'] = remote_pickle.loads(data_slow, extra_kwargs={'f7': 1}).f7
        except BaseException as e:   # noqa
            out['slow'] = type(e).__name__

    def t2():
        inside.wait(5)
        try:
            out['fast'] = remote_pickle.loads(data_fast, extra_kwargs={'f7': 2}).f7
        except BaseException as e:   # noqa
            out['fast'] = type(e).__name__
        gate.set()
    th = [threading.Thread(target=t1), threading.Thread(target=t2)]
    [x.start() for x in th]; [x.join(20) for x in th]
    res.count('probe:overlapping-threads'); res.case(('overlap',), nontrivial=True)
    if out != {'slow': 1, 'fast': 2}:
        res.violation(dict(probe='two loads overlapping on two threads', features=[]), f'overlapping loads interfere: {out}, expected slow=1 fast=2', finding_matcher=known_matcher)


def histories(res, rnd, tier):
    """C15, second half: every loads call is independent of what happened before on the same thread."""
    from pyworkers import remote_pickle

    def call_in_fresh_thread(term, pt):
        out = {}

        def run():
            out['ob'] = one_call(term, pt)[0]
        th = threading.Thread(target=run); th.start(); th.join()
        return out['ob']

    def failing_call(kind):
        try:
            if kind == 'corrupt':
                data, _ = pg.dump_term(('opt', 0, True, [(1, ('opt', 1, True, []))]))
                remote_pickle.loads(data[:len(data) // 2], extra_kwargs={'f1': {'f9': 1}})
            else:
                class Boom(pg.OptBase):
                    def __setstate__(self, st):
                        raise RuntimeError('boom')
                pg.Boom = Boom
                Boom.__qualname__ = 'Boom'; Boom.__module__ = pg.__name__
                o = pg.OptBase(); o._id = 0; b = Boom(); b._id = 1; o.f1 = b
                remote_pickle.loads(remote_pickle.dumps(o), extra_kwargs={'f1': {'f2': 3}, 'f5': 1})
        except BaseException:   # noqa
            pass

    for _ in range(60 if tier == 'quick' else 600):
        hist = []
        for _ in range(rnd.randint(2, 4)):
            r = rnd.random()
            if r < 0.25:
                hist.append(('fail', rnd.choice(['corrupt', 'setstate'])))
            else:
                t = pg.gen_chain(rnd, rnd.randint(1, 3))
                hist.append(('load', t, pg.gen_patches(rnd, t) if rnd.random() < 0.7 else None))
        res.count('history'); res.case(('history', repr(hist)), nontrivial=True)
        for h in hist:
            if h[0] == 'fail':
                failing_call(h[1])
                continue
            here = one_call(h[1], h[2])[0]
            fresh = call_in_fresh_thread(h[1], h[2])
            if (here['err'], here['restored']) != (fresh['err'], fresh['restored']):
                res.violation(dict(history=repr(hist)[:600], features=[]), 'a loads call behaves differently after earlier calls on the same thread than on a fresh thread',
                              observed=dict(here=(here['err'], here['restored']), fresh=(fresh['err'], fresh['restored'])), finding_matcher=known_matcher)
                break
    # concurrent loads
    t = pg.gen_chain(rnd, 3)
    pts = [pg.gen_patches(rnd, t) for _ in range(4)]
    single = [one_call(t, p)[0] for p in pts]
    for _ in range(5 if tier == 'quick' else 50):
        outs = [None] * 4
        bar = threading.Barrier(4)

        def work(i):
            bar.wait()
            for _ in range(20):
                outs[i] = one_call_threadsafe(t, pts[i])
        ths = [threading.Thread(target=work, args=(i,)) for i in range(4)]
        [x.start() for x in ths]; [x.join() for x in ths]
        res.count('concurrent'); res.case(('concurrent', repr(pts)), nontrivial=True)
        for i in range(4):
            reach = {o[0] for o in outs[i][1]}
            if outs[i] != (single[i]['err'], [r for r in single[i]['restored'] if r[0] in reach]):
                res.violation(dict(concurrent=repr(pts)[:300], features=[]), 'concurrent loads on several threads interfere', observed=dict(got=outs[i], want=single[i]['restored']), finding_matcher=known_matcher)
                return


LOCK = threading.Lock()


def one_call_threadsafe(term, pt):
    """pg.LOG is global: serialise the observation part only around dumps; loads itself runs concurrently."""
    from pyworkers import remote_pickle
    with LOCK:
        data, _ = pg.dump_term(term)
    real = pg.real_patches(pt)
    try:
        back = remote_pickle.loads(data, extra_kwargs=real)
    except BaseException as e:   # noqa
        return (type(e).__name__, [])
    # read the restored states from the objects themselves (the shared LOG is useless here)
    out = []

    def walk(o):
        kids = [v for k, v in o.__dict__.items() if isinstance(v, pg.OptBase)]
        for c in kids:
            walk(c)
        fields = []
        for k, v in o.__dict__.items():
            if k == '_id':
                continue
            fields.append((pg.name_key(k), ('obj', v._id) if isinstance(v, pg.OptBase) else ('dict',) if isinstance(v, dict) else ('atom', v)))
        out.append((o._id, fields))
    walk(back)
    return (None, out)
