"""C17: restart() always yields a fresh, equivalent, live worker - or raises.
T-B (1) the REAL PersistentWorker.restart on real persistent process/thread worker objects with a scripted child
(harness/life.py), after every short history of control operations and kills, against PoolLife/Model.v [restart_w];
(2) real workers (thread, process; thorough: remote) restarted 1-3 times from the states the property lists
(never used, results unread, inputs queued, closed, died by exception, killed, uncooperative), with and without a
caller-supplied results pipe: liveness, identity, equivalence, counter, emptiness of the new stream, old child gone."""
import itertools
import logging
import os
import queue
import signal
import sys
import time

from harness import core, life

PROP = 'C17'
PROOFS = ['theories/PoolLife/Proofs.v']
HEADER = 'From PW Require Import Ctrl.Model Ctrl.Run PoolLife.Model PoolLife.Run.\n'
CLASSES = ['Coop', 'Swallows', 'BlockedC', 'GilHeld', 'Stopped']
PRE = [('IsAlive',), ('Wait', 'TFin'), ('Terminate', 'TFin', False), ('Terminate', 'TFin', True), ('Close',), ('kill',)]


def play_restart(kind, cls, pre):
    from pyworkers.utils import Pipe
    env = life.Env()
    cmap = life.classes(env)
    life.mark_thread_terminate(cmap)
    env.plan = [(0, cls)]
    viol = []
    with life.patched(env):
        opts = dict(args=[7], name='w0', userid=42) if len(pre) % 2 == 0 else dict(args=[7], name='w0', userid=0, init_state=0, set_names=False)
        w = cmap[kind](lambda x: x, **opts)
        child, log, _ = env.children[0]
        for op in pre:
            if op[0] == 'IsAlive':
                w.is_alive()
            elif op[0] == 'Wait':
                w.wait(timeout=life.TFIN)
            elif op[0] == 'Terminate':
                w.terminate(timeout=life.TFIN, force=op[2] and kind != 'KPersistentThread')
            elif op[0] == 'Close':
                w.close()
            else:
                child.kill()
        env.plan = [(1, 'Coop')]
        old_id = w.id
        try:
            w.restart(timeout=life.TFIN)
            returned = True
        except RuntimeError:
            returned = False
        if returned:
            if child.alive:
                viol.append('restart() returned although the old child is still running: abandoned and replaced')
            if not w.is_alive():
                viol.append('restart() returned a worker which is not alive')
            if w.id == old_id:
                viol.append('restart() returned but the identity did not change')
            got = dict(args=w._args, name=w.name, userid=w.userid)
            if 'set_names' in opts:
                got.update(init_state=w._user_state, set_names=w._set_names)
            if got != opts:
                viol.append(f'restart() changed the constructor options: {got} (constructed with {opts})')
        else:
            if not child.alive:
                viol.append('restart() raised although the old child is gone')
            if w.id != old_id or getattr(w, '_child', None) is not child:
                viol.append('restart() raised but the worker no longer refers to its old child')
    from pyworkers.worker import Worker
    Worker._active_children[:] = []
    return returned, child.alive, list(log), viol


def coq_pre(op, kind):
    if op[0] == 'kill':
        return 'PKillChild'
    if op[0] == 'IsAlive':
        return 'POp IsAlive'
    if op[0] == 'Close':
        return 'POp Close'
    if op[0] == 'Wait':
        return 'POp (Wait TFin)'
    force = op[2] and kind != 'KPersistentThread'
    return f'POp (Terminate TFin {"true" if force else "false"})'


# ---------------------------------------------------------------- real workers
def sq(x, k=1):
    return x * x * k


def poison(x, k=1):
    if x == 13:
        raise ValueError('poison')
    return x * x * k


def slow(x, k=1):
    time.sleep(0.15)
    return x * x * k


def uncooperative(x, k=1):
    t0 = time.time()
    while time.time() - t0 < 60:
        try:
            time.sleep(0.01)
        except Exception:
            pass
    return x


class Unloadable:
    """a result the parent cannot rebuild: the stream of a remote worker ends there although the child carries on"""

    def __reduce__(self):
        return (_refuse_to_load, ())


def _refuse_to_load():
    raise RuntimeError('cannot be rebuilt on this side')


def unloadable_then_busy(x, k=1):
    if x == 1:
        return Unloadable()
    t0 = time.time()
    while time.time() - t0 < 60:       # interruptible: a graceful terminate ends it
        time.sleep(0.01)
    return x


class SlowToReceive:
    """a result which takes a while to rebuild on the parent side"""

    def __init__(self, v, delay):
        self.v, self.delay = v, delay

    def __reduce__(self):
        return (_slow_value, (self.v, self.delay))


def _slow_value(v, delay):
    time.sleep(delay)
    return ('slow', v)


def slow_results(x, k=1):
    return SlowToReceive(x, 0.5) if x < 100 else x


def remote_restart_while_results_are_still_arriving(res):
    """restart(finite timeout) of a persistent REMOTE worker whose child has finished while the parent's frontend thread still
    needs longer than the timeout to receive what the child left: the new incarnation's stream must never yield anything of the
    old one - or restart() must raise"""
    from pyworkers.persistent_remote import PersistentRemoteWorker
    from pyworkers.remote_server import spawn_server
    server = spawn_server(('127.0.0.1', 0))
    case = dict(real='remote', state='results-still-arriving', restarts=1)
    why = None
    try:
        w = PersistentRemoteWorker(slow_results, name='wname', userid=77, host=server.addr)
        for x in range(8):
            w.enqueue(x)
        old_id = w.id
        raised = None
        try:
            w.restart(timeout=1.5)
        except RuntimeError as e:
            raised = e
        if raised is None:
            stale = []
            t0 = time.time()
            while time.time() - t0 < 4.5:
                try:
                    stale.append(w.next_result(block=False))
                except queue.Empty:
                    time.sleep(0.05)
            if stale:
                why = f'restart() returned, and the new incarnation\'s result stream then yielded {stale[:3]} although nothing was enqueued to it (results of the previous incarnation)'
            elif not w.is_alive() or w.id == old_id:
                why = f'after restart(): alive={w.is_alive()}, identity changed={w.id != old_id}'
            else:
                w.enqueue(100); w.enqueue(101)
                got = drain(w, 2, timeout=10)
                if got != [100, 101]:
                    why = f'after the restart the worker answered {got} to inputs [100, 101]'
        try:
            w.terminate(timeout=2, force=True)
        except Exception:
            pass
    except Exception as e:   # noqa
        import traceback
        why = f'scenario raised {type(e).__name__}: {e} {traceback.format_exc()[-300:]}'
    finally:
        try:
            server.terminate(force=True)
        except Exception:
            pass
    res.count('real:remote:results-still-arriving'); res.case(('real', 'remote', 'results-still-arriving'), nontrivial=True, sample=dict(case, outcome=why or 'ok'))
    if why:
        res.violation(case, why)


def remote_outcome_known_child_busy(res):
    """restart() of a persistent REMOTE worker whose final outcome is already known on the parent side (its result stream
    broke on a result that cannot be rebuilt) while the child is still busy with a queued input: the old child must be
    stopped before the new incarnation is returned - or restart() must raise."""
    from pyworkers.persistent_remote import PersistentRemoteWorker
    from pyworkers.remote_server import spawn_server
    server = spawn_server(('127.0.0.1', 0))
    case = dict(real='remote', state='outcome-known-child-busy', restarts=1)
    why = None
    try:
        w = PersistentRemoteWorker(unloadable_then_busy, name='wname', userid=77, host=server.addr)
        w.enqueue(1); w.enqueue(2)
        t0 = time.time()
        while w._child.is_alive() and time.time() - t0 < 10:     # the frontend thread ends on the broken result
            time.sleep(0.02)
        old_id, old_pid, was_alive = w.id, w.pid, w.is_alive()
        raised = None
        try:
            w.restart(timeout=0.5)
        except RuntimeError as e:
            raised = e
        if raised is not None:
            if not w.is_alive() or w.id != old_id:
                why = f'restart raised {raised!r} but the old incarnation is no longer the live registered child'
        else:
            t1 = time.time()
            while not pid_gone(old_pid) and time.time() - t1 < 3:
                time.sleep(0.05)
            if not pid_gone(old_pid):
                why = f'restart() returned although the old child process {old_pid} is still running (it was alive before: {was_alive}): abandoned and replaced'
            elif not w.is_alive() or w.id == old_id:
                why = f'after restart(): alive={w.is_alive()}, identity changed={w.id != old_id}'
            if not pid_gone(old_pid):
                try:
                    os.kill(old_pid, signal.SIGKILL)
                except OSError:
                    pass
        try:
            w.terminate(timeout=2, force=True)
        except Exception:
            pass
    except Exception as e:   # noqa
        import traceback
        why = f'scenario raised {type(e).__name__}: {e} {traceback.format_exc()[-300:]}'
    finally:
        try:
            server.terminate(force=True)
        except Exception:
            pass
    res.count('real:remote:outcome-known-child-busy'); res.case(('real', 'remote', 'outcome-known-child-busy'), nontrivial=True, sample=dict(case, outcome=why or 'ok'))
    if why:
        res.violation(case, why)


def pid_gone(pid):
    try:
        return open(f'/proc/{pid}/stat').read().split()[2] == 'Z'
    except OSError:
        return True


def drain(w, n, timeout=5):
    out = []
    t0 = time.time()
    while len(out) < n and time.time() - t0 < timeout:
        try:
            # (PipeEndpoint.get ignores its timeout: poll without blocking)
            out.append(w.next_result(block=False))
        except queue.Empty:
            if not w.is_alive():
                try:
                    out.append(w.next_result(block=False))
                except queue.Empty:
                    break
            time.sleep(0.02)
    return out


def real_restarts(res, tier):
    from pyworkers.persistent_thread import PersistentThreadWorker
    from pyworkers.persistent_process import PersistentProcessWorker
    from pyworkers.utils import Pipe, LocalPipe
    kinds = [('thread', PersistentThreadWorker, {}), ('process', PersistentProcessWorker, {})]
    server = None
    if tier == 'thorough':
        from pyworkers.persistent_remote import PersistentRemoteWorker
        from pyworkers.remote_server import spawn_server
        server = spawn_server(('127.0.0.1', 0))
        kinds.append(('remote', PersistentRemoteWorker, dict(host=server.addr)))
    states = ['never-used', 'results-unread', 'inputs-queued', 'closed', 'died-by-exception', 'killed', 'uncooperative']
    try:
        for kname, cls, kw in kinds:
            for state in states:
                for own_pipe in (False, True):
                    for nrestarts in ((1, 3) if tier == 'thorough' else (2,)):
                        if state == 'killed' and kname == 'thread':
                            continue
                        target = {'died-by-exception': poison, 'inputs-queued': slow, 'uncooperative': uncooperative}.get(state, sq)
                        mkpipe = (lambda: Pipe()) if kname != 'thread' else (lambda: Pipe())
                        case = dict(real=kname, state=state, caller_pipe=own_pipe, restarts=nrestarts)
                        why = None
                        try:
                            w = cls(target, kwargs={'k': 2}, name='wname', userid=77, **({'results_pipe': mkpipe()} if own_pipe else {}), **kw)
                        except Exception as e:   # noqa
                            res.violation(case, f'could not create the worker: {type(e).__name__}: {e}')
                            continue
                        try:
                            for r in range(nrestarts):
                                old_id, old_pid = w.id, w.pid
                                # bring the worker into the state
                                if state == 'results-unread':
                                    w.enqueue(3); w.enqueue(4); time.sleep(0.3)
                                elif state == 'inputs-queued':
                                    for x in (1, 2, 3):
                                        w.enqueue(x)
                                elif state == 'closed':
                                    w.enqueue(5); w.close(); time.sleep(0.2)
                                elif state == 'died-by-exception':
                                    w.enqueue(13); time.sleep(0.4)
                                elif state == 'killed':
                                    w.enqueue(6); time.sleep(0.2)
                                    if kname == 'process':
                                        os.kill(w.pid, signal.SIGKILL)
                                    else:
                                        w.terminate(timeout=1)
                                    time.sleep(0.2)
                                elif state == 'uncooperative':
                                    w.enqueue(1); time.sleep(0.3)
                                t0 = time.time()
                                raised = None
                                try:
                                    if own_pipe:
                                        w.restart(timeout=0.5, results_pipe=mkpipe())
                                    else:
                                        w.restart(timeout=0.5)
                                except RuntimeError as e:
                                    raised = e
                                dur = time.time() - t0
                                if raised is not None:
                                    # allowed only if the old incarnation really cannot be stopped - and it must still be there
                                    if not (state == 'uncooperative' and kname == 'thread'):
                                        why = f'restart #{r + 1} raised {raised!r} although the old incarnation can be stopped'
                                    elif not w.is_alive() or w.id != old_id:
                                        why = f'restart #{r + 1} raised but the old incarnation is no longer the live registered child'
                                    break
                                if state == 'uncooperative' and kname == 'thread':
                                    why = f'restart #{r + 1} returned although the old thread cannot be stopped (abandoned and replaced)'
                                    break
                                if not w.is_alive():
                                    why = f'restart #{r + 1}: worker not alive afterwards'
                                    break
                                if kname != 'thread' and (w.id == old_id):
                                    why = f'restart #{r + 1}: identity unchanged for a {kname} worker'
                                    break
                                if kname != 'thread' and not pid_gone(old_pid) and old_pid != os.getpid() and kname == 'process':
                                    why = f'restart #{r + 1}: the old child process {old_pid} is still running'
                                    break
                                if (w.name, w.userid, w._target, w._kwargs) != ('wname', 77, target, {'k': 2}):
                                    why = f'restart #{r + 1}: name/userid/target/defaults changed: {(w.name, w.userid, w._target, w._kwargs)}'
                                    break
                                # the new stream is empty and never yields results of the previous incarnation
                                try:
                                    time.sleep(0.25)
                                    stale = w.next_result(block=False)
                                    why = f'restart #{r + 1}: the new result stream yielded {stale!r} before anything was enqueued'
                                    break
                                except queue.Empty:
                                    pass
                            if why is None and raised is None:
                                # equivalence + counter from zero: two fresh inputs, then wait -> result == 2
                                if state not in ('uncooperative',):
                                    xs = [21, 22] if target is not poison else [21, 22]
                                    for x in xs:
                                        w.enqueue(x)
                                    got = drain(w, 2)
                                    exp = [target(x, k=2) for x in xs] if target is not slow else [x * x * 2 for x in xs]
                                    if got != exp:
                                        why = f'after the restarts the worker answered {got} to inputs {xs}, expected {exp}'
                                    ok = w.wait(timeout=5)
                                    if why is None and (not ok or w.result != 2):
                                        why = f'after the restarts wait() -> {ok}, result counter {w.result!r} (expected 2: the counter starts from zero)'
                        except Exception as e:   # noqa
                            import traceback
                            why = why or f'history raised {type(e).__name__}: {e} {traceback.format_exc()[-300:]}'
                        finally:
                            try:
                                if kname != 'thread' or state != 'uncooperative':
                                    w.terminate(timeout=1)
                                else:
                                    w.terminate(timeout=0.1)
                            except Exception:
                                pass
                        res.count(f'real:{kname}:{state}'); res.case(('real', kname, state, own_pipe, nrestarts), nontrivial=True,
                                                                      sample=dict(case, outcome=why or 'ok'))
                        if why:
                            res.violation(case, why)
    finally:
        if server is not None:
            try:
                server.terminate(force=True)
            except Exception:
                pass


def main(tier, seed, replay=None):
    logging.disable(logging.CRITICAL)
    core.quiet_stderr(PROP)
    res = core.Result(PROP, tier, seed)
    res.rule = ('(1) every history of length <= 2 (quick) / 3 (thorough) over {is_alive, wait, terminate without/with force, close, external kill} x 5 child classes x '
                '{persistent process, persistent thread} followed by restart(finite timeout), on the real worker objects with a scripted child: returned or raised, '
                'old child alive or gone, blocking calls - compared with the model; (2) real thread and process workers (thorough: and remote workers) brought into the 7 states '
                'the property lists, restarted 2 (thorough: 1 and 3) times with and without a caller-supplied results pipe, then used again. '
                'Non-trivial = the old child is alive when restart() is called.')
    res.assumptions = ['ids handed out by the OS are fresh', 'reaction table of the child classes (Ctrl/Model.v)', 'finite restart timeout (timeout=None on an uncooperative target blocks by design)',
                       'the emptiness of the new result stream and the counter starting from zero are consequences of __init__ creating a new pipe and a new child; they are exercised on real workers, not modelled']
    res.trusted.append('hand-written model PoolLife/Model.v [restart_w]; scripted children (harness/life.py)')
    core.prove(res, PROP, ['Restart'], PROOFS + ['theories/PoolLife/Restart.v'], run_files=['theories/PoolLife/Run.v'])
    sys.path.insert(0, core.REPO)
    terms, keep = [], []
    L = 2 if tier == 'quick' else 3
    for kind in ('KPersistentProcess', 'KPersistentThread'):
        for cls in CLASSES:
            for n in range(0, L + 1):
                for pre in itertools.product(PRE, repeat=n):
                    if kind == 'KPersistentThread' and any(o[0] == 'Terminate' and o[2] for o in pre):
                        continue
                    returned, old_alive, log, viol = play_restart(kind, cls, pre)
                    res.count(kind); res.count('class:' + cls); res.count('returned' if returned else 'raised')
                    res.case((kind, cls, pre), nontrivial=not any(o[0] == 'kill' for o in pre),
                             sample=dict(kind=kind, child=cls, before=[' '.join(map(str, o)) for o in pre], restart='returned' if returned else 'raised RuntimeError',
                                         old_child_alive=old_alive, blocking=len(log)))
                    for v in viol[:1]:
                        res.violation(dict(kind=kind, child=cls, pre=[list(o) for o in pre]), v)
                    terms.append(f'check_restart_pre {kind} {cls} [{"; ".join(coq_pre(o, kind) for o in pre)}] TFin '
                                 f'{"true" if returned else "false"} {"true" if old_alive else "false"} {life.blk(log)}')
                    keep.append((kind, cls, pre, returned, old_alive, log))
    bad, err = core.coq_eval_cases(PROP, HEADER, terms, per_file=400)
    res.traces_validated = len(terms) - len(bad)
    if err:
        res.tie('correspondence:coq-eval', err)
    for i in bad[:8]:
        res.tie('correspondence:restart', dict(case=repr(keep[i])[:800], term=terms[i][:800]))
    real_restarts(res, tier)
    remote_outcome_known_child_busy(res)
    remote_restart_while_results_are_still_arriving(res)
    return res.finish()
