"""C07 (and, through the same cases, C08): Pool.run under every schedule and death.
T-B: the real Pool.run driven by harness/sched_pool.py against Pool/Model.v."""
import json
import logging
import os
import random

from harness import core, pool_cases as pc

PROP = 'C07'
HEADER = 'From PW Require Import Pool.Model Pool.Run.\nOpen Scope Z_scope.\n'
PROOFS = ['theories/Pool/Inv.v']

QUICK_DFS = [  # (nw, ni, extra, maxdeaths, retry)
    (1, 3, 1, 1, True), (2, 3, 0, 2, True), (2, 4, 1, 2, True), (2, 5, 1, 1, True), (3, 3, 0, 2, True),
    (2, 3, 1, 2, False), (2, 4, 0, 2, False),
]
THOROUGH_DFS = QUICK_DFS + [
    (2, 5, 1, 2, True), (2, 5, 2, 2, True), (3, 4, 1, 2, True), (3, 5, 0, 2, True), (2, 6, 2, 2, True),
    (3, 4, 1, 2, False), (2, 5, 2, 2, False), (3, 4, 0, 3, True),
]


def known_matcher(kf, case):
    return kf.get('domain') == case.get('domain')


def collect(tier, seed, res, oracles):
    """Runs corpus + exhaustive + random cases on the implementation; returns coq terms."""
    logging.disable(logging.CRITICAL)
    rnd = random.Random(seed)
    terms, keep = [], []

    def handle(case, out, d, kind):
        res.count('kind:' + kind); res.count('outcome:' + out[0])
        deaths = sum(1 for t in case['script'] if t[0] in ('fail', 'exit'))
        res.count(f'deaths:{deaths}')
        canon = (case['nw'], tuple(case['inputs']), case['extra'], case['retry'], case.get('rr', True), tuple(case['script']),
                 tuple(map(tuple, case.get('refs') or ())), tuple(case.get('pre_closed') or ()))
        res.case(canon, nontrivial=(deaths > 0 or bool(case.get('refs'))),
                 sample=dict(workers=case['nw'], inputs=case['inputs'], extra=case['extra'], retry=case['retry'],
                             script=[' '.join(map(str, t)) for t in case['script']], outcome=list(out)))
        for orc in oracles:
            why = orc(case, out, d)
            if why:
                c = dict(case); c['domain'] = pc.domain(case)
                c['script'] = [list(t) for t in case['script']]
                res.violation(c, why, observed=list(out), finding_matcher=known_matcher)
        t = pc.coq_term(case, out, d)
        if t:
            terms.append(t); keep.append((case, out))

    cdir = os.path.join(core.VERIF, 'corpus', 'pool')
    if os.path.isdir(cdir):
        for fn in sorted(os.listdir(cdir)):
            if fn.endswith('.json'):
                case = json.load(open(os.path.join(cdir, fn)))
                case['script'] = [tuple(t) for t in case['script']]
                out, d = pc.run(case)
                handle(case, out, d, 'corpus')
    for case, out, d in pc.directed_cases():
        handle(case, out, d, 'directed')
    for (nw, ni, extra, md, retry) in (QUICK_DFS if tier == 'quick' else THOROUGH_DFS):
        lim = 40000 if tier == 'quick' else 400000
        for case, out, d in pc.dfs(nw, ni, extra, md, retry=retry, limit=lim):
            handle(case, out, d, 'dfs')
            if len(res.violations) >= 25:
                break          # enough failing schedules; each spinning run costs a watchdog second
        if len(res.violations) >= 25:
            break
    for _ in range(2000 if tier == 'quick' else 20000):
        if len(res.violations) >= 25:
            break
        case, out, d = pc.random_case(rnd)
        handle(case, out, d, 'random')
    return terms, keep


def _slow_square(x):
    import time
    time.sleep(0.25)
    return x * x


def graceful_close_probe(res, tier, prop='C07'):
    """outside the scripted model: a REAL pool in which a worker is closed gracefully (worker.close() from the worker
    callback) while it still has an accepted input to answer (extra pending 1).  It refuses further input but is not
    dead: the run must still end with exactly one result per input, or PoolError - never an internal error."""
    import collections
    import threading
    from pyworkers.pool import Pool, PoolError
    from pyworkers.worker import WorkerType
    kinds = [WorkerType.THREAD] if tier == 'quick' else [WorkerType.THREAD, WorkerType.PROCESS]
    for kind in kinds:
        for n in (6, 7):
            closed, outcome = [], {}

            def callback(worker, event, *rest):
                if event == 'finished' and worker.userid == 0 and not closed:
                    closed.append(True)
                    worker.close()

            def body():
                p = Pool(_slow_square, name='probe pool')
                try:
                    with p:
                        for i in range(2):
                            p.add_worker(kind, name=f'w{i}', userid=i)
                        outcome['results'] = p.run(iter(range(n)), worker_callback=callback, worker_extra_pending_inputs=1)
                except PoolError:
                    outcome['poolerror'] = True
                except BaseException as e:   # noqa
                    outcome['error'] = f'{type(e).__name__}: {e}'
            t = threading.Thread(target=body, daemon=True)
            t.start(); t.join(60)
            res.count('real-pool:graceful-close:' + kind.name); res.case(('graceful-close', kind.name, n), nontrivial=True)
            why = None
            if t.is_alive():
                why = 'Pool.run did not finish within 60 s'
            elif 'error' in outcome:
                why = f'Pool.run ended with an internal error: {outcome["error"]}'
            elif 'results' in outcome and collections.Counter(outcome['results']) != collections.Counter(x * x for x in range(n)):
                why = f'Pool.run returned {sorted(outcome["results"])} for inputs 0..{n - 1}: not exactly one result per input'
            if prop == 'C08' and not why and 'poolerror' in outcome:
                why = 'Pool.run raised PoolError although worker w1 was never closed, kept working the whole time and retry is enabled'
            if why:
                res.violation(dict(real_pool=kind.name, scenario='worker 0 closed gracefully from the callback of its first result, extra pending 1', inputs=n, domain=None), why,
                              finding_matcher=known_matcher)


def main(tier, seed, replay=None, prop=PROP, oracles=(pc.oracle_c07,), props_file=None, proofs=None):
    res = core.Result(prop, tier, seed)
    res.rule = ('corpus of minimised failing schedules; every schedule (up to commuting environment steps) of the listed small '
                'configurations (workers, inputs, extra pending, max deaths, retry) enumerated depth-first on the real Pool.run with scripted '
                'fake workers on real pipes; seeded random schedules up to 3 workers / 6 inputs / extra 2 / 3 deaths with refusing enqueue_fn, '
                'retry off, return_results off, pre-closed workers. Every node (also the blocked prefixes) is a case, compared with the Coq model; '
                'non-trivial = at least one death or refusal; distinct = distinct (configuration, script).')
    res.assumptions = ['fake persistent workers observe the Worker API contract: enqueue raises iff the process is gone; results, end marker, EOF arrive in FIFO order on a real pipe',
                       'a worker that neither answers nor dies is outside the property (the run is cut off as "blocked")',
                       'in the scripted model workers are not closed by the user while run() is in progress (a real-pool probe covers the graceful close of a busy worker); no worker sends a bare None message']
    res.trusted.append('hand-written model Pool/Model.v (tied to pool.py by differential execution only) and harness/sched_pool.py')
    core.prove(res, prop, [], proofs or PROOFS, props_file=props_file, run_files=['theories/Pool/Run.v'])
    import sys
    sys.path.insert(0, core.REPO)
    if replay:
        c = json.load(open(replay)).get('first', {}).get('case')
        c['script'] = [tuple(t) for t in c['script']]
        out, d = pc.run(c)
        print('replay outcome:', out, {k: d[k] for k in ('alive', 'closed', 'ready')})
        for orc in oracles:
            print('oracle:', orc(c, out, d))
        return 0
    terms, keep = collect(tier, seed, res, oracles)
    graceful_close_probe(res, tier, prop)
    bad, err = core.coq_eval_cases(prop, HEADER, terms, per_file=400)
    res.traces_validated = len(terms) - len(bad)
    if err:
        res.tie('correspondence:coq-eval', err)
    for i in bad[:10]:
        case, out = keep[i]
        res.tie('correspondence:Pool.run', dict(case=dict(case, script=[list(t) for t in case['script']]), implementation=list(out), term=terms[i]))
    return res.finish()
