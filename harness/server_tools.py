"""Tools for the server-side properties (C11, C12, C18, C20): a real server process, recorded
well-formed client byte streams, raw scripted TCP clients that vanish at a chosen offset, a
scripted fake server for the client side of the handshake, process-tree inspection."""
import os
import pickle
import socket
import struct
import threading
import time


def sq3(x, exp=3):
    return x ** exp


def own_target(x, exp=9):
    """a target of its own which a worker created INSIDE a context is given by its creator: the context's target runs, not this one"""
    return ('own', x, exp)


def slow(x, exp=3):
    time.sleep(0.05)
    return x ** exp


def spin(*a, **k):
    while True:
        time.sleep(0.01)


def dig_in(*a, **k):
    """a target which swallows the termination request: it has to be forced (called with 0 it returns at once)"""
    if a and a[0] == 0:
        return 0
    t0 = time.time()
    while time.time() - t0 < 120:
        try:
            time.sleep(0.01)
        except Exception:
            pass


def start_server():
    from pyworkers.remote_server import spawn_server
    s = spawn_server(('127.0.0.1', 0))
    assert s.is_alive(), s.error
    return s


def record_streams(addr):
    """the bytes a well-behaved client writes on its data connection, per request kind: list of framed messages"""
    from pyworkers import remote, remote_context, remote_pickle
    from pyworkers.remote import RemoteWorker
    from pyworkers.persistent_remote import PersistentRemoteWorker
    from pyworkers.remote_context import RemoteContext
    rec = []
    orig = remote.send_msg

    def spy(sock, msg, comment=None):
        data = remote_pickle.dumps(msg)
        rec.append(struct.pack('!I', len(data)) + data)
        return orig(sock, msg, comment)
    remote.send_msg = spy
    remote_context.send_msg = spy
    import pyworkers.persistent_remote as pr
    pr_orig = pr.send_msg
    pr.send_msg = spy
    out = {}
    try:
        del rec[:]
        w = RemoteWorker(sq3, args=(2,), host=addr); w.wait(10)
        out['worker'] = rec[:2]
        del rec[:]
        w = PersistentRemoteWorker(sq3, host=addr)
        out['pworker'] = rec[:2]
        w.wait(10)
        del rec[:]
        ctx = RemoteContext(991, target=sq3, host=addr, kwargs={'exp': 3})
        out['ctx_create'] = rec[:2]
        del rec[:]
        w = PersistentRemoteWorker(None, host=addr, context=991)
        out['worker_ctx'] = rec[:2]
        w.wait(10)
        del rec[:]
        ctx.close()
        out['ctx_delete'] = rec[:2]
    finally:
        remote.send_msg = orig
        remote_context.send_msg = orig
        pr.send_msg = pr_orig
    return out


def record_ctx_worker(addr, ctx_id):
    """the two framed messages a client writes to start a persistent worker inside context ctx_id (the context must exist)"""
    from pyworkers import remote, remote_pickle
    from pyworkers.persistent_remote import PersistentRemoteWorker
    rec = []
    orig = remote.send_msg

    def spy(sock, msg, comment=None):
        data = remote_pickle.dumps(msg)
        rec.append(struct.pack('!I', len(data)) + data)
        return orig(sock, msg, comment)
    remote.send_msg = spy
    try:
        w = PersistentRemoteWorker(None, host=addr, context=ctx_id)
        out = rec[:2]
        w.wait(10)
    finally:
        remote.send_msg = orig
    return out


def raw_session(addr, data, end='fin', read_reply=False, timeout=3.0):
    """connect, write `data`, vanish (FIN or RST).  With read_reply the reply frame is awaited first."""
    s = socket.create_connection(addr, timeout=timeout)
    reply = None
    try:
        if data:
            s.sendall(data)
        if read_reply:
            try:
                hdr = b''
                while len(hdr) < 4:
                    c = s.recv(4 - len(hdr))
                    if not c:
                        break
                    hdr += c
                if len(hdr) == 4:
                    n = struct.unpack('!I', hdr)[0]
                    body = b''
                    while len(body) < n:
                        c = s.recv(n - len(body))
                        if not c:
                            break
                        body += c
                    reply = pickle.loads(body) if len(body) == n else 'cut'
                else:
                    reply = 'closed'
            except (socket.timeout, TimeoutError):
                reply = 'silent'
            except OSError:
                reply = 'closed'
    finally:
        if end == 'rst':
            s.setsockopt(socket.SOL_SOCKET, socket.SO_LINGER, struct.pack('ii', 1, 0))
        s.close()
    return reply


def frame(obj):
    from pyworkers import remote_pickle
    d = remote_pickle.dumps(obj)
    return struct.pack('!I', len(d)) + d


def health(addr):
    """a cheap well-formed request: delete a context that does not exist -> True"""
    try:
        return raw_session(addr, frame((-12345, False)) + frame(None), read_reply=True) is True
    except OSError:
        return False


def full_round_trip(addr):
    from pyworkers.remote import RemoteWorker
    try:
        w = RemoteWorker(sq3, args=(3,), host=addr)
        ok = w.wait(10) and w.result == 27
        return bool(ok)
    except Exception:
        return False


def descendants(pid):
    """pids of all live (non-zombie) descendants of pid"""
    kids = {}
    for p in os.listdir('/proc'):
        if p.isdigit():
            try:
                st = open(f'/proc/{p}/stat').read()
                rest = st[st.rindex(')') + 2:].split()
                state, ppid = rest[0], int(rest[1])
                if state != 'Z':
                    kids.setdefault(ppid, []).append(int(p))
            except (OSError, ValueError):
                pass
    out, todo = [], [pid]
    while todo:
        x = todo.pop()
        for k in kids.get(x, []):
            out.append(k); todo.append(k)
    return out


class FakeServer:
    """plays the server's side of the handshake towards ONE RemoteWorker constructor, cutting one of its two
    messages after `cut` bytes: stage 'addr' = control-address message on the data connection,
    stage 'info' = runtime-info message on the control connection, 'refuse' = control connection refused,
    None = complete handshake (then a result and the user state are sent)."""

    def __init__(self, stage, cut, end='fin'):
        self.stage, self.cut, self.end = stage, cut, end
        self.lsock = socket.socket(); self.lsock.bind(('127.0.0.1', 0)); self.lsock.listen()
        self.addr = self.lsock.getsockname()
        self.thread = threading.Thread(target=self.run, daemon=True)
        self.thread.start()

    def close(self, s):
        try:
            if self.end == 'rst':
                s.setsockopt(socket.SOL_SOCKET, socket.SO_LINGER, struct.pack('ii', 1, 0))
            s.close()
        except OSError:
            pass

    def read_msg(self, s):
        hdr = b''
        while len(hdr) < 4:
            c = s.recv(4 - len(hdr))
            if not c:
                return None
            hdr += c
        n = struct.unpack('!I', hdr)[0]
        body = b''
        while len(body) < n:
            c = s.recv(n - len(body))
            if not c:
                return None
            body += c
        return body

    def run(self):
        try:
            self.lsock.settimeout(15)
            data, _ = self.lsock.accept()
            data.settimeout(15)
            self.read_msg(data); self.read_msg(data)       # header + pickled worker (not unpickled)
            ctrl_l = socket.socket(); ctrl_l.bind(('127.0.0.1', 0))
            if self.stage != 'refuse':
                ctrl_l.listen()
            caddr = ctrl_l.getsockname()
            if self.stage == 'refuse':
                ctrl_l.close()
            msg = frame(caddr)
            if self.stage == 'addr':
                data.sendall(msg[:self.cut]); self.close(data); ctrl_l.close(); return
            data.sendall(msg)
            if self.stage == 'refuse':
                time.sleep(0.5); self.close(data); return
            ctrl_l.settimeout(15)
            ctrl, _ = ctrl_l.accept()
            info = frame(('fakehost', 4242, 4243, 4244))
            if self.stage == 'info':
                ctrl.sendall(info[:self.cut]); self.close(ctrl); time.sleep(0.2); self.close(data); ctrl_l.close(); return
            ctrl.sendall(info)
            data.sendall(frame((True, 'fake result')) + frame(None))
            time.sleep(0.3)
            self.close(data); self.close(ctrl); ctrl_l.close()
        except Exception:
            pass
        finally:
            try:
                self.lsock.close()
            except OSError:
                pass
