import importlib
import os
import sys
import traceback


def main():
    args = sys.argv[1:]
    if not args:
        sys.exit('usage: bin/check <Cxx> [quick|thorough] [--replay FILE]')
    prop = args[0].upper()
    tier = os.environ.get('VERIF_TIER') or 'quick'
    replay = None
    rest = args[1:]
    while rest:
        a = rest.pop(0)
        if a in ('quick', 'thorough'):
            tier = a
        elif a == '--replay':
            replay = rest.pop(0)
    seed = int(os.environ.get('VERIF_SEED', '0') or 0)
    mod = importlib.import_module(f'harness.props.{prop.lower()}')
    try:
        code = mod.main(tier, seed, replay)
    except SystemExit:
        raise
    except BaseException:
        # The machinery met behaviour of the implementation it cannot handle: the tie between model and
        # code is broken in a way the check did not anticipate. Report it as such, never pass silently.
        tb = traceback.format_exc()
        print(tb)
        import hashlib, json
        from harness import core
        os.makedirs(os.path.join(core.VERIF, 'replays'), exist_ok=True)
        path = os.path.join('replays', f'{prop}-crash-{hashlib.sha1(tb.encode()).hexdigest()[:10]}.json')
        json.dump(dict(property=prop, kind='no-failing-input-found', broken=[dict(what='check machinery raised', detail=tb[-3000:])]),
                  open(os.path.join(core.VERIF, path), 'w'), indent=1)
        print(f'VIOLATION property={prop} replay={path} no-failing-input-found')
        code = 1
    sys.stdout.flush()
    os._exit(code)


if __name__ == '__main__':
    main()
