import importlib
import os
import sys
import time
import traceback


def kill_descendants():
    """servers and workers started by a check must not survive it"""
    import signal, subprocess
    try:
        table = subprocess.run(['ps', '-eo', 'pid,ppid'], stdout=subprocess.PIPE, text=True, timeout=10).stdout.split('\n')[1:]
        kids = {}
        for line in table:
            f = line.split()
            if len(f) == 2:
                kids.setdefault(int(f[1]), []).append(int(f[0]))
        todo, seen = [os.getpid()], []
        while todo:
            for k in kids.get(todo.pop(), []):
                seen.append(k); todo.append(k)
        for k in seen:
            try:
                os.kill(k, signal.SIGKILL)
            except OSError:
                pass
    except Exception:
        pass


def watchdog(prop, tier):
    """Safety net: a check that is still running after its time budget has met a call of the implementation that never
    returns at a place where the harness did not expect one.  That is reported - with the stacks of all threads in the
    replay file - and never left hanging."""
    import threading
    limit = float(os.environ.get('VERIF_MAX_S') or (1500 if tier == 'quick' else 4 * 3600))

    def fire():
        import faulthandler, hashlib, io, json, tempfile
        from harness import core
        os.makedirs(os.path.join(core.VERIF, 'replays'), exist_ok=True)
        with tempfile.TemporaryFile('w+') as f:
            faulthandler.dump_traceback(file=f, all_threads=True)
            f.seek(0)
            stacks = f.read()
        path = os.path.join('replays', f'{prop}-hang-{hashlib.sha1(stacks.encode()).hexdigest()[:10]}.json')
        json.dump(dict(property=prop, tier=tier, kind='no-failing-input-found',
                       broken=[dict(what=f'the check did not finish within {limit:.0f} s: some call of the implementation never returned', detail=stacks[-6000:])]),
                  open(os.path.join(core.VERIF, path), 'w'), indent=1)
        print(f'VIOLATION property={prop} replay={path} no-failing-input-found')
        sys.stdout.flush()
        kill_descendants()
        os._exit(1)
    t = threading.Timer(limit, fire)
    t.daemon = True
    t.start()


def main():
    args = sys.argv[1:]
    if not args:
        sys.exit('usage: bin/check <Cxx> [quick|thorough] [--replay FILE]')
    prop = args[0].upper()
    tier = os.environ.get('VERIF_TIER') or 'quick'
    replay = None
    rest = args[1:]
    while rest:
        a = rest.pop(0)
        if a in ('quick', 'thorough'):
            tier = a
        elif a == '--replay':
            replay = rest.pop(0)
    seed = int(os.environ.get('VERIF_SEED', '0') or 0)
    mod = importlib.import_module(f'harness.props.{prop.lower()}')
    watchdog(prop, tier)
    # some fall-backs of the library send SIGTERM to the process which called them (ThreadWorker.terminate(force=True), a remote
    # worker whose control connection is gone): that must not end the check silently - it is counted, the checks look at it
    import signal
    from harness import core

    def on_sigterm(signum, frame):
        core.SIGTERMS_RECEIVED.append(time.time())
        if not core.SIGTERM_GUARD[0]:
            # not inside a scenario that watches for it: somebody wants this check to stop
            kill_descendants()
            os._exit(143)
    signal.signal(signal.SIGTERM, on_sigterm)
    try:
        code = mod.main(tier, seed, replay)
    except SystemExit:
        raise
    except BaseException:
        # The machinery met behaviour of the implementation it cannot handle: the tie between model and
        # code is broken in a way the check did not anticipate. Report it as such, never pass silently.
        tb = traceback.format_exc()
        print(tb)
        import hashlib, json
        from harness import core
        os.makedirs(os.path.join(core.VERIF, 'replays'), exist_ok=True)
        path = os.path.join('replays', f'{prop}-crash-{hashlib.sha1(tb.encode()).hexdigest()[:10]}.json')
        json.dump(dict(property=prop, kind='no-failing-input-found', broken=[dict(what='check machinery raised', detail=tb[-3000:])]),
                  open(os.path.join(core.VERIF, path), 'w'), indent=1)
        print(f'VIOLATION property={prop} replay={path} no-failing-input-found')
        code = 1
    sys.stdout.flush()
    kill_descendants()
    os._exit(code)


if __name__ == '__main__':
    main()
