import importlib
import os
import sys
import traceback


def main():
    args = sys.argv[1:]
    if not args:
        sys.exit('usage: bin/check <Cxx> [quick|thorough] [--replay FILE]')
    prop = args[0].upper()
    tier = os.environ.get('VERIF_TIER') or 'quick'
    replay = None
    rest = args[1:]
    while rest:
        a = rest.pop(0)
        if a in ('quick', 'thorough'):
            tier = a
        elif a == '--replay':
            replay = rest.pop(0)
    seed = int(os.environ.get('VERIF_SEED', '0') or 0)
    mod = importlib.import_module(f'harness.props.{prop.lower()}')
    try:
        code = mod.main(tier, seed, replay)
    except SystemExit:
        raise
    except BaseException:
        traceback.print_exc(file=sys.stdout)
        # a crashing check must not pass silently
        print(f'[{prop}] check machinery crashed')
        code = 2
    sys.stdout.flush()
    os._exit(code)


if __name__ == '__main__':
    main()
