"""Shared machinery of every check: regenerate Gen/*.v from /repo, build the Coq
development, audit it, evaluate correspondence cases inside Coq, decide the
verdict, write evidence and replay files."""
import fcntl
import glob
import hashlib
import json
import os
import re
import subprocess
import sys
import time

VERIF = os.path.dirname(os.path.dirname(os.path.abspath(__file__)))
REPO = os.environ.get('PYWORKERS_REPO', '/repo')
COQ = os.path.join(VERIF, 'coq')
THEORIES = os.path.join(COQ, 'theories')
GEN = os.path.join(THEORIES, 'Gen')
PY = '/venv/bin/python'
sys.path.insert(0, os.path.join(VERIF, 'tools', 'py2coq'))

SIGTERMS_RECEIVED = []      # times at which the check process itself was sent SIGTERM (see harness/run.py)
SIGTERM_GUARD = [False]     # True while a scenario watches for a SIGTERM sent by the implementation to its caller

FORBIDDEN = re.compile(r'\b(Admitted|admit|Axiom|Axioms|Parameter|Parameters|Conjecture|Conjectures|'
                       r'Unset\s+Guard|bypass_check|Admit\s+Obligations|type-in-type|Hypothesis\b(?![^.]*\.)|native_compute)\b')
# standard-library axioms a development may rely on (none is needed so far)
AXIOM_WHITELIST = set()


def impl_env():
    env = dict(os.environ)
    env['PYTHONPATH'] = REPO
    env['PYTHONHASHSEED'] = '0'
    env.pop('PYWORKERS_VERIF', None)
    return env


def quiet_stderr(prop):
    """Spawned children inherit fd 2 and log tracebacks of deliberately provoked failures;
    keep them out of the check's output (they go to scratch/<prop>.stderr.log)."""
    os.makedirs(os.path.join(VERIF, 'scratch'), exist_ok=True)
    fd = os.open(os.path.join(VERIF, 'scratch', f'{prop}.stderr.log'), os.O_WRONLY | os.O_CREAT | os.O_TRUNC, 0o644)
    sys.stderr.flush()
    os.dup2(fd, 2)
    os.close(fd)


# ----------------------------------------------------------------- generation
def generators():
    import gen_framing
    import gen_registry
    import gen_persist
    import gen_mro
    import gen_skel
    import gen_create
    import gen_handshake
    import gen_shutdown
    import gen_forwarder
    import gen_transport
    import gen_restart
    import gen_ctrl
    import gen_serverloop
    import gen_ctxwork
    import gen_remotelive
    gens = {'RemoteLive': gen_remotelive.generate, 'CtxWork': gen_ctxwork.generate, 'ServerLoop': gen_serverloop.generate, 'Ctrl': gen_ctrl.generate, 'Restart': gen_restart.generate, 'Forwarder': gen_forwarder.generate, 'Transport': gen_transport.generate, 'Shutdown': gen_shutdown.generate, 'Create': gen_create.generate, 'Handshake': gen_handshake.generate, 'Framing': gen_framing.generate, 'Registry': gen_registry.generate, 'Persist': gen_persist.generate,
            'MroScan': gen_mro.generate, 'Skel': gen_skel.generate}
    try:
        import gen_units
        gens.update(gen_units.GENERATORS)
    except ImportError:
        pass
    return gens


def regen(units=None):
    """Regenerate Gen/<unit>.v from the working tree of /repo.
    Returns {unit: None | 'error text'}."""
    os.makedirs(GEN, exist_ok=True)
    status = {}
    for unit, fn in generators().items():
        if units is not None and unit not in units:
            continue
        path = os.path.join(GEN, unit + '.v')
        try:
            text = fn(REPO)
        except Exception as e:  # fail closed
            status[unit] = f'{type(e).__name__}: {e}'
            # keep a file that cannot be mistaken for a model of the current source
            text = f'(* GENERATION FAILED: {type(e).__name__}: {e} *)\nDefinition generation_failed_{unit} : True := I.\n'
        else:
            status[unit] = None
        old = open(path).read() if os.path.exists(path) else None
        if old != text:
            with open(path, 'w') as f:
                f.write(text)
    return status


# ----------------------------------------------------------------- coq build
class Lock:
    def __enter__(self):
        os.makedirs(COQ, exist_ok=True)
        self.f = open(os.path.join(COQ, '.lock'), 'w')
        fcntl.flock(self.f, fcntl.LOCK_EX)
        return self

    def __exit__(self, *a):
        fcntl.flock(self.f, fcntl.LOCK_UN)
        self.f.close()


def vfiles():
    return sorted(os.path.relpath(p, COQ) for p in glob.glob(os.path.join(THEORIES, '**', '*.v'), recursive=True))


def ensure_makefile():
    proj = '-Q theories PW\n' + '\n'.join(vfiles()) + '\n'
    pp = os.path.join(COQ, '_CoqProject')
    if not os.path.exists(pp) or open(pp).read() != proj or not os.path.exists(os.path.join(COQ, 'Makefile')):
        open(pp, 'w').write(proj)
        subprocess.run(['coq_makefile', '-f', '_CoqProject', '-o', 'Makefile'], cwd=COQ, check=True,
                       stdout=subprocess.DEVNULL, stderr=subprocess.DEVNULL)


def coq_make(targets, jobs=16, timeout=1500):
    """make the given .vo targets (paths relative to coq/). Returns (ok, log)."""
    ensure_makefile()
    p = subprocess.run(['timeout', str(timeout), 'make', f'-j{jobs}'] + targets, cwd=COQ,
                       stdout=subprocess.PIPE, stderr=subprocess.STDOUT, text=True)
    return p.returncode == 0, p.stdout


def coqc_file(rel, timeout=600):
    """Compile one file afresh (used for Props/Cxx.v so that its theorems are
    re-checked and its Print Assumptions output is captured on every run)."""
    p = subprocess.run(['timeout', str(timeout), 'coqc', '-Q', 'theories', 'PW', rel], cwd=COQ,
                       stdout=subprocess.PIPE, stderr=subprocess.STDOUT, text=True)
    return p.returncode == 0, p.stdout


STMT = re.compile(r'^\s*(Theorem|Lemma|Example|Corollary|Fact|Proposition)\s+([A-Za-z0-9_\']+)', re.M)


def count_statements(rel):
    return STMT.findall(open(os.path.join(COQ, rel)).read())


def strip_comments(text):
    out, depth, i = [], 0, 0
    while i < len(text):
        if text.startswith('(*', i):
            depth += 1; i += 2
        elif text.startswith('*)', i) and depth:
            depth -= 1; i += 2
        else:
            if not depth:
                out.append(text[i])
            i += 1
    return ''.join(out)


def audit_sources():
    """No admitted proofs, declared axioms or disabled kernel checks anywhere."""
    bad = []
    for rel in vfiles():
        src = strip_comments(open(os.path.join(COQ, rel)).read())
        # Section-local Variable/Hypothesis are allowed; global ones are not.
        depth = 0
        for ln, line in enumerate(src.split('\n'), 1):
            if re.match(r'\s*Section\b', line):
                depth += 1
            elif re.match(r'\s*End\b', line) and depth:
                depth -= 1
            m = re.search(r'\b(Admitted|admit|Axiom|Axioms|Parameter|Parameters|Conjecture|Conjectures|bypass_check|native_compute)\b', line)
            if m or re.search(r'Unset\s+(Guard|Positivity|Universe)', line) or re.search(r'Admit\s+Obligations', line):
                bad.append(f'{rel}:{ln}: {line.strip()}')
            if depth == 0 and re.match(r'\s*(Variable|Variables|Hypothesis|Hypotheses|Context)\b', line):
                bad.append(f'{rel}:{ln}: {line.strip()} (outside a section)')
    return bad


def parse_assumptions(log):
    """Returns (n_closed, axioms:list[str]) from coqc output holding Print Assumptions results."""
    closed = log.count('Closed under the global context')
    axioms = []
    in_ax = False
    for line in log.split('\n'):
        if line.startswith('Axioms:') or line.startswith('Section Variables:'):
            in_ax = line.startswith('Axioms:')
            continue
        if in_ax:
            m = re.match(r'^([A-Za-z_][\w\.\']*)\s*:', line)
            if m:
                axioms.append(m.group(1))
            elif line and not line.startswith(' '):
                in_ax = False
    return closed, axioms


# ----------------------------------------------------------------- cases in Coq
def coq_eval_cases(name, header, items, per_file=300, jobs=16, timeout=900):
    """items: list of Coq terms of type bool-valued checks, i.e. each item is a term
    `t : bool` that is true iff model and implementation agree on that case.
    Returns (list of indices that evaluate to false or fail, error_text|None)."""
    scratch = os.path.join(VERIF, 'scratch', f'{name}.{os.getpid()}')
    os.makedirs(scratch, exist_ok=True)
    files = []
    for k in range(0, len(items), per_file):
        chunk = items[k:k + per_file]
        fn = os.path.join(scratch, f'cases_{k}.v')
        body = ';\n'.join(f'  ({t})' for t in chunk)
        with open(fn, 'w') as f:
            f.write(header + '\n')
            f.write('Definition checks : list bool := [\n' + body + '\n].\n')
            f.write('Fixpoint bad (i : nat) (l : list bool) : list nat := match l with [] => [] | b :: r => if b then bad (S i) r else i :: bad (S i) r end.\n')
            f.write('Eval vm_compute in (bad 0 checks).\n')
        files.append((k, fn))
    procs = []
    bad, err = [], None
    pending = list(files)
    running = []
    while pending or running:
        while pending and len(running) < jobs:
            k, fn = pending.pop(0)
            p = subprocess.Popen(['timeout', str(timeout), 'coqc', '-Q', os.path.join(COQ, 'theories'), 'PW', fn],
                                 cwd=scratch, stdout=subprocess.PIPE, stderr=subprocess.STDOUT, text=True)
            running.append((k, fn, p))
        k, fn, p = running.pop(0)
        out, _ = p.communicate()
        if p.returncode != 0:
            err = (err or '') + f'\n{fn}: {out[-2000:]}'
            continue
        m = re.search(r'=\s*\[(.*?)\]\s*:\s*list nat', out, re.S)
        if not m:
            err = (err or '') + f'\n{fn}: unparsable output {out[-500:]}'
            continue
        body = m.group(1).strip()
        if body:
            bad += [k + int(x.replace('%nat', '').strip()) for x in body.split(';')]
    subprocess.run(['rm', '-rf', scratch])
    return sorted(bad), err


def coq_eval_term(name, header, term, timeout=300):
    """Evaluate one term with vm_compute and return Coq's printed value (for replay files)."""
    scratch = os.path.join(VERIF, 'scratch', f'{name}.{os.getpid()}.t')
    os.makedirs(scratch, exist_ok=True)
    fn = os.path.join(scratch, 'term.v')
    open(fn, 'w').write(header + f'\nEval vm_compute in ({term}).\n')
    p = subprocess.run(['timeout', str(timeout), 'coqc', '-Q', os.path.join(COQ, 'theories'), 'PW', fn],
                       cwd=scratch, stdout=subprocess.PIPE, stderr=subprocess.STDOUT, text=True)
    subprocess.run(['rm', '-rf', scratch])
    return p.stdout.strip()


# ----------------------------------------------------------------- deadlines
def with_deadline(fn, seconds, *args, **kw):
    """Run fn(*args, **kw) in a helper thread.  Returns (True, value) or (False, None) when it is still running after
    [seconds] - a call of the implementation that never returns must show up as an observation, not hang the check.
    An exception raised by fn is re-raised here."""
    import threading
    box = {}

    def body():
        try:
            box['v'] = fn(*args, **kw)
        except BaseException as e:   # noqa
            box['e'] = e
    t = threading.Thread(target=body, daemon=True)
    t.start()
    t.join(seconds)
    if t.is_alive():
        return False, None
    if 'e' in box:
        raise box['e']
    return True, box.get('v')


# ----------------------------------------------------------------- known findings
def known_findings(prop):
    p = os.path.join(VERIF, 'known_findings.json')
    if not os.path.exists(p):
        return []
    return [e for e in json.load(open(p))['findings'] if e['property'] == prop and e['status'] == 'known']


# ----------------------------------------------------------------- result
class Result:
    """Collects what a check did; finish() prints verdict lines, writes evidence, returns exit code."""

    def __init__(self, prop, tier, seed):
        self.prop, self.tier, self.seed = prop, tier, seed
        self.t0 = time.time()
        self.tie_broken = []        # list of (what, detail)
        self.violations = []        # list of dict(case=..., observed=..., why=..., domain=...)
        self.known_hits = {}        # finding id -> example
        self.obligations = []       # names
        self.discharged = []        # names
        self.axioms = []
        self.evaluations = 0
        self.nontrivial = set()
        self.samples = []
        self.distribution = {}
        self.exhaustive = False
        self.rule = ''
        self.assumptions = []
        self.trusted = []
        self.checker_cmd = ''
        self.notes = []
        self.traces_validated = 0

    def count(self, key, n=1):
        self.distribution[key] = self.distribution.get(key, 0) + n

    def case(self, canon, nontrivial=True, sample=None):
        self.evaluations += 1
        if nontrivial:
            self.nontrivial.add(hashlib.sha1(repr(canon).encode()).hexdigest())
        if sample is None and not self.samples:
            sample = dict(case=repr(canon)[:200])       # never leave the evidence without a sample of what was run
        if sample is not None and len(self.samples) < 6:
            self.samples.append(sample)

    def violation(self, case, why, observed=None, model=None, finding_matcher=None):
        """Record an implementation-level violation of the property predicate.
        Matching against known findings happens here."""
        for kf in known_findings(self.prop):
            if finding_matcher and finding_matcher(kf, case):
                self.known_hits.setdefault(kf['id'], dict(case=case, why=why))
                return
        self.violations.append(dict(case=case, why=why, observed=observed, model=model))

    def tie(self, what, detail):
        self.tie_broken.append((what, detail[-4000:] if isinstance(detail, str) else detail))

    def write_replay(self, kind, payload):
        os.makedirs(os.path.join(VERIF, 'replays'), exist_ok=True)
        h = hashlib.sha1(json.dumps(payload, sort_keys=True, default=repr).encode()).hexdigest()[:10]
        path = os.path.join('replays', f'{self.prop}-{kind}-{h}.json')
        with open(os.path.join(VERIF, path), 'w') as f:
            json.dump(payload, f, indent=1, default=repr)
        return path

    def finish(self):
        wall = time.time() - self.t0
        code = 0
        lines = []
        if self.violations:
            v = self.violations[0]
            path = self.write_replay('violation', dict(property=self.prop, tier=self.tier, seed=self.seed,
                                                        kind='failing-input', first=v, all=self.violations[:20],
                                                        tie_broken=[t[0] for t in self.tie_broken]))
            lines.append(f'VIOLATION property={self.prop} replay={path}')
            code = 1
        elif self.tie_broken:
            path = self.write_replay('tie', dict(property=self.prop, tier=self.tier, seed=self.seed,
                                                  kind='no-failing-input-found',
                                                  broken=[dict(what=w, detail=d) for w, d in self.tie_broken]))
            lines.append(f'VIOLATION property={self.prop} replay={path} no-failing-input-found')
            code = 1
        for kf in known_findings(self.prop):
            if kf['id'] in self.known_hits:
                lines.append(f'KNOWN-FINDING: property={self.prop} {kf["id"]}: {kf["what"]}')
        ev = dict(
            property_id=self.prop, tier=self.tier, seed=self.seed, level='proof',
            coverage=dict(
                obligations=len(self.obligations), discharged=len(self.discharged),
                obligation_names=self.obligations,
                checker_cmd=self.checker_cmd, trusted_base=self.trusted,
                axioms_reported_by_print_assumptions=self.axioms,
                evaluations=self.evaluations, distinct_nontrivial=len(self.nontrivial),
                rule=self.rule, samples=self.samples, exhaustive=self.exhaustive,
                input_distribution=self.distribution,
                traces_validated_against_impl=self.traces_validated,
                tie_broken=[t[0] for t in self.tie_broken],
                known_findings_reproduced=sorted(self.known_hits),
                notes=self.notes,
            ),
            assumptions=self.assumptions, wall_s=round(wall, 2), violations=len(self.violations) + (1 if (self.tie_broken and not self.violations) else 0),
        )
        if not self.discharged:
            # a proof-level evidence file must not claim zero discharged obligations: fall back to the
            # generic keys and say what failed
            cov = ev['coverage']
            cov['proof_obligations_not_discharged'] = cov.pop('obligations')
            cov.pop('discharged')
        os.makedirs(os.path.join(VERIF, 'evidence'), exist_ok=True)
        with open(os.path.join(VERIF, 'evidence', f'{self.prop}.json'), 'w') as f:
            json.dump(ev, f, indent=1, default=repr)
        for l in lines:
            print(l)
        print(f'[{self.prop}] tier={self.tier} seed={self.seed} obligations={len(self.discharged)}/{len(self.obligations)} '
              f'cases={self.evaluations} nontrivial={len(self.nontrivial)} violations={len(self.violations)} '
              f'tie_broken={len(self.tie_broken)} known={len(self.known_hits)} wall={wall:.1f}s -> exit {code}')
        return code


def prove(res, prop, units, proof_files, props_file=None, run_files=()):
    """Steps 1-3 of a check: regenerate, build, re-check Props/<prop>.v, audit.
    Returns True iff every obligation was discharged and the audit is clean."""
    props_file = props_file or f'theories/Props/{prop}.v'
    res.checker_cmd = (f'tools/py2coq -> coq/theories/Gen/{{{",".join(units)}}}.v ; make -C coq {props_file}o ; '
                       f'coqc -Q theories PW {props_file} (Coq 8.16.1, full .vo build)')
    ok_all = True
    with Lock():
        status = regen()
        for u in units:
            if status.get(u):
                res.tie(f'translator:{u}', status[u])
                ok_all = False
        for rel in proof_files + [props_file]:
            for kind, nm in count_statements(rel):
                res.obligations.append(f'{os.path.basename(rel)}:{nm}')
        vo = props_file[:-2] + '.vo'
        ok, log = coq_make([vo] + [r[:-2] + '.vo' for r in run_files])
        if not ok:
            m = re.search(r'File "\./([^"]+)", line (\d+).*?\n(Error:.*?)(?:\n\n|\nmake)', log, re.S)
            what = f'{m.group(1)}:{m.group(2)}' if m else 'coq build'
            res.tie(f'proof:{what}', log[-3000:])
            ok_all = False
        else:
            ok2, out = coqc_file(props_file)
            if not ok2:
                res.tie(f'proof:{props_file}', out[-3000:])
                ok_all = False
            else:
                n_print = len(re.findall(r'^\s*Print Assumptions', open(os.path.join(COQ, props_file)).read(), re.M))
                closed, axioms = parse_assumptions(out)
                res.axioms = axioms
                extra = [a for a in axioms if a.split('.')[-1] not in AXIOM_WHITELIST and a not in AXIOM_WHITELIST]
                if extra:
                    res.tie('audit:assumptions', 'non-whitelisted assumptions: ' + ', '.join(extra))
                    ok_all = False
                if closed + (1 if axioms else 0) < 1 or n_print == 0:
                    res.tie('audit:assumptions', 'no Print Assumptions output')
                    ok_all = False
                thms = [nm for k, nm in count_statements(props_file) if k == 'Theorem']
                if n_print < len(thms):
                    res.tie('audit:assumptions', f'{len(thms)} theorems but {n_print} Print Assumptions')
                    ok_all = False
        sys.path.insert(0, os.path.join(VERIF, 'tools'))
        import pin
        for m in pin.verify(prop):
            res.tie('source-pin', m)
        bad = audit_sources()
        if bad:
            res.tie('audit:sources', '\n'.join(bad[:20]))
            ok_all = False
    if ok_all:
        res.discharged = list(res.obligations)
    res.trusted += [
        'Coq 8.16.1 kernel via coqc (vm_compute used in Examples and in correspondence evaluation; native_compute not used)',
        'Print Assumptions under every theorem of ' + props_file + ': ' + ('Closed under the global context' if not res.axioms else ', '.join(res.axioms)),
        'tools/py2coq translator (fail-closed) for units: ' + ', '.join(units) if units else 'no translated unit',
    ]
    return ok_all
