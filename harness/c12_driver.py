"""One C12 scenario in a fresh interpreter (the scenario kills its own server; a fresh process keeps the
check's interpreter clean).  usage: python -m harness.c12_driver '<json config>'  -> prints one JSON line.
config: {"mode": "terminate"|"sigterm", "children": [[state, in_ctx, persistent], ...], "delay": seconds|null}
states: coop | swallow | idle | finished"""
import json
import os
import signal
import sys
import threading
import time

# 'starting' scenarios: child processes which load this script while the flag file exists are slow to come up, so that
# the server can be stopped while a worker is still inside the start-up handshake
if __name__ != '__main__' and os.environ.get('C12_SLOW_CHILD') and os.path.exists(os.environ['C12_SLOW_CHILD']):
    time.sleep(1.5)


def coop(x=0, exp=1):
    t0 = time.time()
    while time.time() - t0 < 90:
        time.sleep(0.01)
    return x


def swallow(x=0, exp=1):
    t0 = time.time()
    while time.time() - t0 < 90:
        try:
            time.sleep(0.01)
        except Exception:
            pass
    return x


def quick(x=0, exp=1):
    return x + 1


def dispatch(kind, exp=1):
    """target of persistent workers: the enqueued value selects the behaviour"""
    if kind == 'coop':
        return coop()
    if kind == 'swallow':
        return swallow()
    return quick()


def state_of(pid):
    try:
        st = open(f'/proc/{pid}/stat').read()
        return st[st.rindex(')') + 2:].split()[0]
    except OSError:
        return None


def client_main():
    """a client of its own (a separate process) which creates workers and is then killed by the scenario: its workers are orphans"""
    import logging
    logging.disable(logging.CRITICAL)
    from pyworkers.remote import RemoteWorker
    addr = tuple(json.loads(sys.argv[2]))
    ws = [RemoteWorker({'coop': coop, 'swallow': swallow}[s], host=addr) for s in json.loads(sys.argv[3])]
    print('C12CLIENT ' + json.dumps([w.pid for w in ws]))
    sys.stdout.flush()
    time.sleep(120)


def main():
    import logging
    logging.disable(logging.CRITICAL)
    if sys.argv[1] == '--client':
        return client_main()
    cfg = json.loads(sys.argv[1])
    flag = f'/var/tmp/c12_slow_{os.getpid()}.flag'
    os.environ['C12_SLOW_CHILD'] = flag
    from harness import server_tools as st
    from pyworkers.persistent_remote import PersistentRemoteWorker
    from pyworkers.remote import RemoteWorker
    from pyworkers.remote_context import RemoteContext
    from pyworkers.worker import WorkerTerminatedError
    server = st.start_server()
    addr = server.addr
    out = dict(children=[], errors=[])
    ctx = None
    workers = []
    t_start = time.time()
    try:
        if any(c[1] for c in cfg['children']):
            ctx = RemoteContext(7, target=dispatch, host=addr, kwargs={'exp': 1})
        for state, in_ctx, persistent in cfg['children']:
            if in_ctx:
                w = PersistentRemoteWorker(None, host=addr, context=7)
            elif persistent:
                w = PersistentRemoteWorker(dispatch, host=addr)
            else:
                w = RemoteWorker({'coop': coop, 'swallow': swallow, 'finished': quick, 'idle': coop}[state], host=addr)
            if persistent or in_ctx:
                if state in ('coop', 'swallow'):
                    w.enqueue(state)
                elif state == 'finished':
                    w.enqueue('quick'); w.wait(10)
            workers.append(w)
        delay = cfg.get('delay')
        if delay is None:
            # steady state: every busy child is inside its target, every finished one is dead
            time.sleep(0.8)
            for (state, in_ctx, persistent), w in zip(cfg['children'], workers):
                if state == 'finished':
                    w.wait(10)
        else:
            time.sleep(delay)
        pids = [w.pid for w in workers]
        if cfg.get('orphans'):
            # workers of another client, which crashes (SIGKILL) while they are running; life goes on for the server: more clients come
            import subprocess
            cp = subprocess.Popen([sys.executable, '-m', 'harness.c12_driver', '--client', json.dumps(list(addr)), json.dumps(cfg['orphans'])],
                                  stdout=subprocess.PIPE, stderr=subprocess.DEVNULL, text=True, env=dict(os.environ))
            line = cp.stdout.readline()
            out['orphan_pids'] = json.loads(line[len('C12CLIENT '):]) if line.startswith('C12CLIENT ') else None
            time.sleep(0.5)
            cp.kill(); cp.wait()
            time.sleep(0.5)
            for _ in range(cfg.get('late_clients', 0)):
                lw = RemoteWorker(quick, host=addr)
                lw.wait(10)
            time.sleep(0.3)
            if out['orphan_pids'] is None:
                out['errors'].append('the second client did not come up')
        starting = []
        if cfg.get('starting'):
            open(flag, 'w').write('slow')

            def construct(slot):
                try:
                    slot['w'] = RemoteWorker(coop, host=addr)
                    slot['o'] = 'returned'
                except BaseException as e:   # noqa
                    slot['o'] = f'raised {type(e).__name__}'
            for _ in range(cfg['starting']):
                slot = {}
                th = threading.Thread(target=construct, args=(slot,), daemon=True)
                th.start()
                starting.append((slot, th))
            time.sleep(0.6)
        desc = st.descendants(server.pid)
        out['n_descendants'] = len(desc)
        t0 = time.time()
        if cfg['mode'] == 'terminate':
            r = {}
            th = threading.Thread(target=lambda: r.setdefault('r', server.terminate(timeout=cfg.get('server_timeout', 5), force=True)), daemon=True)
            th.start(); th.join(30)
            out['server_terminate'] = r.get('r', 'did not return in 30 s')
        else:
            os.kill(server.pid, signal.SIGTERM)
        out['t_shutdown'] = round(time.time() - t0, 2)
        # how long until every descendant is gone (bounded wait)
        left = desc
        for _ in range(60):
            left = [p for p in desc if state_of(p) not in (None, 'Z')]
            if not left and state_of(server.pid) in (None, 'Z'):
                break
            time.sleep(0.1)
        out['t_reaped'] = round(time.time() - t0, 2)
        out['survivors'] = len(left)
        out['server_gone'] = state_of(server.pid) in (None, 'Z')
        for (state, in_ctx, persistent), w, pid in zip(cfg['children'], workers, pids):
            r = {}

            def observe(w=w, r=r):
                t1 = time.time()
                try:
                    r['wait'] = w.wait(2)
                    r['alive'] = w.is_alive()
                    r['has_error'] = w.has_error
                    e = w.error
                    r['error'] = None if e is None else ('WTE' if isinstance(e, WorkerTerminatedError) else type(e).__name__)
                    r['result'] = repr(w.result)[:40]
                except BaseException as e:   # noqa
                    r['raised'] = f'{type(e).__name__}: {e}'
                r['dur'] = round(time.time() - t1, 2)
            th = threading.Thread(target=observe, daemon=True)
            th.start(); th.join(15)
            if th.is_alive():
                r['blocked'] = True
            r['pid_gone'] = state_of(pid) in (None, 'Z') or pid == os.getpid()
            out['children'].append(r)
        out['starting'] = []
        for slot, th in starting:
            th.join(12)
            r = dict(constructor=slot.get('o', 'hang'))
            if slot.get('o') == 'returned':
                w = slot['w']
                r2 = {}

                def observe2(w=w, r2=r2):
                    try:
                        r2['wait'] = w.wait(2); r2['alive'] = w.is_alive(); r2['has_error'] = w.has_error
                    except BaseException as e:   # noqa
                        r2['raised'] = f'{type(e).__name__}: {e}'
                t2 = threading.Thread(target=observe2, daemon=True)
                t2.start(); t2.join(15)
                if t2.is_alive():
                    r2['blocked'] = True
                r.update(r2)
            out['starting'].append(r)
        for p in left:
            try:
                os.kill(p, signal.SIGKILL)
            except OSError:
                pass
    except BaseException as e:   # noqa
        import traceback
        out['errors'].append(traceback.format_exc()[-800:])
    finally:
        try:
            for p in st.descendants(os.getpid()):
                os.kill(p, signal.SIGKILL)
        except Exception:
            pass
    try:
        os.remove(flag)
    except OSError:
        pass
    out['wall'] = round(time.time() - t_start, 1)
    print('C12RESULT ' + json.dumps(out))
    sys.stdout.flush()
    os._exit(0)


if __name__ == '__main__':
    main()
