"""C02: objects that live in the MAIN SCRIPT.  Run as a script (so that this file is __main__), against a stand-alone
server process (python -m pyworkers.remote_server) - a server spawned from this script would re-import it and hide
the difference.  Importable targets (operator / functools / builtins) receive values and wrapped callables defined here;
results are plain values.  Prints one line: C02MAIN <json>."""
import functools
import json
import operator
import os
import socket
import subprocess
import sys
import time


class Vec:
    def __init__(self, a, b):
        self.a, self.b = a, b

    def __len__(self):
        return 2

    def __getitem__(self, i):
        return (self.a, self.b)[i]

    def norm1(self):
        return abs(self.a) + abs(self.b)


def main_fn(k, x):
    return k * x + 1


def main_raiser(x):
    raise IndexError('from main', x)


def describe(o):
    if o[0] == 'ok':
        return ['ok', repr(o[1])]
    if o[0] == 'err':
        return ['err', o[1], repr(o[2])]
    return list(map(str, o))


def direct(f, args):
    try:
        return ('ok', f(*args))
    except Exception as e:
        return ('err', type(e).__name__, e.args)


def observe(w):
    if not w.wait(20):
        try:
            w.terminate(timeout=2)
        except Exception:
            pass
        return ('hang',)
    he, r, e = w.has_error, w.result, w.error
    if he is False and e is None:
        return ('ok', r)
    if he is True and r is None and e is not None:
        return ('err', type(e).__name__, e.args)
    return ('bad', f'has_error={he} result={r!r} error={e!r}')


def main():
    import logging
    logging.disable(logging.CRITICAL)
    from pyworkers.thread import ThreadWorker
    from pyworkers.process import ProcessWorker
    from pyworkers.remote import RemoteWorker
    s = socket.socket(); s.bind(('127.0.0.1', 0)); port = s.getsockname()[1]; s.close()
    env = dict(os.environ)
    srv = subprocess.Popen([sys.executable, '-m', 'pyworkers.remote_server', '--addr', '127.0.0.1', '--port', str(port)], env=env,
                           stdout=subprocess.DEVNULL, stderr=subprocess.DEVNULL)
    out = dict(cases=[])
    try:
        for _ in range(100):
            try:
                socket.create_connection(('127.0.0.1', port), timeout=0.2).close()
                break
            except OSError:
                time.sleep(0.1)
        else:
            out['error'] = 'stand-alone server did not come up'
        calls = [('len(Vec)', len, (Vec(3, -4),)), ('operator.getitem(Vec, 1)', operator.getitem, (Vec(3, -4), 1)),
                 ('attrgetter("a")(Vec)', operator.attrgetter('a'), (Vec(3, -4),)), ('methodcaller("norm1")(Vec)', operator.methodcaller('norm1'), (Vec(3, -4),)),
                 ('partial(main_fn, 5)(2)', functools.partial(main_fn, 5), (2,)), ('main_fn(5, 2)', main_fn, (5, 2)),
                 ('partial(main_raiser)(9)', functools.partial(main_raiser), (9,)), ('main_raiser(9)', main_raiser, (9,))]
        kinds = [('thread', ThreadWorker, {}), ('process', ProcessWorker, {}), ('remote', RemoteWorker, dict(host=('127.0.0.1', port)))]
        if 'error' not in out:
            for label, f, args in calls:
                want = describe(direct(f, args))
                for kname, cls, kw in kinds:
                    try:
                        w = cls(target=f, args=args, **kw)
                        got = describe(observe(w))
                    except BaseException as e:   # noqa
                        got = ['ctor-raised', type(e).__name__]
                    out['cases'].append(dict(call=label, kind=kname, want=want, got=got))
    finally:
        srv.kill()
        srv.wait()
    print('C02MAIN ' + json.dumps(out))


if __name__ == '__main__':
    main()
