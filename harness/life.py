"""Real persistent worker objects (PersistentProcessWorker / PersistentThreadWorker parent-side code,
unmodified) whose child is scripted, for the life-cycle checks C09 and C17.

The documented extension point `_start` installs a scripted child (harness/props/c04.py) taken from a
*plan* of (id, child class) pairs, so that restart() - which clears __dict__ and re-runs __init__ - gets
its next incarnation from the plan as well.  Every child ever created is kept in `Env.children`, keyed
by the numeric id, together with the log of blocking calls issued against it."""
import os
import types

from harness.props.c04 import FakeChild, FakeCtrl, FakeArgsEnd

TFIN = 0.05


class Env:
    def __init__(self):
        self.plan = []          # [(id, cls)] for the next _start calls
        self.children = {}      # id -> (child, log, kind)
        self.sigterm_self = []  # ThreadWorker.terminate(force=True) would SIGTERM this very process: recorded instead


def classes(env):
    from pyworkers.persistent_process import PersistentProcessWorker
    from pyworkers.persistent_thread import PersistentThreadWorker

    def install(self, kind):
        i, cls = env.plan.pop(0)
        log = []
        child = FakeChild(cls, log)
        child.pid = 900000 + i
        env.children[i] = (child, log, kind)
        self._child = child
        self._dead = False
        self._vid = i
        return i, child, log

    class PP(PersistentProcessWorker):
        def _start(self):
            i, child, log = install(self, 'KPersistentProcess')
            self._pid = 900000 + i
            self._tid = 900000 + i
            self._ctrl_comms = FakeCtrl(child, log)

            class AP:
                parent_end = FakeArgsEnd(child)
                child_end = FakeArgsEnd(child)
            self._args_pipe = AP()

    class PT(PersistentThreadWorker):
        def _start(self):
            i, child, log = install(self, 'KPersistentThread')
            self._tid = -i
            self._ident = -12345

            class AE(FakeArgsEnd):
                def put(self, obj):
                    self.send(obj)

            class APT:
                parent_end = AE(child)
                child_end = AE(child)
            self._args_pipe = APT()

    return {'KPersistentProcess': PP, 'KPersistentThread': PT}


class patched:
    """foreign_raise (the asynchronous exception) acts on the scripted child of the worker; os.kill of the own
    process (ThreadWorker.terminate(force=True)) is recorded, not executed."""

    def __init__(self, env):
        self.env = env

    def __enter__(self):
        import pyworkers.thread as thread_mod
        import pyworkers.pool as pool_mod
        self.thread_mod, self.pool_mod = thread_mod, pool_mod
        self.orig_fr, self.orig_os = thread_mod.foreign_raise, thread_mod.os
        env = self.env

        def foreign_raise(ident, exc):
            # the only thread workers in play are the scripted ones: the exception reaches every thread child
            # that is being terminated; the harness terminates one worker at a time per ident
            for i, (child, log, kind) in env.children.items():
                if kind == 'KPersistentThread' and getattr(child, 'being_terminated', False):
                    child.graceful()

        thread_mod.foreign_raise = foreign_raise
        thread_mod.os = types.SimpleNamespace(kill=lambda pid, sig: env.sigterm_self.append(sig), getpid=os.getpid)
        return self

    def __exit__(self, *a):
        self.thread_mod.foreign_raise = self.orig_fr
        self.thread_mod.os = self.orig_os


def mark_thread_terminate(cls_map):
    """wrap terminate of the scripted thread class so that foreign_raise knows which child is meant"""
    PT = cls_map['KPersistentThread']
    orig = PT.terminate

    def terminate(self, *a, **k):
        ch = getattr(self, '_child', None)
        if ch is not None:
            ch.being_terminated = True
        try:
            return orig(self, *a, **k)
        finally:
            if ch is not None:
                ch.being_terminated = False
    PT.terminate = terminate


def blk(log):
    return '[' + '; '.join(f'{b} {t}' for b, t in log) + ']'
