"""Deterministic driver for the real pyworkers.pool.Pool.run.

The pool is single threaded: all it ever observes of a worker is (a) what it reads
from the worker's results pipe, (b) whether enqueue() raises, (c) is_alive().
A *script* fixes those observations: it is a list of environment steps
   ('ans', i)   worker i answers its oldest queued input
   ('fail', i)  worker i's target raises on its oldest queued input: end marker, no more answers
   ('exit', i)  worker i's process is gone: is_alive() False, enqueue raises, pipe EOF after what was written
   ('poll',)    the pool's event loop runs one iteration over the ready pipes
   ('start',)   run() is entered (steps before it happen on the idle pool)
played at the only point where the pool waits: Pool._get_all_queues() is called
immediately before mp.connection.wait().  When the script is exhausted, or nothing is ready at a
poll, the run is cut off with outcome 'blocked' (the pool would wait).
Nothing in /repo is modified; the fakes use real utils.Pipe endpoints."""
import multiprocessing as mp
import multiprocessing.connection

from pyworkers import pool as pool_mod
from pyworkers.persistent import WorkerClosedError
from pyworkers.utils import Pipe
from pyworkers.worker import Worker


class Blocked(BaseException):
    pass


class FakeWorker(Worker):
    is_fake = True

    def __init__(self, idx, f, pipe):
        # deliberately no Worker.__init__: nothing is spawned
        self.idx = idx
        self._id = ('fakehost', 1000 + idx, 1000 + idx)
        self.f = f
        self.pipe = pipe
        self.inbox = []
        self.alive = True
        self.ended = False
        self.counter = 0
        self.n_enq = 0
        self.got = []
        self.attempted = []
        self.log = None
        self._userid = idx
        self._name = f'fake{idx}'
        self._target = None

    id = property(lambda self: self._id)
    results_endpoint = property(lambda self: self.pipe.parent_end)

    def is_alive(self):
        return self.alive

    def enqueue(self, *args):
        if self.log is not None:
            self.log.append(self.idx)
        if not self.alive:
            self.attempted.append(args[0])
            raise WorkerClosedError(self)
        self.n_enq += 1
        self.got.append(args[0])
        self.inbox.append(args)

    # environment steps
    def ans(self):
        if self.alive and not self.ended and self.inbox:
            x = self.inbox.pop(0)
            self.counter += 1
            self.pipe.child_end.put((self.counter, True, self.f(*x), self._id))

    def fail(self):
        if self.alive and not self.ended and self.inbox:
            self.inbox.pop(0)
            self.ended = True
            self.pipe.child_end.put((self.counter, False, None, self._id))

    def exit(self):
        if self.alive:
            self.alive = False
            self.pipe.child_end.close()

    def close(self):
        pass

    def wait(self, timeout=None):
        return not self.alive

    def terminate(self, *a, **k):
        self.exit()
        return True


class ScriptedPool(pool_mod.Pool):
    def __init__(self, f, nworkers, **kw):
        super().__init__(f, **kw)
        self.fakes = []
        for i in range(nworkers):
            pipe = Pipe()
            w = FakeWorker(i, f, pipe)
            self.fakes.append(w)
            self._workers[w.id] = w
            self._queues[w.id] = pipe.parent_end
        self.script = []
        self.ready_log = []     # per poll: worker indices in the order the pool processed them
        self.n_polls = 0

    def play(self, upto_poll=True):
        while self.script:
            st = self.script.pop(0)
            if st[0] == 'poll':
                return True
            getattr(self.fakes[st[1]], st[0])()
        return False

    def _get_all_queues(self):
        if not self.play():
            raise Blocked()
        self.n_polls += 1
        return self._queues.values()


def run_script(f, nworkers, inputs, script, extra=0, retry=True, return_results=True, refuse=None, pre_closed=()):
    """Returns (outcome, details).  outcome is one of
       ('return', list) ('none',) ('poolerr', partial) ('internal', exc class name) ('blocked',)"""
    p = ScriptedPool(f, nworkers, retry=retry)
    for i in pre_closed:
        p._closed.add(p.fakes[i].id)
    p.script = list(script)
    # steps before ('start',) happen before run() is entered (only 'exit' is meaningful there)
    if ('start',) in p.script:
        while p.script[0][0] != 'start':
            st = p.script.pop(0)
            getattr(p.fakes[st[1]], st[0])()
        p.script.pop(0)
        started = True
    else:
        started = False
    orig_wait = mp.connection.wait
    orig_sleep = pool_mod.time.sleep
    idx_of = {id(w.pipe.parent_end): w.idx for w in p.fakes}

    def wait(conns, timeout=None):
        conns = list(conns)
        ready = orig_wait(conns, 0) if conns else []
        if not ready:
            raise Blocked()
        p.ready_log.append([idx_of[id(c)] for c in ready])
        return ready

    enq_calls = [0]
    enqueue_fn = None
    picks = []
    for w in p.fakes:
        w.log = picks
    if refuse is not None:
        for w in p.fakes:
            w.log = None

        def enqueue_fn(worker, *args):
            enq_calls[0] += 1
            if enq_calls[0] > 3000:
                # pool.py catches everything around enqueue_fn with a bare except and then calls
                # time.sleep: the stubbed sleep is where the abort can get out
                enq_calls.append('abort')
                raise Livelock()
            picks.append(worker.idx)
            if refuse(worker.idx, args[0]):
                return False
            worker.enqueue(*args)
            return True

    import types
    orig_mp = pool_mod.mp
    pool_mod.mp = types.SimpleNamespace(connection=types.SimpleNamespace(wait=wait))
    def sleep(_):
        if 'abort' in enq_calls:
            raise Livelock()
    pool_mod.time.sleep = sleep
    import signal

    def on_alarm(signum, frame):
        # a run that burns this much CPU time without coming back is spinning inside Pool.run
        enq_calls.append('abort')
        raise Livelock()
    old_handler = signal.signal(signal.SIGPROF, on_alarm)
    old_alarm = signal.signal(signal.SIGALRM, on_alarm)        # and a generous wall-clock bound for a run that blocks instead of spinning
    signal.setitimer(signal.ITIMER_PROF, 2.0)      # CPU time of this process: a spinning run burns it, a descheduled one does not
    signal.setitimer(signal.ITIMER_REAL, 60.0)
    try:
        try:
            if not started:
                raise Blocked()
            r = p.run(iter(inputs), worker_extra_pending_inputs=extra, enqueue_fn=enqueue_fn, return_results=return_results)
            out = ('none',) if r is None and return_results else ('return', r)
        except pool_mod.PoolError as e:
            out = ('poolerr', e.partial_results)
        except Blocked:
            out = ('blocked',)
        except Livelock:
            out = ('livelock',)
        except Exception as e:
            out = ('internal', type(e).__name__)
    finally:
        signal.setitimer(signal.ITIMER_PROF, 0)
        signal.setitimer(signal.ITIMER_REAL, 0)
        signal.signal(signal.SIGPROF, old_handler)
        signal.signal(signal.SIGALRM, old_alarm)
        pool_mod.mp = orig_mp
        pool_mod.time.sleep = orig_sleep
    readable = []
    for w in p.fakes:
        q = p._queues.get(w.id)
        try:
            readable.append(bool(q is not None and q.poll()))
        except (OSError, EOFError, BrokenPipeError):
            readable.append(True)
    details = dict(picks=picks, got=[list(w.got) for w in p.fakes], attempted=[list(w.attempted) for w in p.fakes],
                   readable=readable, ended=[w.ended for w in p.fakes], ready=p.ready_log, alive=[w.alive for w in p.fakes], closed=[w.id in p._closed for w in p.fakes],
                   inbox=[len(w.inbox) for w in p.fakes], polls=p.n_polls, script_left=len(p.script),
                   map_guard=p._map_guard)
    for w in p.fakes:
        try:
            w.pipe.child_end.close()
        except Exception:
            pass
        try:
            w.pipe.parent_end.close()
        except Exception:
            pass
    return out, details


class Livelock(BaseException):
    pass


# ---------------------------------------------------------------- several runs of one pool (C09)
class RestartRefused(RuntimeError):
    pass


def _fake_restart(self, *args, results_pipe=None, timeout=None, **kwargs):
    """PersistentWorker.restart as the pool sees it: the old incarnation is stopped, the object comes
    back under a new id with a fresh results pipe - or RuntimeError if the old one cannot be stopped."""
    if getattr(self, 'refuse_restart', False):
        raise RestartRefused('Could not stop a worker!')
    self.exit()
    FakeWorker.generation += 1
    g = FakeWorker.generation
    self._id = ('fakehost', 2000 + g, 2000 + g)
    self.pipe = results_pipe if results_pipe is not None else Pipe()
    self.inbox = []
    self.alive = True
    self.ended = False
    self.counter = 0
    self.restarts = getattr(self, 'restarts', 0) + 1


FakeWorker.generation = 0
FakeWorker.restart = _fake_restart


def run_rounds(f, nworkers, rounds, extra=0, retry=True, return_results=True):
    """rounds: list of (between, inputs, script); between: list of ('exit', i) | ('restart_all',) | ('restart_fail', k);
    script as for run_script but without ('start',).  Worker indices always refer to the position in the
    pool's registry at that moment.  Returns (list of outcomes, details)."""
    p = ScriptedPool(f, nworkers, retry=retry)
    orig_wait = mp.connection.wait
    orig_sleep = pool_mod.time.sleep
    picks = []
    ready_log = []
    import types
    import signal

    def renumber():
        p.fakes = list(p._workers.values())
        for k, w in enumerate(p.fakes):
            w.idx = k
            w.log = picks

    def wait(conns, timeout=None):
        conns = list(conns)
        ready = orig_wait(conns, 0) if conns else []
        if not ready:
            raise Blocked()
        idx_of = {id(q): p._workers[wid].idx for wid, q in p._queues.items()}
        ready_log[-1].append([idx_of[id(c)] for c in ready])
        return ready

    def on_alarm(signum, frame):
        raise Livelock()

    orig_mp = pool_mod.mp
    pool_mod.mp = types.SimpleNamespace(connection=types.SimpleNamespace(wait=wait))
    pool_mod.time.sleep = lambda _: None
    old_handler = signal.signal(signal.SIGPROF, on_alarm)
    old_alarm = signal.signal(signal.SIGALRM, on_alarm)        # and a generous wall-clock bound for a run that blocks instead of spinning
    outs, between_results, got_per_round, alive_at_start = [], [], [], []
    all_fakes = list(p.fakes)
    try:
        for between, inputs, script in rounds:
            renumber()
            bres = []
            for b in between:
                if b[0] == 'exit':
                    p.fakes[b[1]].exit()
                elif b[0] == 'restart_all':
                    try:
                        p.restart_workers(timeout=0.05)
                        bres.append('ok')
                    except Exception as e:   # noqa
                        bres.append(type(e).__name__)
                    renumber()
                elif b[0] == 'restart_fail':
                    p.fakes[b[1]].refuse_restart = True
                    try:
                        p.restart_workers(timeout=0.05)
                        bres.append('ok')
                    except RestartRefused:
                        bres.append('refused')
                    except Exception as e:   # noqa
                        bres.append(type(e).__name__)
                    for w in p.fakes:
                        w.refuse_restart = False
                    renumber()
            between_results.append(bres)
            for w in p.fakes:
                w.got, w.attempted = [], []
            alive_at_start.append([w.alive for w in p.fakes])
            p.script = list(script)
            ready_log.append([])
            signal.setitimer(signal.ITIMER_PROF, 2.0)      # CPU time of this process: a spinning run burns it, a descheduled one does not
            signal.setitimer(signal.ITIMER_REAL, 60.0)
            try:
                r = p.run(iter(inputs), worker_extra_pending_inputs=extra, return_results=return_results)
                out = ('none',) if r is None and return_results else ('return', r)
            except pool_mod.PoolError as e:
                out = ('poolerr', e.partial_results)
            except Blocked:
                out = ('blocked',)
            except Livelock:
                out = ('livelock',)
            except Exception as e:   # noqa
                out = ('internal', type(e).__name__)
            finally:
                signal.setitimer(signal.ITIMER_PROF, 0)
                signal.setitimer(signal.ITIMER_REAL, 0)
            outs.append(out)
            got_per_round.append(dict(got=[list(w.got) for w in p.fakes], attempted=[list(w.attempted) for w in p.fakes],
                                      alive=[w.alive for w in p.fakes], restarts=[getattr(w, 'restarts', 0) for w in p.fakes]))
            if out[0] in ('blocked', 'livelock', 'internal'):
                break
    finally:
        signal.signal(signal.SIGPROF, old_handler)
        signal.signal(signal.SIGALRM, old_alarm)
        pool_mod.mp = orig_mp
        pool_mod.time.sleep = orig_sleep
    details = dict(picks=picks, ready=ready_log, between=between_results, per_round=got_per_round, alive_at_start=alive_at_start,
                   map_guard=p._map_guard)
    for w in all_fakes:
        for end in ('child_end', 'parent_end'):
            try:
                getattr(w.pipe, end).close()
            except Exception:
                pass
    return outs, details
