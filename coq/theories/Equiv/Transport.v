(* C02/C01: the final message of a process worker reaches the parent exactly as sent, whatever the parent does in
   the meantime.  The child (after its identity has been consumed by the constructor) sends at most ONE message [m]
   on the data pipe and exits; the parent interleaves wait() calls (which may receive the message early, so that a
   result larger than the pipe does not block the child) and, once the child is gone, _get_result().
   Parameterised by the shape flags regenerated from ProcessWorker.wait / _get_result (Gen/Transport.v). *)
From Coq Require Export List Bool.
From PW Require Export Equiv.TransportFlags.
Export ListNotations.

Section Transport.
  Variable msg : Type.
  Variable fl : tflags.

  Inductive outcome := Report (m : msg) | NoReport.      (* NoReport is (False, None) *)

  Record st := mkT {
    pipe : list msg;          (* written by the child, not yet read *)
    exited : bool;            (* the child is gone: its end of the pipe is closed *)
    early : option msg;       (* self._early_msg *)
    result : option outcome   (* self._result *)
  }.

  Inductive ev :=
  | CSend (m : msg)      (* the child writes its final message *)
  | CExit                (* the child exits (or is killed) *)
  | PWait                (* the parent calls wait(timeout): poll the data pipe, then join *)
  | PGet.                (* the parent calls result / error / has_error / user_state *)

  (* poll(timeout) is true when a message or EOF is there *)
  Definition ready (s : st) : bool := match pipe s with [] => exited s | _ => true end.

  Definition step (s : st) (e : ev) : st :=
    match e with
    | CSend m => if exited s then s else mkT (pipe s ++ [m]) false (early s) (result s)
    | CExit => mkT (pipe s) true (early s) (result s)
    | PWait =>
        if exited s && match result s with Some _ => true | None => false end then s else
        if negb (wait_receives fl) then s else
        if wait_keeps_early fl then
          match early s with
          | Some _ => s
          | None => if ready s then match pipe s with
                                    | m :: r => mkT r (exited s) (Some m) (result s)
                                    | [] => s            (* EOF: get() raises, swallowed *)
                                    end
                    else s
          end
        else
          (* overwrites whatever an earlier wait() received *)
          if ready s then match pipe s with
                          | m :: r => mkT r (exited s) (Some m) (result s)
                          | [] => mkT [] (exited s) None (result s)
                          end
          else mkT (pipe s) (exited s) None (result s)
    | PGet =>
        if negb (exited s) && result_only_when_dead fl then s else     (* is_alive(): nothing is decided yet *)
        match result s with
        | Some _ => s
        | None =>
            let r0 := if result_from_early fl then early s else None in
            let r1 := if result_drains fl then match rev (pipe s) with m :: _ => Some m | [] => r0 end else r0 in
            let rest := if result_drains fl then [] else pipe s in
            mkT rest (exited s) (early s)
                (match r1 with
                 | Some m => Some (Report m)
                 | None => if result_default fl then Some NoReport else None
                 end)
        end
    end.

  Definition run (s : st) (es : list ev) : st := fold_left step es s.
  Definition init : st := mkT [] false None None.

  (* what the child did, read off the history *)
  Fixpoint sent_before_exit (es : list ev) (exited_ : bool) (acc : option msg) : option msg :=
    match es with
    | [] => acc
    | CSend m :: r => sent_before_exit r exited_ (if exited_ then acc else Some m)
    | CExit :: r => sent_before_exit r true acc
    | _ :: r => sent_before_exit r exited_ acc
    end.

  (* the child sends at most one message *)
  Fixpoint sends (es : list ev) : nat :=
    match es with [] => O | CSend _ :: r => S (sends r) | _ :: r => sends r end.
End Transport.

Arguments Report {msg}. Arguments NoReport {msg}.
Arguments CSend {msg}. Arguments CExit {msg}. Arguments PWait {msg}. Arguments PGet {msg}.
