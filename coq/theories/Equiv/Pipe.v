(* C02 (iv): a child writing a result of any size through a pipe of bounded capacity, and the
   parent waiting for it.  Two parent policies: [drains = true] is ProcessWorker.wait as of the
   fix (it receives the message while waiting), [drains = false] the pinned code (it only joins). *)
From Coq Require Export List Bool Arith Lia.
Export ListNotations.

Record st := mkSt { to_write : nat; fill : nat; got : nat; child_done : bool }.

Section Pipe.
  Variable cap : nat.
  Variable drains : bool.

  Definition child_can (s : st) : bool := negb (child_done s) && ((to_write s =? 0) || (fill s <? cap)).
  Definition parent_can (s : st) : bool := drains && (0 <? fill s).
  Definition finished (s : st) : bool := child_done s && (drains || true).

  (* the child writes as much as fits, or exits once everything is written *)
  Definition child_step (s : st) : st :=
    if to_write s =? 0 then mkSt 0 (fill s) (got s) true
    else let k := Nat.min (to_write s) (cap - fill s) in mkSt (to_write s - k) (fill s + k) (got s) false.
  Definition parent_step (s : st) : st := mkSt (to_write s) 0 (got s + fill s) (child_done s).

  Definition stuck (s : st) : bool := negb (child_done s) && negb (child_can s) && negb (parent_can s).

  (* an arbitrary scheduler: true = let the child move (if it can), false = the parent *)
  Definition step (s : st) (pick_child : bool) : st :=
    if pick_child then (if child_can s then child_step s else if parent_can s then parent_step s else s)
    else (if parent_can s then parent_step s else if child_can s then child_step s else s).

  Definition measure (s : st) : nat := 2 * to_write s + fill s + (if child_done s then 0 else 1).
End Pipe.

(* with the draining parent nothing ever gets stuck, whatever the size and the capacity *)
Lemma never_stuck cap s : 0 < cap -> fill s <= cap -> stuck cap true s = false.
Proof.
  intros Hc Hf. unfold stuck, child_can, parent_can. destruct (child_done s); simpl; [reflexivity|].
  destruct (Nat.eqb_spec (to_write s) 0); simpl; [reflexivity|].
  destruct (Nat.ltb_spec (fill s) cap); simpl; [reflexivity|].
  destruct (Nat.ltb_spec 0 (fill s)); simpl; [reflexivity|lia].
Qed.

Lemma step_fill_bound cap b s : 0 < cap -> fill s <= cap -> fill (step cap true s b) <= cap.
Proof.
  intros Hc Hf. unfold step, child_can, parent_can, child_step, parent_step.
  destruct b, (child_done s), (Nat.eqb_spec (to_write s) 0), (Nat.ltb_spec (fill s) cap), (Nat.ltb_spec 0 (fill s));
    simpl; try lia; try (destruct (to_write s =? 0); simpl; lia).
Qed.

(* every scheduler step makes progress until the child has exited *)
Lemma step_decreases cap b s :
  0 < cap -> fill s <= cap -> child_done s = false ->
  measure (step cap true s b) < measure s.
Proof.
  intros Hc Hf Hd. unfold step, child_can, parent_can, child_step, parent_step, measure. rewrite Hd. simpl.
  destruct (Nat.eqb_spec (to_write s) 0) as [E|E]; simpl.
  - destruct b; [rewrite E; simpl; lia|].
    destruct (Nat.ltb_spec 0 (fill s)); simpl; rewrite ?E; simpl; lia.
  - destruct (Nat.ltb_spec (fill s) cap), (Nat.ltb_spec 0 (fill s)), b; simpl;
      try (destruct (Nat.eqb_spec (to_write s - Nat.min (to_write s) (cap - fill s)) 0)); simpl; try lia.
Qed.

Fixpoint run (cap : nat) (drains : bool) (s : st) (sched : list bool) : st :=
  match sched with [] => s | b :: r => run cap drains (step cap drains s b) r end.

(* termination: under ANY schedule the child has exited after at most 2n+1 moves, for every size n *)
Theorem wait_terminates cap : 0 < cap -> forall sched s,
  fill s <= cap -> measure s <= length sched -> child_done (run cap true s sched) = true.
Proof.
  intros Hc. induction sched as [|b r IH]; intros s Hf Hm; simpl in *.
  - unfold measure in Hm. destruct (child_done s); [reflexivity|lia].
  - destruct (child_done s) eqn:Hd.
    + (* already done: stays done *)
      assert (Hs : child_done (step cap true s b) = true).
      { unfold step, child_can, parent_can, parent_step. rewrite Hd. simpl. destruct b, (0 <? fill s); simpl; auto. }
      clear IH Hm. revert Hs. generalize (step cap true s b). induction r as [|b' r' IHr]; intros s' Hs; simpl; [exact Hs|].
      apply IHr. unfold step, child_can, parent_can, parent_step. rewrite Hs. simpl. destruct b', (0 <? fill s'); simpl; auto.
    + apply IH; [now apply step_fill_bound|]. pose proof (step_decreases cap b s Hc Hf Hd). lia.
Qed.

(* the pinned parent (join only) deadlocks as soon as the result exceeds the capacity *)
Theorem join_only_deadlocks cap n : 0 < cap -> cap < n ->
  exists s, s = run cap false (mkSt n 0 0 false) [true] /\ stuck cap false s = true
            /\ forall sched, run cap false s sched = s.
Proof.
  intros Hc Hn. eexists. split; [reflexivity|]. simpl.
  unfold step, child_can, parent_can, child_step. simpl.
  assert (n =? 0 = false) as -> by (apply Nat.eqb_neq; lia).
  assert (0 <? cap = true) as -> by (apply Nat.ltb_lt; lia). simpl.
  rewrite Nat.sub_0_r. replace (Nat.min n cap) with cap by lia.
  assert (Hs : stuck cap false (mkSt (n - cap) cap 0 false) = true).
  { unfold stuck, child_can, parent_can. simpl.
    assert (n - cap =? 0 = false) as -> by (apply Nat.eqb_neq; lia).
    assert (cap <? cap = false) as -> by (apply Nat.ltb_ge; lia). reflexivity. }
  split; [exact Hs|].
  induction sched as [|b r IH]; simpl; [reflexivity|].
  assert (step cap false (mkSt (n - cap) cap 0 false) b = mkSt (n - cap) cap 0 false) as ->; [|exact IH].
  unfold step, child_can, parent_can. simpl.
  assert (n - cap =? 0 = false) as -> by (apply Nat.eqb_neq; lia).
  assert (cap <? cap = false) as -> by (apply Nat.ltb_ge; lia). destruct b; reflexivity.
Qed.
