(* Entry point for the correspondence check of the reception logic (harness/props/c02.py). *)
From PW Require Import Equiv.Transport Gen.Transport.
From Coq Require Import Arith.

(* what the accessors show after each PGet: 0 = still undecided (has_error None), 1 = the value sent, 2 = (False, None) *)
Fixpoint observe (s : st nat) (es : list (ev nat)) : list (nat * nat) :=
  match es with
  | [] => []
  | e :: r =>
      let s' := step nat gen_tflags s e in
      match e with
      | PGet => (match result nat s' with None => (0, 0) | Some (Report m) => (1, m) | Some NoReport => (2, 0) end) :: observe s' r
      | _ => observe s' r
      end
  end.

Fixpoint obs_eqb (a b : list (nat * nat)) : bool :=
  match a, b with
  | [], [] => true
  | (x, y) :: a', (x', y') :: b' => Nat.eqb x x' && Nat.eqb y y' && obs_eqb a' b'
  | _, _ => false
  end.

Definition check_transport (es : list (ev nat)) (obs : list (nat * nat)) : bool :=
  obs_eqb (observe (init nat) es) obs.
