From PW Require Import Equiv.Transport.
From Coq Require Import Lia.

Definition good_tflags (fl : tflags) : Prop :=
  wait_keeps_early fl = true /\ result_from_early fl = true /\ result_drains fl = true /\ result_default fl = true /\ result_only_when_dead fl = true.

Section Proofs.
  Variable msg : Type.
  Variable fl : tflags.
  Hypothesis G : good_tflags fl.

  (* where the one message is: still in the pipe, received early, or already the result *)
  Definition holds (s : st msg) (m : msg) : Prop :=
    (pipe _ s = [m] /\ early _ s = None /\ result _ s = None) \/
    (pipe _ s = [] /\ early _ s = Some m /\ result _ s = None) \/
    (pipe _ s = [] /\ result _ s = Some (Report m)).
  Definition empty (s : st msg) : Prop :=
    pipe _ s = [] /\ early _ s = None /\ (result _ s = None \/ result _ s = Some NoReport).

  (* invariant: [sent] = the message written before the exit, if any; no result is decided while the child lives *)
  Definition Inv (s : st msg) (sent : option msg) : Prop :=
    match sent with Some m => holds s m | None => empty s end
    /\ (exited _ s = false -> result _ s = None).

  Lemma step_inv s e sent :
    Inv s sent ->
    (match e with CSend _ => sent = None | _ => True end) ->
    Inv (step msg fl s e)
        (match e with CSend m => if exited _ s then sent else Some m | _ => sent end).
  Proof.
    destruct G as [G1 [G2 [G3 [G4 G5]]]]. unfold Inv. intros [H R] Hs.
    destruct s as [p x ea re]. cbn [pipe exited early result] in *.
    destruct e as [m| | |]; cbn [step pipe exited early result].
    - subst sent. destruct x; [split; assumption|].
      destruct H as [P [Ea Re]]. cbn in P, Ea. subst p ea. rewrite (R eq_refl). cbn. split; [left; auto|auto].
    - cbn. split; [|discriminate]. destruct sent as [m|]; exact H.
    - destruct (x && match re with Some _ => true | None => false end) eqn:X; [split; assumption|].
      destruct (negb (wait_receives fl)); [split; assumption|]. rewrite G1.
      destruct sent as [m|].
      + destruct H as [[P [Ea Re]]|[[P [Ea Re]]|[P Re]]]; cbn in *; subst.
        * unfold ready. cbn. split; [right; left; auto|exact R].
        * split; [right; left; auto|exact R].
        * destruct ea; [split; [right; right; auto|exact R]|].
          unfold ready. cbn. destruct x; cbn; (split; [right; right; auto|exact R]).
      + destruct H as [P [Ea Re]]. cbn in *. subst. unfold ready. cbn.
        destruct x; cbn; (split; [split; auto|exact R]).
    - rewrite G5, Bool.andb_true_r. destruct x; cbn [negb]; [|split; assumption].
      destruct re as [o|]; [split; [exact H|exact R]|].
      rewrite G2, G3, G4. cbn. split; [|discriminate].
      destruct sent as [m|].
      + destruct H as [[P [Ea Re]]|[[P [Ea Re]]|[P Re]]]; cbn in *; subst; [| |discriminate].
        * right. right. cbn. auto.
        * right. right. cbn. auto.
      + destruct H as [P [Ea Re]]. cbn in *. subst. cbn. split; auto.
  Qed.

  Lemma init_inv : Inv (init msg) None.
  Proof. split; [split; auto|auto]. Qed.

  (* the history as the child sees it: at most one send, and what was sent before the exit *)
  Lemma run_inv : forall es s sent,
    Inv s sent -> (sent <> None -> sends _ es = 0) -> (sends _ es <= 1) ->
    Inv (run msg fl s es) (match sent with Some m => Some m | None => sent_before_exit _ es (exited _ s) None end).
  Proof.
    induction es as [|e r IH]; intros s sent Iv Hn Hs; cbn [run fold_left sent_before_exit].
    - destruct sent; exact Iv.
    - destruct e as [m| | |]; cbn [sends] in *.
      + assert (sent = None) as -> by (destruct sent; [specialize (Hn ltac:(discriminate)); discriminate|reflexivity]).
        pose proof (step_inv s (CSend m) None Iv eq_refl) as I'.
        destruct (exited _ s) eqn:E.
        * assert (St : step msg fl s (CSend m) = s) by (cbn; rewrite E; reflexivity).
          rewrite St in *. exact (IH s None I' ltac:(congruence) ltac:(lia)) || (specialize (IH s None I' ltac:(congruence) ltac:(lia)); rewrite E in IH; exact IH).
        * assert (X : exited _ (step msg fl s (CSend m)) = false) by (cbn; rewrite E; reflexivity).
          specialize (IH (step msg fl s (CSend m)) (Some m) I' ltac:(intros; lia) ltac:(lia)).
          (* after the only send, the rest of the history contains none: sent_before_exit keeps Some m *)
          assert (K : forall es b, sends msg es = 0 -> sent_before_exit msg es b (Some m) = Some m).
          { induction es as [|e0 r0 IH0]; intros b Hz; [reflexivity|]. destruct e0; cbn in *; try discriminate; auto. }
          rewrite K by lia. exact IH.
      + pose proof (step_inv s CExit sent Iv I) as I'.
        specialize (IH (step msg fl s CExit) sent I' Hn Hs). cbn in IH. exact IH.
      + pose proof (step_inv s PWait sent Iv I) as I'.
        specialize (IH (step msg fl s PWait) sent I' Hn Hs).
        assert (X : exited _ (step msg fl s PWait) = exited _ s).
        { destruct G as [G1 _]. cbn. destruct (exited _ s && _); [reflexivity|]. destruct (negb _); [reflexivity|]. rewrite G1.
          destruct (early _ s); [reflexivity|]. destruct (ready _ s); [destruct (pipe _ s); reflexivity|reflexivity]. }
        rewrite X in IH. exact IH.
      + pose proof (step_inv s PGet sent Iv I) as I'.
        specialize (IH (step msg fl s PGet) sent I' Hn Hs).
        assert (X : exited _ (step msg fl s PGet) = exited _ s).
        { destruct G as [_ [_ [_ [_ G5]]]]. cbn. rewrite G5, Bool.andb_true_r. destruct (exited _ s) eqn:E; cbn; [|exact E]. destruct (result _ s); [exact E|reflexivity]. }
        rewrite X in IH. exact IH.
  Qed.

  (* THE theorem: whatever the parent did before - any number of wait() calls, early or late, accessor calls while
     the child was alive - once the child is gone the accessors yield exactly what the child sent before it exited,
     and (False, None) if it sent nothing; and that answer never changes afterwards *)
  Theorem transport_exact es es' :
    sends _ es <= 1 -> sends _ es' = 0 ->
    let s := run msg fl (run msg fl (init msg) (es ++ [CExit])) (PGet :: es') in
    result _ s = Some (match sent_before_exit _ es false None with Some m => Report m | None => NoReport end).
  Proof.
    intros Hs Hz. cbn zeta.
    assert (Hs' : sends msg (es ++ [CExit]) <= 1).
    { assert (Eq : sends msg (es ++ [CExit]) = sends msg es).
      { clear. induction es as [|e r IH]; cbn; [reflexivity|]. destruct e; cbn; rewrite ?IH; reflexivity. }
      rewrite Eq. exact Hs. }
    pose proof (run_inv (es ++ [CExit]) (init msg) None init_inv ltac:(congruence) Hs') as Iv. cbn [init exited] in Iv.
    assert (Hsb : sent_before_exit msg (es ++ [CExit]) false None = sent_before_exit msg es false None).
    { generalize false at 1 2. generalize (@None msg). clear. induction es as [|e r IH]; intros a b; cbn; [reflexivity|].
      destruct e; cbn; auto. }
    rewrite Hsb in Iv.
    assert (Hx : exited _ (run msg fl (init msg) (es ++ [CExit])) = true).
    { unfold run. rewrite fold_left_app. cbn. reflexivity. }
    set (s1 := run msg fl (init msg) (es ++ [CExit])) in *.
    set (sent := sent_before_exit msg es false None) in *.
    pose proof (step_inv s1 PGet sent Iv I) as I2.
    assert (R2 : result _ (step msg fl s1 PGet) = Some (match sent with Some m => Report m | None => NoReport end)).
    { destruct G as [G1 [G2 [G3 [G4 G5]]]]. cbn. rewrite Hx. cbn. destruct Iv as [H R].
      destruct (result _ s1) as [o|] eqn:Er.
      - destruct sent as [m|]; cbn.
        + destruct H as [[_ [_ X]]|[[_ [_ X]]|[_ X]]]; congruence.
        + destruct H as [_ [_ [X|X]]]; congruence.
      - rewrite G2, G3, G4. destruct sent as [m|]; cbn.
        + destruct H as [[P [Ea _]]|[[P [Ea _]]|[_ X]]]; [rewrite P|rewrite P, Ea|congruence]; reflexivity.
        + destruct H as [P [Ea _]]. rewrite P, Ea. reflexivity. }
    (* afterwards nothing changes the result *)
    change (run msg fl s1 (PGet :: es')) with (run msg fl (step msg fl s1 PGet) es').
    assert (Hx2 : exited _ (step msg fl s1 PGet) = true).
    { cbn. rewrite Hx. cbn. destruct (result _ s1); [exact Hx|reflexivity]. }
    revert R2 Hx2 Hz. generalize (step msg fl s1 PGet). clear - G.
    induction es' as [|e r IH]; intros s R X Hz; cbn [run fold_left]; [exact R|].
    destruct e; cbn [sends] in Hz; try discriminate; apply IH; auto; cbn; rewrite ?X, ?R; cbn; auto.
  Qed.
End Proofs.

(* the regression which keeps only what the LAST wait() received: a message received by an earlier wait() is lost *)
Theorem lost_without_guard :
  exists fl, wait_keeps_early fl = false /\ wait_receives fl = true /\ result_from_early fl = true /\ result_drains fl = true /\
    result nat (run nat fl (init nat) [CSend 7; PWait; CExit; PWait; PGet]) = Some NoReport.
Proof. exists (Build_tflags true false true true true true). repeat split. Qed.

(* C16: nothing of the child's final message - outcome or user state - is taken over by the parent while the child lives,
   for EVERY history of sends, waits and accessor calls (no assumption on how often the child sends) *)
Section Alive.
  Variable msg : Type.
  Variable fl : tflags.
  Hypothesis D : result_only_when_dead fl = true.

  Lemma step_alive_no_result s e :
    (exited _ s = false -> result _ s = None) -> exited _ (step msg fl s e) = false -> result _ (step msg fl s e) = None.
  Proof.
    intros H. destruct s as [p x ea re]. cbn [pipe exited early result] in *.
    destruct e as [m| | |]; cbn [step pipe exited early result].
    - destruct x; cbn; auto.
    - cbn. discriminate.
    - repeat match goal with
             | |- context [if ?b then _ else _] => destruct b
             | |- context [match ?o with Some _ => _ | None => _ end] => destruct o
             | |- context [match ?l with [] => _ | _ :: _ => _ end] => destruct l
             end; cbn; auto.
    - rewrite D, Bool.andb_true_r. destruct x; cbn [negb]; [|cbn; auto].
      destruct re; cbn; intros; try discriminate; auto.
  Qed.

  Theorem alive_no_result es : forall s,
    (exited _ s = false -> result _ s = None) -> exited _ (run msg fl s es) = false -> result _ (run msg fl s es) = None.
  Proof.
    induction es as [|e r IH]; intros s H; cbn [run fold_left]; [exact H|].
    apply IH. apply step_alive_no_result. exact H.
  Qed.
End Alive.

(* without the guard an accessor called after a wait() that received the message takes it over although the child is alive *)
Theorem taken_over_alive_without_guard :
  let s := run nat (Build_tflags true true true true true false) (init nat) [CSend 7; PWait; PGet] in
  exited _ s = false /\ result _ s = Some (Report 7).
Proof. split; reflexivity. Qed.
