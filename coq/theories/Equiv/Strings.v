From Coq Require Export String Ascii List Bool Arith.
Open Scope nat_scope.
Definition lower_ascii (c : ascii) : ascii :=
  let n := nat_of_ascii c in if (65 <=? n) && (n <=? 90) then ascii_of_nat (n + 32) else c.
Definition upper_ascii (c : ascii) : ascii :=
  let n := nat_of_ascii c in if (97 <=? n) && (n <=? 122) then ascii_of_nat (n - 32) else c.
Fixpoint str_lower (s : string) : string := match s with EmptyString => EmptyString | String c r => String (lower_ascii c) (str_lower r) end.
Fixpoint str_upper (s : string) : string := match s with EmptyString => EmptyString | String c r => String (upper_ascii c) (str_upper r) end.
