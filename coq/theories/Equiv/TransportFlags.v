(* Shape of the reception of a process worker's final message, read from the source by tools/py2coq/gen_transport.py. *)
Record tflags := {
  wait_receives : bool;
  wait_keeps_early : bool;
  result_from_early : bool;
  result_drains : bool;
  result_default : bool;
  result_only_when_dead : bool    (* _get_result starts with `if self.is_alive(): return None`: nothing is taken over while the child lives *)
}.
