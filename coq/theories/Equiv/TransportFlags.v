(* Shape of the reception of a process worker's final message, read from the source by tools/py2coq/gen_transport.py. *)
Record tflags := {
  wait_receives : bool;
  wait_keeps_early : bool;
  result_from_early : bool;
  result_drains : bool;
  result_default : bool
}.
