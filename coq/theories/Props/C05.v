(* C05 - persistent workers process each enqueue exactly once, in order, with merged
   arguments computed on pristine defaults.
   do_work_* / send_result_* / cleanup_* are GENERATED from the three persistent_*.py
   (Gen/Persist.v); Persist/Model.v interprets them (defaults as mutable values, the copy
   kind of each assignment decides whether a target's mutations leak into later calls). *)
From PW Require Import Persist.Model Gen.Persist Persist.Proofs.
Open Scope Z_scope.

Section C05.
  Variable f : list elem -> kw -> Z.       (* any target *)
  Variable mutates : bool.                  (* whether it mutates every argument it gets *)

  (* For every default args (list or tuple, any length), default kwargs and sequence of
     enqueues: the child writes result k = f(merge(defaults, enqueue k)) numbered k, on
     PRISTINE defaults whatever the target did to earlier arguments, then exactly one end
     marker carrying the number of processed enqueues; it does not die. *)
  Theorem C05_child_stream_thread : forall d tuple dk es,
    child_life f mutates send_result_thread do_work_thread cleanup_thread d tuple dk es =
    (number O (expected f d dk es) ++ [MEnd (length es)], None).
  Proof. exact (child_stream_thread f mutates). Qed.

  Theorem C05_child_stream_process : forall d tuple dk es,
    child_life f mutates send_result_process do_work_process cleanup_process d tuple dk es =
    (number O (expected f d dk es) ++ [MEnd (length es)], None).
  Proof. exact (child_stream_process f mutates). Qed.

  Theorem C05_child_stream_remote : forall d tuple dk es,
    child_life f mutates send_result_remote do_work_remote cleanup_remote d tuple dk es =
    (number O (expected f d dk es) ++ [MEnd (length es)], None).
  Proof. exact (child_stream_remote f mutates). Qed.
End C05.

(* the merge rule *)
Theorem C05_merge_length : forall d e, length (merge_args d e) = Nat.max (length (e_args e)) (length d).
Proof. exact merge_args_length. Qed.
Theorem C05_merge_fewer : forall d e, (length (e_args e) <= length d)%nat ->
  merge_args d e = map fresh (e_args e ++ skipn (length (e_args e)) d).
Proof. exact merge_args_fewer. Qed.
Theorem C05_merge_more : forall d e, (length d <= length (e_args e))%nat -> merge_args d e = map fresh (e_args e).
Proof. exact merge_args_more. Qed.

(* parent side: for EVERY history of enqueue / next_result / close / wait / call - and of inputs on which the target raises, so that
   the worker dies on its own - the values handed out are a prefix, in order, of the results of the accepted enqueues, and result
   after wait() is their number; enqueue after close/death is refused; call(x) with nothing outstanding returns the value for x.
   [gd] is what `enqueue` looks at before it accepts an input; the three generated guards are good. *)
Theorem C05_generated_guards_are_good :
  guard_good enq_guard_thread = true /\ guard_good enq_guard_process = true /\ guard_good enq_guard_remote = true.
Proof. repeat split; reflexivity. Qed.

Theorem C05_parent_history : forall gd g ops, guard_good gd = true ->
  let '(vs, acc, sf) := trace gd g pst0 ops in
  vs = firstn (length vs) (map g acc) /\ n_enq sf = length acc.
Proof. intros gd g ops H. exact (delivered_is_prefix gd g H ops). Qed.

Theorem C05_enqueue_after_close : forall gd g s e, guard_good gd = true ->
  p_closed s = true \/ p_dead s = true -> snd (pstep gd g s (PEnq e)) = OClosedErr.
Proof. intros gd g s e H. exact (enqueue_after_close gd g H s e). Qed.

(* ... also when the enqueue is the very first thing done with the worker after it died on its own *)
Theorem C05_enqueue_first_thing_after_death : forall gd g s e, guard_good gd = true ->
  refused gd s = false -> snd (pstep gd g (fst (pstep gd g s PDie)) (PEnq e)) = OClosedErr.
Proof. intros gd g s e H. exact (enqueue_first_thing_after_death gd g H s e). Qed.

(* a guard that consults only what the parent object remembers (`_closed`, the cached `_dead`) instead of asking accepts an input for a
   worker that died a while ago: the input is never processed, accepted enqueues and delivered results no longer agree *)
Theorem C05_refuted_if_enqueue_trusts_the_cached_flag : exists g,
  prun (mkGuard false true true) g pst0 [PDie; PEnq (mkEnq [10] [])] = [OOk; OOk].
Proof. exists (fun _ => 0). vm_compute. reflexivity. Qed.

Theorem C05_call_returns_own_value : forall gd g s e, guard_good gd = true -> consistent s ->
  unread s = [] -> p_closed s = false -> p_dead s = false -> snd (pstep gd g s (PCall e)) = OVal (g e).
Proof. intros gd g s e H. exact (call_no_outstanding gd g H s e). Qed.

Theorem C05_reachable_states_are_consistent : forall gd g s o, consistent s -> consistent (fst (pstep gd g s o)).
Proof. intros gd g s o. exact (pstep_consistent gd g s o). Qed.

(* non-vacuity, with tuple defaults and a mutating target *)
Example C05_example :
  fst (child_life (fun a _ => fold_left (fun h e => h * 10 + fst e + Z.of_nat (snd e)) a 0) true
         send_result_thread do_work_thread cleanup_thread [7; 8] true [] [mkEnq [1] []; mkEnq [] []; mkEnq [1; 2; 3] []])
  = [MRes 1 18; MRes 2 78; MRes 3 123; MEnd 3].
Proof. vm_compute. reflexivity. Qed.

Print Assumptions C05_child_stream_thread.
Print Assumptions C05_child_stream_process.
Print Assumptions C05_child_stream_remote.
Print Assumptions C05_merge_length.
Print Assumptions C05_merge_fewer.
Print Assumptions C05_merge_more.
Print Assumptions C05_parent_history.
Print Assumptions C05_enqueue_after_close.
Print Assumptions C05_generated_guards_are_good.
Print Assumptions C05_enqueue_first_thing_after_death.
Print Assumptions C05_refuted_if_enqueue_trusts_the_cached_flag.
Print Assumptions C05_reachable_states_are_consistent.
Print Assumptions C05_call_returns_own_value.
