(* C17 - restart() yields a fresh, equivalent, live worker - or raises.
   Model: PoolLife/Model.v [restart_w] (PersistentWorker.restart over the control model Ctrl/Model.v). *)
From PW Require PoolLife.Restart Gen.Restart.
From PW Require Import Ctrl.Model Ctrl.Proofs PoolLife.Model PoolLife.Proofs.

(* For every kind, every state of the old incarnation reachable by any history of is_alive / wait / terminate /
   close on a child of any class, and every timeout: restart either returns - then the OLD child is gone and the
   new incarnation is a fresh, started, live worker of the same kind under the new id - or raises, and then the
   old child is still alive and still the registered one.  Never "abandoned and replaced". *)
Theorem C17_restart_replaces_only_a_dead_child :
  forall k c pre t i c',
    let w := mkWk 0 k (fst (run k (fresh c) pre)) in
    match snd (restart_w t i c' w) with
    | Some nw => alive (ws (fst (restart_w t i c' w))) = false
                 /\ nw = mkWk i k (fresh c') /\ alive (ws nw) = true /\ dead (ws nw) = false /\ log (ws nw) = []
    | None => alive (ws (fst (restart_w t i c' w))) = true
    end.
Proof.
  intros k c pre t i c' w.
  assert (Hw : WOK w).
  { unfold WOK, w. cbn [ws]. apply run_invariant; apply fresh_consistent. }
  destruct (restart_w_spec t i c' w Hw) as [_ H].
  destruct (snd (restart_w t i c' w)) as [nw|]; [|exact H].
  destruct H as [Hd ->]. split; [exact Hd|]. repeat split.
Qed.

(* a process worker can always be stopped (its terminate() forces), so its restart never raises *)
Theorem C17_process_restart_never_raises :
  forall k c pre t i c',
    is_process_kind k = true ->
    snd (restart_w t i c' (mkWk 0 k (fst (run k (fresh c) pre)))) <> None.
Proof.
  intros k c pre t i c' Hk.
  pose proof (run_invariant k pre (fresh c) (proj1 (fresh_consistent c)) (proj2 (fresh_consistent c))) as [Hs Hc].
  set (s := fst (run k (fresh c) pre)) in *.
  unfold restart_w. cbn [knd ws].
  pose proof (step_ok k s (Wait t) Hs Hc) as [S1 C1].
  destruct (step k s (Wait t)) as [s1 r]. cbn [fst] in *. destruct r; [discriminate|].
  pose proof (terminate_force_kills k s1 TFin Hk C1) as K.
  pose proof (step_ok k s1 (Terminate TFin (default_force k)) S1 C1) as [S2 C2].
  unfold default_force in *. rewrite Hk in *.
  destruct (step k s1 (Terminate TFin true)) as [s2 x]. cbn [fst] in *.
  assert (T : snd (step k s2 IsAlive) = false).
  { unfold step, is_alive. rewrite S2, K. destruct (dead s2); reflexivity. }
  destruct (step k s2 IsAlive) as [s3 a]. cbn [fst snd] in *. subst a. discriminate.
Qed.

(* Pool.restart_workers keeps the invariant of C09: every previous incarnation it let go of is dead *)
Theorem C17_restart_workers_lets_go_of_dead_workers_only :
  forall t news p, Safe p -> pclosed p = false ->
    Safe (fst (restart_workers t news p)).
Proof.
  intros t news p S Hc. unfold restart_workers. rewrite Hc.
  destruct (restart_all_safe t (workers p) news p S Hc (safe_wok _ S)) as [X _]. exact X.
Qed.

(* "... an equivalent worker: the same target, defaults, name and userid".  Gen/Restart.v is REGENERATED from
   Worker.__init__ (how every constructor option is stored) and from Worker._get_restart_args / RemoteWorker._get_restart_args
   (which stored field is handed to which parameter of the next incarnation).  For EVERY choice of constructor arguments -
   None, falsy values such as userid 0, set_names False, run False, init_state 0, empty args - the next incarnation, built
   from those restart arguments, remembers exactly the same configuration (the user state: the last synchronised one). *)
Theorem C17_restart_arguments_rebuild_the_same_configuration :
  PoolLife.Restart.equivalent_after_restart Gen.Restart.gen_stores Gen.Restart.gen_forward.
Proof.
  intros a f Hin. cbn in Hin.
  repeat (destruct Hin as [<-|Hin]); try contradiction;
    cbv [PoolLife.Restart.stored PoolLife.Restart.restart_env Gen.Restart.gen_stores Gen.Restart.gen_forward find
         PoolLife.Restart.field_eqb PoolLife.Restart.param_eqb fst snd PoolLife.Restart.eval];
    try reflexivity.
  - destruct (a PoolLife.Restart.PArgs); reflexivity.
  - destruct (a PoolLife.Restart.PKwargs); reflexivity.
  - destruct (a PoolLife.Restart.PRun); try reflexivity. destruct (PoolLife.Restart.truthy (a PoolLife.Restart.PTarget)); reflexivity.
Qed.

Theorem C17_remote_restart_arguments_rebuild_the_same_configuration :
  PoolLife.Restart.equivalent_after_restart (Gen.Restart.gen_stores ++ Gen.Restart.gen_remote_stores)
                                            (Gen.Restart.gen_forward ++ Gen.Restart.gen_remote_forward).
Proof.
  intros a f Hin. cbn in Hin.
  repeat (destruct Hin as [<-|Hin]); try contradiction;
    cbv [PoolLife.Restart.stored PoolLife.Restart.restart_env Gen.Restart.gen_stores Gen.Restart.gen_forward
         Gen.Restart.gen_remote_stores Gen.Restart.gen_remote_forward app find
         PoolLife.Restart.field_eqb PoolLife.Restart.param_eqb fst snd PoolLife.Restart.eval];
    try reflexivity.
  - destruct (a PoolLife.Restart.PArgs); reflexivity.
  - destruct (a PoolLife.Restart.PKwargs); reflexivity.
  - destruct (a PoolLife.Restart.PRun); try reflexivity. destruct (PoolLife.Restart.truthy (a PoolLife.Restart.PTarget)); reflexivity.
  - destruct (a PoolLife.Restart.PHost); reflexivity.
  - destruct (a PoolLife.Restart.PMainPath); reflexivity.
Qed.

(* the regression this rules out: forwarding only the options whose value is truthy loses userid 0, run False, ... *)
Definition restart_env_truthy_only (stores : list (PoolLife.Restart.field * PoolLife.Restart.sexpr))
           (forward : list (PoolLife.Restart.param * PoolLife.Restart.field)) (a : PoolLife.Restart.env) : PoolLife.Restart.env :=
  fun p => let v := PoolLife.Restart.restart_env stores forward a p in if PoolLife.Restart.truthy v then v else PoolLife.Restart.VNone.

Theorem C17_refuted_if_only_truthy_options_are_forwarded :
  exists a f, PoolLife.Restart.stored Gen.Restart.gen_stores (restart_env_truthy_only Gen.Restart.gen_stores Gen.Restart.gen_forward a) f
              <> PoolLife.Restart.stored Gen.Restart.gen_stores a f.
Proof.
  exists (fun p => match p with PoolLife.Restart.PUserid => PoolLife.Restart.VFalsy 0 | _ => PoolLife.Restart.VTruthy 1 end), PoolLife.Restart.FUserid.
  vm_compute. discriminate.
Qed.

Example C17_example_thread_that_cannot_be_stopped :
  snd (restart_w TFin 1 Coop (mkWk 0 KPersistentThread (fresh Swallows))) = None
  /\ snd (restart_w TFin 1 Coop (mkWk 0 KPersistentProcess (fresh Stopped))) <> None.
Proof. vm_compute. split; [reflexivity|discriminate]. Qed.

Print Assumptions C17_restart_replaces_only_a_dead_child.
Print Assumptions C17_process_restart_never_raises.
Print Assumptions C17_restart_workers_lets_go_of_dead_workers_only.
Print Assumptions C17_restart_arguments_rebuild_the_same_configuration.
Print Assumptions C17_remote_restart_arguments_rebuild_the_same_configuration.
Print Assumptions C17_refuted_if_only_truthy_options_are_forwarded.
