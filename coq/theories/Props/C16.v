(* C16 - user_state is synchronised child-to-parent at end of life, and only then.
   Over the generated run skeletons (Gen/Skel.v): the translator labels a statement
   SendResOk / SendResErr only if it sends `((ok, value), self._user_state)`, so every report
   carries the state; the parent assigns it when it decodes that message after the death. *)
From PW Require Import Child.Sem Gen.Skel Child.Runs Child.Proofs.
From PW Require Equiv.Transport Equiv.TransportProofs Gen.Transport.

(* every ending that lets the child report - return, its own exception, a graceful terminate
   landing inside the running target - synchronises the state, for thread, process and remote kinds,
   one-shot and persistent *)
Theorem C16_reporting_endings_synchronise :
  forall k pers,
    state_synced k true (run k pers TReturn []) = true
    /\ state_synced k true (run k pers TRaise []) = true
    /\ state_synced k true (run k pers TLoop [(call_point k, term_action k)]) = true.
Proof. exact c16_reporting_endings. Qed.

(* a kill at ANY statement boundary (also part-way through a send): the parent takes over a
   state exactly when the complete result message had been written before the kill *)
Theorem C16_kill_synchronises_only_complete_reports :
  forall k pers t p a, a <> ATerm -> p < BOUND_R -> c16_check (k, pers, t, p, a) = true.
Proof.
  intros k pers t p a Ha Hp. apply (proj1 (forallb_forall c16_check _) c16_all).
  apply in_prod; [apply in_prod; [apply in_prod; [apply in_prod; [apply in_kinds3|apply in_bools]|apply in_targets]|apply in_seq; unfold BOUND_R in *; lia]|apply in_actions; exact Ha].
Qed.

(* "... and only then": the final message of a process worker carries the outcome AND the user state; whatever the parent does -
   any number of timed waits (which may already have RECEIVED the message), accessor calls - and however often the child sends,
   nothing of it is taken over while the child process is alive.  On the reception shape regenerated from ProcessWorker.wait and
   ProcessWorker._get_result (Gen/Transport.v). *)
Theorem C16_nothing_is_taken_over_while_the_child_lives :
  forall (msg : Type) (es : list (Equiv.Transport.ev msg)),
    Equiv.Transport.exited _ (Equiv.Transport.run msg Gen.Transport.gen_tflags (Equiv.Transport.init msg) es) = false ->
    Equiv.Transport.result _ (Equiv.Transport.run msg Gen.Transport.gen_tflags (Equiv.Transport.init msg) es) = None.
Proof.
  intros msg es. apply (Equiv.TransportProofs.alive_no_result msg Gen.Transport.gen_tflags eq_refl). intros _. reflexivity.
Qed.

Theorem C16_refuted_if_the_accessors_use_a_message_received_early :
  let s := Equiv.Transport.run nat (Equiv.TransportFlags.Build_tflags true true true true true false) (Equiv.Transport.init nat)
             [Equiv.Transport.CSend 7; Equiv.Transport.PWait; Equiv.Transport.PGet] in
  Equiv.Transport.exited _ s = false /\ Equiv.Transport.result _ s = Some (Equiv.Transport.Report 7).
Proof. exact Equiv.TransportProofs.taken_over_alive_without_guard. Qed.

Print Assumptions C16_reporting_endings_synchronise.
Print Assumptions C16_kill_synchronises_only_complete_reports.
Print Assumptions C16_nothing_is_taken_over_while_the_child_lives.
Print Assumptions C16_refuted_if_the_accessors_use_a_message_received_early.
