(* C09 - no worker outlives its pool; a pool stays usable across runs and restarts.
   Models: PoolLife/Model.v (registry: add_worker / attach / restart_workers / close / terminate /
   __exit__ composed with the workers' control model Ctrl/Model.v) and Pool/Model.v [rounds]
   (consecutive runs of one pool with deaths and restart_workers in between). *)
From PW Require Pool.Model Pool.Inv Pool.Rounds Ctrl.RemoteLive Gen.RemoteLive.
From PW Require Import Ctrl.Model Ctrl.Proofs PoolLife.Model PoolLife.Proofs.
From Coq Require Import Permutation.

(* (a) For EVERY history of add_worker (succeeding, failing in the constructor, failing in the hook, handing
   back a registered worker), attach, kills, restart_workers, close, terminate and leaving the with-block
   (normally or through an exception), with children of any class (cooperative, swallowing, blocked in C,
   interpreter lock held, stopped): unless forced termination was switched off, once the pool is closed every
   process worker it ever held - registered, dropped by a failed registration, or replaced by a restart - has
   no child left.  (RaisedValueNew = a new worker reporting an id already registered: impossible with live
   workers, whose (host, pid, tid) ids are unique.) *)
Theorem C09_no_worker_outlives_its_pool :
  forall t f ops,
    forallb (forcing f) ops = true ->
    ~ In RaisedValueNew (snd (prun (empty_pool t f) ops)) ->
    pclosed (fst (prun (empty_pool t f) ops)) = true ->
    Forall ProcDead (workers (fst (prun (empty_pool t f) ops))) /\
    Forall ProcDead (gone (fst (prun (empty_pool t f) ops))) /\
    queues (fst (prun (empty_pool t f) ops)) = [].
Proof.
  intros t f ops Hf Hn Hc.
  pose proof (prun_safe ops (empty_pool t f) (empty_safe t f) Hf Hn) as S.
  destruct (safe_closed _ S Hc) as [A B]. split; [exact A|]. split; [exact (safe_gone _ S)|exact B].
Qed.

(* close(), terminate() and leaving the with-block always leave the pool closed; a closed pool accepts nothing *)
Theorem C09_close_closes : forall t f g p, pclosed (pool_close t f g p) = true.
Proof. exact close_closes. Qed.

Theorem C09_closed_pool_is_inert :
  forall p o, pclosed p = true -> workers (fst (pstep p o)) = workers p \/ exists i, o = PKill i.
Proof. exact closed_inert. Qed.

(* (c) a failed add_worker leaves the registry as it was, and the half-built worker has been terminated *)
Theorem C09_failed_add_is_not_leaked :
  forall p w h p' r,
    add_worker p (Some w) h = (p', r) -> r <> Done -> r <> RaisedValueNew -> WOK w ->
    workers p' = workers p /\ queues p' = queues p /\
    (pclosed p = false -> exists w', In w' (gone p') /\ wid w' = wid w /\ ProcDead w').
Proof. exact add_worker_failure. Qed.

(* (b) consecutive runs: whatever happened before - earlier runs with deaths, kills while idle, complete or
   partial restart_workers - a run that returns holds exactly one result per input OF THAT RUN. *)
Theorem C09_each_run_answers_its_own_inputs :
  forall c pc rs k bs inputs script r,
    Pool.Model.retry c = true ->
    nth_error rs k = Some (bs, inputs, script) ->
    nth_error (Pool.Model.rounds c (Pool.Model.fresh pc) rs) k = Some (Pool.Model.Return r) ->
    Permutation r (map (Pool.Model.f c) inputs).
Proof. exact Pool.Rounds.rounds_from_fresh. Qed.

(* Non-vacuity: a mixed pool with a stopped process child and a swallowing thread child, a failed registration,
   a restart and an exit through an exception. *)
Example C09_example_history :
  let '(p, rs) := prun (empty_pool TFin FDefault)
        [PAdd 1 KPersistentProcess Stopped false; PAdd 2 KPersistentThread Swallows false; PAdd 3 KPersistentProcess GilHeld true;
         PRestart TFin [(4, Coop); (5, Coop)]; PKill 4; PExit true] in
  (* the restart stops at the thread which swallows the exception; that thread survives the pool (threads cannot be
     forced), every process child is gone *)
  rs = [Done; Done; RaisedHook; RaisedRuntime; Done; Done] /\ map wid (workers p) = [2; 4] /\ pclosed p = true
  /\ map (fun w => (wid w, alive (ws w))) (workers p ++ gone p) = [(2, true); (4, false); (3, false); (1, false)].
Proof. vm_compute. repeat split. Qed.

Example C09_example_rounds : Pool.Rounds.example_rounds_statement.
Proof. exact Pool.Rounds.example_rounds. Qed.

(* remote workers of a pool: Pool._close skips a worker for which is_alive() says False and otherwise relies on wait()/terminate() -
   "by contract" in PoolLife/Model.v.  The contract, for the parent side as regenerated from the source (Gen/RemoteLive.v): an answer
   "dead" of any of the three is only given when the child process on the server is gone. *)
Theorem C09_remote_workers_are_skipped_only_when_their_process_is_gone :
  forall s e s', Ctrl.RemoteLive.inv s = true ->
    Ctrl.RemoteLive.run Ctrl.RemoteLive.MAlive e Gen.RemoteLive.gen_remote_is_alive s = (Some true, s') -> Ctrl.RemoteLive.proc s' = false.
Proof.
  intros s e s' I R.
  destruct (Ctrl.RemoteLive.sound_means Ctrl.RemoteLive.MAlive Gen.RemoteLive.gen_remote_is_alive ltac:(vm_compute; reflexivity) s e I)
    as [dead [s2 [R2 [I2 D]]]].
  rewrite R in R2. inversion R2; subst. apply D; reflexivity.
Qed.

Print Assumptions C09_no_worker_outlives_its_pool.
Print Assumptions C09_close_closes.
Print Assumptions C09_closed_pool_is_inert.
Print Assumptions C09_failed_add_is_not_leaked.
Print Assumptions C09_each_run_answers_its_own_inputs.
Print Assumptions C09_remote_workers_are_skipped_only_when_their_process_is_gone.
