(* C04 - wait/terminate are bounded, truthful, idempotent - even on unresponsive children.
   The bodies of ThreadWorker.wait/terminate and ProcessWorker.wait/terminate are REGENERATED from the source on every run
   (Gen/Ctrl.v: which blocking primitive is called with which bound, in which order, under which condition) and interpreted by
   Model: Ctrl/Model.v (parent-side control logic of thread, process and persistent process
   workers against a child of any class: cooperative, swallowing every Exception, blocked in a
   long C call, holding the interpreter lock, SIGSTOPped). *)
From PW Require Import Ctrl.Model Ctrl.Proofs.
From PW Require Gen.Ctrl.

(* (a) every call issues at most four blocking primitives (poll for the acknowledgement, join,
   join after SIGTERM, join after SIGKILL), each bounded by the caller's timeout whenever that
   timeout is finite: its duration is at most 4 x timeout plus non-blocking steps - for EVERY
   state, kind, child class and operation. *)
Theorem C04_bounded :
  forall k s o, log (fst (step k s o)) = log s ++ blocks k s o
    /\ length (blocks k s o) <= 4
    /\ (op_tmo o <> Some TInf -> forallb blk_fin (blocks k s o) = true).
Proof. intros. split; [apply step_log|apply blocks_bounded]. Qed.

(* (b) the returned boolean says whether the child is gone at the moment of return; this is an
   invariant of every history *)
Theorem C04_truthful :
  forall k s o, started s = true -> consistent s ->
    consistent (fst (step k s o)) /\ started (fst (step k s o)) = true /\
    match o with
    | IsAlive => snd (step k s o) = alive (fst (step k s o))
    | Wait _ | Terminate _ _ => snd (step k s o) = negb (alive (fst (step k s o)))
    | Close => True
    end.
Proof. exact step_truthful. Qed.

Theorem C04_history_invariant :
  forall k c ops, started (fst (run k (fresh c) ops)) = true /\ consistent (fst (run k (fresh c) ops)).
Proof. intros. apply run_invariant; apply fresh_consistent. Qed.

(* (c) on a dead or never-run worker every call returns True at once, any number of times, in any
   order, and changes nothing *)
Theorem C04_idempotent_when_dead :
  forall k s o, started s = false \/ dead s = true -> consistent s ->
    blocks k s o = [] /\ alive (fst (step k s o)) = alive s /\
    match o with IsAlive => snd (step k s o) = false | _ => snd (step k s o) = true end.
Proof. exact step_when_dead. Qed.

(* (d) terminate(force=True) of a process worker leaves the child dead, whatever its class *)
Theorem C04_force_terminate_kills :
  forall k s t, is_process_kind k = true -> consistent s -> alive (fst (step k s (Terminate t true))) = false.
Proof. exact terminate_force_kills. Qed.

(* the regressions the generated instruction lists rule out, as theorems about the other shapes *)
Theorem C04_refuted_if_the_acknowledgement_wait_is_unbounded :
  exists c, In (BPoll TInf)
               (log (interp KProcess TFin true
                            [CPutTerminate; CAck false; CRelease; CJoin true; CIfAlive [CIfForce [CSigterm; CJoin true; CIfAlive [CSigkill; CJoin true]]]]
                            (fresh c))).
Proof. exists GilHeld. vm_compute. left. reflexivity. Qed.

Theorem C04_refuted_without_the_sigkill_escalation :
  exists c, alive (interp KProcess TFin true
                          [CPutTerminate; CAck true; CRelease; CJoin true; CIfAlive [CIfForce [CSigterm; CJoin true]]]
                          (fresh c)) = true.
Proof. exists Stopped. vm_compute. reflexivity. Qed.

Example C04_generated_instruction_lists :
  Gen.Ctrl.gen_process_terminate
  = [CPutTerminate; CAck true; CRelease; CJoin true; CIfAlive [CIfForce [CSigterm; CJoin true; CIfAlive [CSigkill; CJoin true]]]]
  /\ Gen.Ctrl.gen_thread_terminate = [CRaise; CRelease; CJoin true; CIfAlive [CIfForce [CSelfSigterm]]]
  /\ Gen.Ctrl.gen_process_wait = [CEarlyResult; CJoin true] /\ Gen.Ctrl.gen_thread_wait = [CJoin true].
Proof. repeat split; reflexivity. Qed.

Example C04_example_stopped_child :
  run KProcess (fresh Stopped) [Wait TFin; Terminate TFin false; Terminate TFin true; Wait TFin]
  = (mkPw true true false Stopped false
          [BJoin TFin; BPoll TFin; BJoin TFin; BPoll TFin; BJoin TFin; BJoin TFin; BJoin TFin],
     [false; false; true; true]).
Proof. vm_compute. reflexivity. Qed.

Print Assumptions C04_bounded.
Print Assumptions C04_truthful.
Print Assumptions C04_history_invariant.
Print Assumptions C04_idempotent_when_dead.
Print Assumptions C04_force_terminate_kills.
Print Assumptions C04_refuted_if_the_acknowledgement_wait_is_unbounded.
Print Assumptions C04_refuted_without_the_sigkill_escalation.
