(* C04 - wait/terminate are bounded, truthful, idempotent - even on unresponsive children.
   The bodies of ThreadWorker.wait/terminate and ProcessWorker.wait/terminate are REGENERATED from the source on every run
   (Gen/Ctrl.v: which blocking primitive is called with which bound, in which order, under which condition) and interpreted by
   Model: Ctrl/Model.v (parent-side control logic of thread, process and persistent process
   workers against a child of any class: cooperative, swallowing every Exception, blocked in a
   long C call, holding the interpreter lock, SIGSTOPped). *)
From PW Require Import Ctrl.Model Ctrl.Proofs.
From PW Require Gen.Ctrl Ctrl.RemoteLive Gen.RemoteLive.

(* (a) every call issues at most four blocking primitives (poll for the acknowledgement, join,
   join after SIGTERM, join after SIGKILL), each bounded by the caller's timeout whenever that
   timeout is finite: its duration is at most 4 x timeout plus non-blocking steps - for EVERY
   state, kind, child class and operation. *)
Theorem C04_bounded :
  forall k s o, log (fst (step k s o)) = log s ++ blocks k s o
    /\ length (blocks k s o) <= 4
    /\ (op_tmo o <> Some TInf -> forallb blk_fin (blocks k s o) = true).
Proof. intros. split; [apply step_log|apply blocks_bounded]. Qed.

(* (b) the returned boolean says whether the child is gone at the moment of return; this is an
   invariant of every history *)
Theorem C04_truthful :
  forall k s o, started s = true -> consistent s ->
    consistent (fst (step k s o)) /\ started (fst (step k s o)) = true /\
    match o with
    | IsAlive => snd (step k s o) = alive (fst (step k s o))
    | Wait _ | Terminate _ _ => snd (step k s o) = negb (alive (fst (step k s o)))
    | Close => True
    end.
Proof. exact step_truthful. Qed.

Theorem C04_history_invariant :
  forall k c ops, started (fst (run k (fresh c) ops)) = true /\ consistent (fst (run k (fresh c) ops)).
Proof. intros. apply run_invariant; apply fresh_consistent. Qed.

(* (c) on a dead or never-run worker every call returns True at once, any number of times, in any
   order, and changes nothing *)
Theorem C04_idempotent_when_dead :
  forall k s o, started s = false \/ dead s = true -> consistent s ->
    blocks k s o = [] /\ alive (fst (step k s o)) = alive s /\
    match o with IsAlive => snd (step k s o) = false | _ => snd (step k s o) = true end.
Proof. exact step_when_dead. Qed.

(* (d) terminate(force=True) of a process worker leaves the child dead, whatever its class *)
Theorem C04_force_terminate_kills :
  forall k s t, is_process_kind k = true -> consistent s -> alive (fst (step k s (Terminate t true))) = false.
Proof. exact terminate_force_kills. Qed.

(* the regressions the generated instruction lists rule out, as theorems about the other shapes *)
Theorem C04_refuted_if_the_acknowledgement_wait_is_unbounded :
  exists c, In (BPoll TInf)
               (log (interp KProcess TFin true
                            [CPutTerminate; CAck false; CRelease; CJoin true; CIfAlive [CIfForce [CSigterm; CJoin true; CIfAlive [CSigkill; CJoin true]]]]
                            (fresh c))).
Proof. exists GilHeld. vm_compute. left. reflexivity. Qed.

Theorem C04_refuted_without_the_sigkill_escalation :
  exists c, alive (interp KProcess TFin true
                          [CPutTerminate; CAck true; CRelease; CJoin true; CIfAlive [CIfForce [CSigterm; CJoin true]]]
                          (fresh c)) = true.
Proof. exists Stopped. vm_compute. reflexivity. Qed.

Example C04_generated_instruction_lists :
  Gen.Ctrl.gen_process_terminate
  = [CPutTerminate; CAck true; CRelease; CJoin true; CIfAlive [CIfForce [CSigterm; CJoin true; CIfAlive [CSigkill; CJoin true]]]]
  /\ Gen.Ctrl.gen_thread_terminate = [CRaise; CRelease; CJoin true; CIfAlive [CIfForce [CSelfSigterm]]]
  /\ Gen.Ctrl.gen_process_wait = [CEarlyResult; CJoin true] /\ Gen.Ctrl.gen_thread_wait = [CJoin true].
Proof. repeat split; reflexivity. Qed.

Example C04_example_stopped_child :
  run KProcess (fresh Stopped) [Wait TFin; Terminate TFin false; Terminate TFin true; Wait TFin]
  = (mkPw true true false Stopped false
          [BJoin TFin; BPoll TFin; BJoin TFin; BPoll TFin; BJoin TFin; BJoin TFin; BJoin TFin],
     [false; false; true; true]).
Proof. vm_compute. reflexivity. Qed.

(* the remote kind, parent side: RemoteWorker.is_alive / wait / terminate as lists of decision steps regenerated from the source
   (Gen/RemoteLive.v).  In every state in which the cached flags are true and under every behaviour of the environment during the call
   (the child process ends before the server answers or not; the frontend thread finishes within the join or not) each of the three
   answers; it says "dead" only when the child process is gone AND the frontend thread has stored the outcome; and the cached flags
   stay true, so that the next call - any number of them, in any order - starts from such a state again. *)
Theorem C04_remote_answers_are_truthful :
  forall m steps, In (m, steps) [(Ctrl.RemoteLive.MAlive, Gen.RemoteLive.gen_remote_is_alive); (Ctrl.RemoteLive.MWait, Gen.RemoteLive.gen_remote_wait);
                                 (Ctrl.RemoteLive.MWait, Gen.RemoteLive.gen_remote_terminate)] ->
  forall s e, Ctrl.RemoteLive.inv s = true ->
    exists dead s', Ctrl.RemoteLive.run m e steps s = (Some dead, s') /\ Ctrl.RemoteLive.inv s' = true /\
                    (dead = true -> Ctrl.RemoteLive.front s' = false /\ Ctrl.RemoteLive.proc s' = false).
Proof.
  intros m steps H. apply Ctrl.RemoteLive.sound_means.
  destruct H as [H|[H|[H|[]]]]; inversion H; subst; vm_compute; reflexivity.
Qed.

(* an answer derived from anything but the server's word and the frontend thread - here: is_alive() without the question - is not truthful *)
Theorem C04_refuted_if_is_alive_does_not_ask_the_server :
  Ctrl.RemoteLive.sound Ctrl.RemoteLive.MAlive [Ctrl.RemoteLive.RKnown; Ctrl.RemoteLive.RFront; Ctrl.RemoteLive.RRetFalse] = false
  /\ Ctrl.RemoteLive.sound Ctrl.RemoteLive.MWait [Ctrl.RemoteLive.RKnown; Ctrl.RemoteLive.RJoin] = false.
Proof. split; vm_compute; reflexivity. Qed.

Print Assumptions C04_bounded.
Print Assumptions C04_truthful.
Print Assumptions C04_history_invariant.
Print Assumptions C04_idempotent_when_dead.
Print Assumptions C04_force_terminate_kills.
Print Assumptions C04_refuted_if_the_acknowledgement_wait_is_unbounded.
Print Assumptions C04_refuted_without_the_sigkill_escalation.
Print Assumptions C04_remote_answers_are_truthful.
Print Assumptions C04_refuted_if_is_alive_does_not_ask_the_server.
