(* C06 - a persistent result stream is a correct prefix and always ends, whatever happens.
   The loop body, _send_result and _cleanup of the three persistent kinds are GENERATED
   (Gen/Persist.v, tied to prog0 and sp0 by the tie lemmas of Persist/Proofs.v); Persist/Model.v interprets
   them and lets a graceful terminate or a kill land after any instruction of any iteration,
   also between the counter increment and the write inside _send_result. *)
From PW Require Import Persist.Model Gen.Persist Persist.Proofs.
Open Scope Z_scope.

(* For every target, defaults, sequence of enqueues [done ++ e :: rest], landing position
   (after [i] instructions of the iteration following [done]; [half] = inside _send_result) and
   action: the results on the stream are the first |done| results of the expected sequence, or
   one more, in order - never reordered, duplicated or foreign; a terminate is followed by
   exactly one end marker, a kill by none (EOF ends the stream).  Holds for the cleanup of
   each kind. *)
Theorem C06_stream_is_prefix_and_ends :
  forall f mutates cp d tuple dk done e rest i half a,
    good_cleanup cp ->
    let es := done ++ e :: rest in
    let out := stream_after f mutates sp0 prog0 cp d tuple dk es (length done) i half a in
    (results_of out = firstn (length done) (expected f d dk es)
     \/ results_of out = firstn (S (length done)) (expected f d dk es))
    /\ ends_of out = match a with CWTE => 1%nat | CKill => O end.
Proof. exact crash_stream_is_prefix. Qed.

Theorem C06_cleanup_of_each_kind :
  good_cleanup cleanup_thread /\ good_cleanup cleanup_process /\ good_cleanup cleanup_remote.
Proof. split; [exact good_cleanup_thread|split; [exact good_cleanup_process|exact good_cleanup_remote]]. Qed.

Theorem C06_generated_loops_are_the_proved_ones :
  do_work_thread = prog0 /\ do_work_process = prog0 /\ do_work_remote = prog0
  /\ send_result_thread = sp0 /\ send_result_process = sp0 /\ send_result_remote = sp0.
Proof. repeat split; reflexivity. Qed.

Example C06_example :
  stream_after (fun a _ => fold_left (fun h e => h * 10 + fst e) a 0) true sp0 prog0 cleanup_thread
               [] false [] [mkEnq [1] []; mkEnq [2] []; mkEnq [3] []] 1 8 true CWTE
  = [MRes 1 1; MEnd 2].
Proof. vm_compute. reflexivity. Qed.

Print Assumptions C06_stream_is_prefix_and_ends.
Print Assumptions C06_cleanup_of_each_kind.
Print Assumptions C06_generated_loops_are_the_proved_ones.
