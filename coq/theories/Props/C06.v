(* C06 - a persistent result stream is a correct prefix and always ends, whatever happens.
   The loop body, _send_result and _cleanup of the three persistent kinds are GENERATED
   (Gen/Persist.v, tied to prog0 and sp0 by the tie lemmas of Persist/Proofs.v); Persist/Model.v interprets
   them and lets a graceful terminate or a kill land after any instruction of any iteration,
   also between the counter increment and the write inside _send_result. *)
From PW Require Persist.Forwarder Persist.ForwarderProofs Gen.Forwarder.
From PW Require Import Persist.Model Gen.Persist Persist.Proofs.
Open Scope Z_scope.

(* For every target, defaults, sequence of enqueues [done ++ e :: rest], landing position
   (after [i] instructions of the iteration following [done]; [half] = inside _send_result) and
   action: the results on the stream are the first |done| results of the expected sequence, or
   one more, in order - never reordered, duplicated or foreign; a terminate is followed by
   exactly one end marker, a kill by none (EOF ends the stream).  Holds for the cleanup of
   each kind. *)
Theorem C06_stream_is_prefix_and_ends :
  forall f mutates cp d tuple dk done e rest i half a,
    good_cleanup cp ->
    let es := done ++ e :: rest in
    let out := stream_after f mutates sp0 prog0 cp d tuple dk es (length done) i half a in
    (results_of out = firstn (length done) (expected f d dk es)
     \/ results_of out = firstn (S (length done)) (expected f d dk es))
    /\ ends_of out = match a with CWTE => 1%nat | CKill => O end.
Proof. exact crash_stream_is_prefix. Qed.

Theorem C06_cleanup_of_each_kind :
  good_cleanup cleanup_thread /\ good_cleanup cleanup_process /\ good_cleanup cleanup_remote.
Proof. split; [exact good_cleanup_thread|split; [exact good_cleanup_process|exact good_cleanup_remote]]. Qed.

Theorem C06_generated_loops_are_the_proved_ones :
  do_work_thread = prog0 /\ do_work_process = prog0 /\ do_work_remote = prog0
  /\ send_result_thread = sp0 /\ send_result_process = sp0 /\ send_result_remote = sp0.
Proof. repeat split; reflexivity. Qed.

(* Remote kind: between the child and the consumer sits the parent's frontend thread (PersistentRemoteWorker._fetch_results),
   whose shape is regenerated from the source (Gen/Forwarder.v).  For every list of results, whether or not the child
   got to send its end marker (carrying its counter, or counter+1 if it died between the increment and the send),
   whether or not the final pair follows, and the connection going away after ANY number of messages: the consumer of
   the results pipe sees a prefix of the child's results, in order and nothing else, and the stream ends WITH AN END MARKER
   on the pipe (closing the pipe as well is of no use to a consumer of the default in-memory results queue). *)
Lemma C06_forwarder_shape : Persist.ForwarderProofs.good_fflags Gen.Forwarder.gen_fflags.
Proof. repeat split; reflexivity. Qed.

Theorem C06_remote_stream_is_prefix_and_ends :
  forall vs marker final cut,
    let '(o, closed) := Persist.Forwarder.forward Gen.Forwarder.gen_fflags (Persist.Forwarder.child_stream vs marker final cut) in
    (exists j, Persist.Forwarder.results o = firstn j vs) /\ Persist.Forwarder.ends o = true.
Proof. exact (Persist.ForwarderProofs.forward_prefix_and_ends Gen.Forwarder.gen_fflags C06_forwarder_shape). Qed.

(* the two regressions this rules out, as theorems about the model with the other shape *)
Theorem C06_refuted_if_asserts_precede_the_forwarding :
  exists fl, Persist.ForwarderFlags.end_put_first fl = false /\ Persist.ForwarderFlags.closes_at_end fl = true /\ Persist.ForwarderFlags.exc_marker fl = true /\
    Persist.Forwarder.forward fl (Persist.Forwarder.child_stream [5%Z] (Some true) true 3) = ([Persist.Forwarder.ORes 5%Z], false).
Proof. exact Persist.ForwarderProofs.stream_never_ends_if_asserts_come_first. Qed.

Theorem C06_refuted_if_the_pipe_is_closed_conditionally :
  exists fl, Persist.ForwarderFlags.closes_at_end fl = false /\ Persist.ForwarderFlags.end_put_first fl = true /\
    Persist.Forwarder.forward fl (Persist.Forwarder.child_stream [] None true 1) = ([], false).
Proof. exact Persist.ForwarderProofs.stream_never_ends_if_close_is_conditional. Qed.

Theorem C06_refuted_if_the_final_pair_adds_no_marker :
  exists fl, Persist.ForwarderFlags.final_marks fl = false /\ Persist.ForwarderFlags.closes_at_end fl = true /\
    Persist.Forwarder.forward fl (Persist.Forwarder.child_stream [7%Z] None true 2) = ([Persist.Forwarder.ORes 7%Z], true).
Proof. exact Persist.ForwarderProofs.stream_has_no_marker_if_the_final_pair_adds_none. Qed.

Example C06_example :
  stream_after (fun a _ => fold_left (fun h e => h * 10 + fst e) a 0) true sp0 prog0 cleanup_thread
               [] false [] [mkEnq [1] []; mkEnq [2] []; mkEnq [3] []] 1 8 true CWTE
  = [MRes 1 1; MEnd 2].
Proof. vm_compute. reflexivity. Qed.

Print Assumptions C06_stream_is_prefix_and_ends.
Print Assumptions C06_cleanup_of_each_kind.
Print Assumptions C06_generated_loops_are_the_proved_ones.
Print Assumptions C06_remote_stream_is_prefix_and_ends.
Print Assumptions C06_refuted_if_asserts_precede_the_forwarding.
Print Assumptions C06_refuted_if_the_pipe_is_closed_conditionally.
Print Assumptions C06_refuted_if_the_final_pair_adds_no_marker.
