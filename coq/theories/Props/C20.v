(* C20: creating a worker returns a usable worker or raises - it never hangs. *)
From PW Require Import Server.Model Server.Handshake Gen.Handshake Framing.Sock Framing.Proofs Gen.Framing.
Open Scope Z_scope.

(* Specification (Server/Model.v): the constructor returns exactly after a complete handshake and raises otherwise. *)
Theorem C20_spec_never_hangs : forall h, construct h <> Hangs.
Proof. exact constructor_never_hangs. Qed.

Theorem C20_spec_returns_only_after_a_complete_handshake :
  forall h, construct h = Returned <->
    (connect_data h = SOk /\ send_request h = SOk /\ recv_ctrl_addr h = SOk /\ connect_ctrl h = SOk /\ recv_runtime_info h = SOk).
Proof. exact constructor_returns_only_after_full_handshake. Qed.

(* The code: the shapes of RemoteWorker._start and _run_frontend as regenerated from the source behave as the
   specification on every vector of step outcomes - whatever step of the handshake fails, the constructor raises;
   it never waits for an event that will not be set and never hands out a worker whose handshake failed. *)
Theorem C20_remote_constructor_refines_spec :
  forall h, construct_gen remote_start remote_frontend h = obs_of (construct h).
Proof. apply implements_spec_sound. vm_compute. reflexivity. Qed.

Theorem C20_remote_constructor_never_hangs :
  forall h, construct_gen remote_start remote_frontend h <> OHangs /\ construct_gen remote_start remote_frontend h <> OReturnedBroken.
Proof.
  intros h. rewrite C20_remote_constructor_refines_spec. destruct (construct h) eqn:E; simpl; split; try discriminate.
  exfalso. exact (constructor_never_hangs h E).
Qed.

(* every step of the protocol is among the translated statements: no failure goes unobserved *)
Theorem C20_handshake_program_complete : complete remote_frontend = true.
Proof. vm_compute. reflexivity. Qed.

(* thread and process kinds: the parent waits for the child's identity OR the child's death *)
Theorem C20_local_kinds_wait_for_identity_or_death :
  thread_start_wait = WaitOrDeath /\ process_start_wait = WaitOrDeath.
Proof. split; reflexivity. Qed.

(* What "a step fails" means for the two receive steps: a server->client message cut at ANY byte offset makes the
   generated recv_msg raise ConnectionClosedError (never block, never return a value) - from C10's development. *)
Theorem C20_cut_message_fails_the_step :
  forall (Msg : Type) (enc : Msg -> bytes) (dec : bytes -> Msg) m k cs f fuel,
    blen (enc m) < 4294967296 -> (k < length (frame (enc m)))%nat -> fin_ok f -> (k < fuel)%nat ->
    exists s', py_recv_msg Msg dec fuel (sock_of (firstn k (frame (enc m))) cs f) = (Raise EConnClosed, s').
Proof. intros. apply (recv_msg_truncated Msg enc dec); assumption. Qed.

Example C20_example_pinned_shape_hangs :
  construct_gen (mkShape true WaitForever false) [mkFe FSend false false; mkFe FRecvCtrlAddr false false] (mkH SOk SOk SFail SOk SOk) = OHangs.
Proof. reflexivity. Qed.

(* the server side of "unknown context id": answered by closing the connection - the client's constructor then raises
   (it would wait for ever for an answer that never comes if the server just carried on, as it once did) *)
Theorem C20_unknown_context_is_answered_by_closing :
  forall s i p, up s = true -> ctx_get (contexts s) i = None -> snd (serve s (mkSession (RWorkerCtx i) p)) = Closed.
Proof. intros s i p U H. rewrite (unknown_context_harmless s i p H). rewrite U. reflexivity. Qed.

Theorem C20_refuted_if_an_unknown_context_is_not_answered :
  exists f, unknown_ctx_closes f = false /\ snd (serve_f f srv0 (mkSession (RWorkerCtx 7) PComplete)) = NoReply.
Proof. exists (mkSF true true true false true true true). split; reflexivity. Qed.

Print Assumptions C20_spec_never_hangs.
Print Assumptions C20_spec_returns_only_after_a_complete_handshake.
Print Assumptions C20_remote_constructor_refines_spec.
Print Assumptions C20_remote_constructor_never_hangs.
Print Assumptions C20_handshake_program_complete.
Print Assumptions C20_local_kinds_wait_for_identity_or_death.
Print Assumptions C20_cut_message_fails_the_step.
Print Assumptions C20_unknown_context_is_answered_by_closing.
Print Assumptions C20_refuted_if_an_unknown_context_is_not_answered.
