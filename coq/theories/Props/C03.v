(* C03 - graceful terminate interrupts the target wherever it is and is reported as such.
   Same generated skeletons and semantics as C01 (thread, process and remote kinds), with ONE graceful terminate
   request: raised directly in a thread child (AWTE); delivered by the child's own control thread in process and
   remote children (ATerm: it turns into the exception only while that thread has not been released and joined). *)
From PW Require Import Child.Sem Gen.Skel Child.Runs Child.Proofs.

(* For every kind, one-shot or persistent, every target behaviour and EVERY statement boundary p
   from construction-complete on:
   - a target that runs interruptible code and lets the exception propagate: the outcome is
     has_error True with WorkerTerminatedError and the finally block / _cleanup ran - or the request
     landed on a boundary that is never reached (the child is still inside the target);
   - a target that ends on its own: the outcome is the target's own outcome or
     WorkerTerminatedError, nothing else - EXCEPT on the boundaries of the handler that records
     a failure (handler_window, the known finding C03-handler-window: landing there loses the
     report and the parent sees has_error True, error None). *)
Theorem C03_every_landing_point :
  forall k pers t p, start_point k <= p < BOUND_R -> c03_check (k, pers, t, p) = true.
Proof. exact c03_every_landing. Qed.

(* the request arrives while the target runs: always WorkerTerminatedError, finally blocks ran *)
Theorem C03_inside_running_target :
  forall k pers,
    let r := run k pers TLoop [(call_point k, term_action k)] in
    observe k true r = OErr (Some EWTE) /\ cleanup_ran (snd r) = true
    /\ observe k true (run k pers TLoop [(S (call_point k), term_action k)]) = OAlive.
Proof. exact c03_inside_target. Qed.

(* the remote kind has no such window: its handlers are nested, a request landing in the inner one is caught and
   reported as WorkerTerminatedError by the outer one *)
Theorem C03_remote_has_no_handler_window :
  forall t p, p < BOUND_R -> handler_window KRemote t p = false.
Proof. exact c03_remote_no_window. Qed.

(* REFUTED in full: the target raised its own exception and the request lands inside the handler *)
Theorem C03_refuted_handler_window :
  exists k p, observe k true (run k false TRaise [(p, AWTE)]) = OErr None.
Proof. exists KThread, 11. vm_compute. reflexivity. Qed.

Print Assumptions C03_every_landing_point.
Print Assumptions C03_inside_running_target.
Print Assumptions C03_remote_has_no_handler_window.
Print Assumptions C03_refuted_handler_window.
