(* C03 - graceful terminate interrupts the target wherever it is and is reported as such.
   Same generated skeletons and semantics as C01 (thread, process and remote kinds), with ONE graceful terminate
   request: raised directly in a thread child (AWTE); delivered by the child's own control thread in process and
   remote children (ATerm: it turns into the exception only while that thread has not been released and joined). *)
From PW Require Import Child.Sem Gen.Skel Child.Runs Child.Proofs.

(* For every kind, one-shot or persistent, every target behaviour and EVERY statement boundary p
   from construction-complete on:
   - a target that runs interruptible code and lets the exception propagate: the outcome is
     has_error True with WorkerTerminatedError and the finally block / _cleanup ran - or the request
     landed on a boundary that is never reached (the child is still inside the target);
   - a target that ends on its own: the outcome is the target's own outcome or
     WorkerTerminatedError, nothing else - also when the request lands in the handler that records
     the target's own failure (the run loops catch that in an outer handler since the repair
     "a terminate request arriving while a failure is being recorded is reported"). *)
Theorem C03_every_landing_point :
  forall k pers t p, start_point k <= p < BOUND_R -> c03_check (k, pers, t, p) = true.
Proof. exact c03_every_landing. Qed.

(* the request arrives while the target runs: always WorkerTerminatedError, finally blocks ran *)
Theorem C03_inside_running_target :
  forall k pers,
    let r := run k pers TLoop [(call_point k, term_action k)] in
    observe k true r = OErr (Some EWTE) /\ cleanup_ran (snd r) = true
    /\ observe k true (run k pers TLoop [(S (call_point k), term_action k)]) = OAlive.
Proof. exact c03_inside_target. Qed.

(* what the repair "a terminate request arriving while a failure is being recorded is reported" is for: the run loops
   without the outer handler (as they were) lose both outcomes when the request lands in the handler *)
Definition without_outer_handler (p : stm) : stm :=
  match p with
  | Seq [Try (Seq [inner]) _ fin] => Seq [match inner with Try b hs _ => Try b hs fin | x => x end]
  | x => x
  end.

Theorem C03_handler_window_needs_the_repair :
  exists p, observe KThread true (exec TRaise 300 (without_outer_handler sk_thread_run) (init_cs [(p, AWTE)] None)) = OErr None
            /\ (observe KThread true (run KThread false TRaise [(p, AWTE)]) = OErr (Some EWTE)
                \/ observe KThread true (run KThread false TRaise [(p, AWTE)]) = OErr (Some EOwn)).
Proof. exists 12%nat. split; [vm_compute; reflexivity|left; vm_compute; reflexivity]. Qed.

Print Assumptions C03_every_landing_point.
Print Assumptions C03_inside_running_target.
Print Assumptions C03_handler_window_needs_the_repair.
