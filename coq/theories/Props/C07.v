(* C07 - Pool.run yields exactly one result per input under every schedule and death.
   Model: Pool/Model.v (hand-written from pyworkers/pool.py, tied to it by the
   differential harness).  Quantified over: every configuration [c] (number of
   workers, target f, extra pending, refusing enqueue_fn, idle-worker choice),
   every set of already-closed workers, every environment script. *)
From PW Require Import Pool.Model Pool.Run Pool.Inv.
From Coq Require Import Permutation.
Open Scope Z_scope.

(* With retry on, a normal return holds exactly one result per input. *)
Theorem C07_exactly_one_result_per_input :
  forall c pre_closed pre inputs script r,
    retry c = true ->
    run c pre_closed pre inputs script = Return r ->
    Permutation r (map (f c) inputs).
Proof. exact run_return_exactly_once. Qed.

(* Never an internal error (the IndexError of the pinned tree is `Internal EIndex`). *)
Theorem C07_no_internal_error :
  forall c pre_closed pre inputs script,
    run c pre_closed pre inputs script <> Internal EIndex.
Proof. exact run_no_internal_error. Qed.

Theorem C07_oracle_mismatch_only_in_strict_mode :
  forall c pre_closed pre inputs script,
    strict c = false -> run c pre_closed pre inputs script <> Internal EOracle.
Proof. exact run_oracle_only_when_strict. Qed.

(* Known findings, as theorems about the faithful model (witnesses replayed on the code by the harness). *)
Definition cfg0 (nw : nat) (refs : list (nat * Z)) : cfg :=
  mkCfg nw sq true 0 true (refuse_of refs) (fun _ => 0%nat) false.

(* a pool without a live worker: run() raises PoolError (before the repair in /repo it returned None - neither a result list nor
   PoolError; the outcome no longer exists in the model) *)
Example C07_no_live_worker_is_a_PoolError :
  run (cfg0 1 []) (fun _ => true) [] [1] [] = PoolErr [] /\ run (cfg0 3 []) (fun _ => true) [] [] [] = PoolErr [].
Proof. split; vm_compute; reflexivity. Qed.

Theorem C07_refuted_refusing_enqueue_fn_livelocks :
  exists c inputs script, run c (fun _ => false) [] inputs script = Livelock.
Proof.
  exists (mkCfg 2 sq true 1 true (refuse_of [(1%nat, 3); (0%nat, 4); (1%nat, 2)]) (fun _ => 1%nat) false),
         [1; 2; 3; 4; 5], [Exit 0%nat; Poll [0%nat]].
  vm_compute. reflexivity.
Qed.

(* Non-vacuity: a schedule with a death (the R4 schedule) on which the hypotheses hold. *)
Example C07_example_r4_schedule :
  run (mkCfg 2 sq true 1 true (fun _ _ => false) (fun _ => 0%nat) false) (fun _ => false) []
      [1;2;3;4;5] [Ans 1%nat; Ans 1%nat; Exit 1%nat; Poll [1%nat]; Ans 0%nat; Poll [0%nat]; Ans 0%nat; Poll [0%nat]; Ans 0%nat; Poll [0%nat]; Ans 0%nat; Poll [0%nat]]
  = Return [4; 16; 1; 9; 25].
Proof. vm_compute. reflexivity. Qed.

Print Assumptions C07_exactly_one_result_per_input.
Print Assumptions C07_no_internal_error.
Print Assumptions C07_oracle_mismatch_only_in_strict_mode.
Print Assumptions C07_refuted_refusing_enqueue_fn_livelocks.
