From PW Require Import Pool.Model Pool.Run Pool.Inv.
Open Scope Z_scope.
Example C07_example_r4_schedule :
  run (mkCfg 2 sq true 1 true (fun _ _ => false) (fun _ => 0%nat) false) (fun _ => false) []
      [1;2;3;4;5] [Ans 1%nat; Ans 1%nat; Exit 1%nat; Poll [1%nat]; Ans 0%nat; Poll [0%nat]; Ans 0%nat; Poll [0%nat]; Ans 0%nat; Poll [0%nat]; Ans 0%nat; Poll [0%nat]]
  = Return [4; 16; 1; 9; 25].
Proof. vm_compute. reflexivity. Qed.
Print Assumptions C07_example_r4_schedule.
