(* C08 - Pool failure reports are sound. *)
From PW Require Import Pool.Model Pool.Run Pool.Inv.
Open Scope Z_scope.

(* PoolError.partial_results holds only genuine results, at most one per input. *)
Theorem C08_partial_results_genuine :
  forall c pre_closed pre inputs script p,
    run c pre_closed pre inputs script = PoolErr p ->
    exists l, p = (if return_results c then map (f c) l else [])
              /\ forall x, (count_occ Z.eq_dec l x <= count_occ Z.eq_dec inputs x)%nat.
Proof. exact run_partial_genuine. Qed.

(* A normal return (retry on or off) holds only genuine results, at most one per
   input, and every input is either answered or accounted for as dropped. *)
Theorem C08_return_genuine :
  forall c pre_closed pre inputs script r,
    run c pre_closed pre inputs script = Return r ->
    exists l dropped, r = map (f c) l
      /\ forall x, count_occ Z.eq_dec inputs x = (count_occ Z.eq_dec l x + count_occ Z.eq_dec dropped x)%nat.
Proof. exact run_return_no_retry. Qed.

Example C08_example_poolerr :
  run (mkCfg 2 sq true 0 true (fun _ _ => false) (fun _ => 0%nat) false) (fun _ => false) []
      [1;2;3] [Ans 0%nat; Exit 0%nat; Exit 1%nat; Poll [0%nat; 1%nat]; Poll [0%nat]] = PoolErr [1].
Proof. vm_compute. reflexivity. Qed.

Print Assumptions C08_partial_results_genuine.
Print Assumptions C08_return_genuine.
