(* C08 - Pool failure reports are sound. *)
From PW Require Import Pool.Model Pool.Run Pool.Inv Pool.NoSpurious.
Open Scope Z_scope.

(* PoolError.partial_results holds only genuine results, at most one per input. *)
Theorem C08_partial_results_genuine :
  forall c pre_closed pre inputs script p,
    run c pre_closed pre inputs script = PoolErr p ->
    exists l, p = (if return_results c then map (f c) l else [])
              /\ forall x, (count_occ Z.eq_dec l x <= count_occ Z.eq_dec inputs x)%nat.
Proof. exact run_partial_genuine. Qed.

(* A normal return (retry on or off) holds only genuine results, at most one per
   input, and every input is either answered or accounted for as dropped. *)
Theorem C08_return_genuine :
  forall c pre_closed pre inputs script r,
    run c pre_closed pre inputs script = Return r ->
    exists l dropped, r = map (f c) l
      /\ forall x, count_occ Z.eq_dec inputs x = (count_occ Z.eq_dec l x + count_occ Z.eq_dec dropped x)%nat.
Proof. exact run_return_no_retry. Qed.

(* PoolError is raised ONLY when no worker is left: for every configuration without a refusing enqueue_fn, every set
   of pre-closed workers, every idle-worker choice and every environment script, when run() ends with PoolError every
   worker of the pool has been closed (found dead).  Invariant J of Pool/NoSpurious.v: while a retry is queued or the
   source is not known to be depleted, no open worker sits idle. *)
Theorem C08_poolerror_only_when_no_worker_is_left :
  forall c pre_closed pre inputs script p s',
    (forall i x, refuse c i x = false) ->
    run_from c (fold_left (env_step c) pre (fresh pre_closed)) inputs script = (PoolErr p, s') ->
    forall j, (j < n c)%nat -> closed (w s' j) = true.
Proof. exact poolerr_all_closed. Qed.

(* with a refusing enqueue_fn the statement is false (known finding C08-R7) *)
Theorem C08_refuted_with_refusing_enqueue_fn :
  exists c inputs script p s', run_from c (fresh (fun _ => false)) inputs script = (PoolErr p, s') /\ closed (w s' 0%nat) = false.
Proof.
  exists (mkCfg 1 sq true 0 true (refuse_of [(0%nat, 1)]) (fun _ => 0%nat) false), [1], [].
  eexists. eexists. split; [vm_compute; reflexivity|]. vm_compute. reflexivity.
Qed.

Example C08_example_poolerr :
  run (mkCfg 2 sq true 0 true (fun _ _ => false) (fun _ => 0%nat) false) (fun _ => false) []
      [1;2;3] [Ans 0%nat; Exit 0%nat; Exit 1%nat; Poll [0%nat; 1%nat]; Poll [0%nat]] = PoolErr [1].
Proof. vm_compute. reflexivity. Qed.

Print Assumptions C08_partial_results_genuine.
Print Assumptions C08_return_genuine.
Print Assumptions C08_poolerror_only_when_no_worker_is_left.
Print Assumptions C08_refuted_with_refusing_enqueue_fn.
