(* C19 - active_children() tracks exactly the live workers.
   py_active_children / py_register_child / py_registers are GENERATED from
   pyworkers/worker.py (Gen/Registry.v); Registry/Model.v only adds the history
   machine (creations, deaths, restarts, queries) around them. *)
From PW Require Import Registry.Model Registry.Proofs.
From Coq Require Import Permutation.
Open Scope nat_scope.

(* After ANY history ops1, a query yields exactly the live workers, each once; it
   leaves no dead worker in the registry (so the registry is never larger than
   the number of live workers, however long the history), and this stays true
   after any further history ops2.  autoclose_active_children iterates over this
   very list, so it visits every live worker. *)
Theorem C19_active_children_exact :
  forall ops1 ops2,
    let s := fst (run init ops1) in
    forall s' out, step s Active = (s', Some out) ->
      NoDup out /\ Permutation out (live s)
      /\ Forall (fun i => alive s' i = true) (registry s')
      /\ List.length (registry s') <= List.length (live s)
      /\ RInv (fst (run s' ops2)).
Proof. exact every_query_exact. Qed.

(* Non-vacuity: a history with a death, a prune, and a restart of the pruned worker. *)
Example C19_example :
  snd (run init [Create true true; Create true true; Active; Die 0; Active; Restart 0; Active; Create false true; Active])
  = [[0; 1]; [1]; [1; 0]; [1; 0]].
Proof. vm_compute. reflexivity. Qed.

Print Assumptions C19_active_children_exact.
