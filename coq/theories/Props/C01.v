(* C01 - a dead worker always has one definite, consistent and stable outcome.
   sk_thread_run, sk_process_run and the persistent _cleanup skeletons are GENERATED from
   thread.py / process.py / remote.py / persistent_*.py (Gen/Skel.v); Child/Sem.v gives them a semantics
   with asynchronous exceptions and kills landing at any statement boundary, and models the
   parent-side decoding (ThreadWorker._get_result, ProcessWorker._get_result). *)
From PW Require Import Child.Sem Gen.Skel Child.Runs Child.Proofs Child.ProofsRemote.
From PW Require Ctrl.RemoteLive Gen.RemoteLive.

(* For every kind in {thread, process} x {one-shot, persistent}, every behaviour of the target
   (returns, raises an Exception, raises a BaseException, loops until interrupted), every payload
   (rebuildable by the parent or not), and ANY two asynchronous events - graceful terminate, kill,
   kill part-way through a send - landing at ANY statement boundary of the child's run loop
   (handlers, finally blocks and _cleanup included): if the child ends at all, the parent observes
   has_error in {True, False} (never None), never an exception from the accessor, and
     has_error False  only if the target returned,
     error = the target's exception only if the target raised it;
   otherwise error is WorkerTerminatedError or None.  No run passes BOUND statement boundaries,
   so the points p1, p2 < BOUND are all there are. *)
Theorem C01_every_landing_point :
  forall k pers t rb p1 a1 p2 a2, k <> KRemote -> a1 <> ATerm -> a2 <> ATerm -> p1 < BOUND -> p2 < BOUND ->
    shape_ok t (obs_of (k, pers, t, rb, (p1, a1), (p2, a2)))
    /\ steps_of (k, pers, t, rb, (p1, a1), (p2, a2)) < BOUND.
Proof. exact c01_every_landing. Qed.

(* The same for the REMOTE kind, over the generated skeleton of RemoteWorker._run_backend (the backend process on
   the server: nested try blocks, the local variable `result`, result and user state written to the data socket in
   the outer finally block) and PersistentRemoteWorker._cleanup, decoded the way the parent's frontend thread does
   (RemoteWorker._fetch_results: a result that cannot be received or rebuilt is (False, None)).  The run loop is
   longer: no run passes BOUND_R boundaries. *)
Theorem C01_every_landing_point_remote :
  forall pers t rb p1 a1 p2 a2, a1 <> ATerm -> a2 <> ATerm -> p1 < BOUND_R -> p2 < BOUND_R ->
    shape_ok t (obs_of (KRemote, pers, t, rb, (p1, a1), (p2, a2)))
    /\ steps_of (KRemote, pers, t, rb, (p1, a1), (p2, a2)) < BOUND_R.
Proof. exact c01_remote_every_landing. Qed.

(* the defect repaired by "fix: a remote worker whose target raises a BaseException ends with a definite outcome":
   the skeleton without the `if result is None` repair sends None - the parent is dead with has_error None *)
Theorem C01_remote_base_exception_needs_the_repair :
  observe KRemote true (exec TRaiseBase 300 (strip_fix sk_remote_backend) (init_cs [] None)) = OUndef
  /\ observe KRemote true (run KRemote false TRaiseBase []) = OErr None.
Proof. exact remote_base_exception_needs_the_repair. Qed.

Example C01_example_remote :
  observe KRemote true (run KRemote false TReturn []) = OOk
  /\ observe KRemote true (run KRemote true TRaise []) = OErr (Some EOwn)
  /\ observe KRemote false (run KRemote false TRaise []) = OErr None
  /\ observe KRemote true (run KRemote false TReturn [(start_point KRemote + 6, AWTE); (start_point KRemote + 8, AKillMidSend)]) = OErr None.
Proof. repeat split; vm_compute; reflexivity. Qed.

Example C01_example_kill_mid_send :
  observe KProcess true (run KProcess false TReturn [(18, AKillMidSend)]) = OErr None
  /\ observe KProcess false (run KProcess false TRaise []) = OErr None
  /\ observe KProcess true (run KProcess false TRaise []) = OErr (Some EOwn)
  /\ observe KThread true (run KThread true TReturn []) = OOk.
Proof. repeat split; vm_compute; reflexivity. Qed.

(* the remote kind, parent side: the parent-side object counts as dead only when the frontend thread - which receives the final
   outcome and stores it - has finished: "dead" implies "the outcome is there", in every state in which the cached flags are true and
   whatever the child process and the frontend thread do during the call.  is_alive() as regenerated from the source (Gen/RemoteLive.v). *)
Theorem C01_remote_dead_implies_the_outcome_has_been_stored :
  forall s e s', Ctrl.RemoteLive.inv s = true ->
    Ctrl.RemoteLive.run Ctrl.RemoteLive.MAlive e Gen.RemoteLive.gen_remote_is_alive s = (Some true, s') ->
    Ctrl.RemoteLive.front s' = false /\ Ctrl.RemoteLive.inv s' = true.
Proof.
  intros s e s' I R.
  destruct (Ctrl.RemoteLive.sound_means Ctrl.RemoteLive.MAlive Gen.RemoteLive.gen_remote_is_alive ltac:(vm_compute; reflexivity) s e I)
    as [dead [s2 [R2 [I2 D]]]].
  rewrite R in R2. inversion R2; subst. split; [apply D; reflexivity|exact I2].
Qed.

(* consulting the cached word of the server BEFORE looking at the frontend thread breaks it: a later call says "dead" while the
   outcome is still on its way *)
Theorem C01_refuted_if_the_cache_is_consulted_before_the_frontend_thread :
  Ctrl.RemoteLive.sound Ctrl.RemoteLive.MAlive [Ctrl.RemoteLive.RKnown; Ctrl.RemoteLive.RAsk; Ctrl.RemoteLive.RFront; Ctrl.RemoteLive.RRetFalse] = false.
Proof. vm_compute. reflexivity. Qed.

Print Assumptions C01_every_landing_point.
Print Assumptions C01_every_landing_point_remote.
Print Assumptions C01_remote_base_exception_needs_the_repair.
Print Assumptions C01_remote_dead_implies_the_outcome_has_been_stored.
Print Assumptions C01_refuted_if_the_cache_is_consulted_before_the_frontend_thread.
