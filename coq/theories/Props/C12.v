(* C12 - stopping the server reaps its children and every parent finds out.
   Model: Server/Shutdown.v over the shutdown shape regenerated from the source (Gen/Shutdown.v: what the finally
   loop of RemoteServer.run covers and forces, what the SIGTERM handler signals, whether the context helper cleans up
   in a finally and passes SIGTERM on, whether a forced kill fabricates (False, None)). *)
From PW Require Import Server.Shutdown Server.ShutdownProofs Gen.Shutdown.

(* the shape read from today's source satisfies what the theorems need *)
Lemma C12_source_shape : good_flags gen_flags.
Proof. repeat split; reflexivity. Qed.

(* For EVERY registry (any number of direct children and contexts holding any number of workers, in any state:
   cooperative, swallowing, blocked in C, interpreter lock held, idle, finished - every class that SIGTERM kills),
   both ways of stopping the server, every outcome of the race inside a context helper that is stopped while forcing
   one of its workers, and whether or not the caller of terminate() lost patience and the server was SIGTERMed after
   any number of entries: every child process is gone and every parent's data connection has ended (so no parent blocks). *)
Theorem C12_every_child_is_reaped_and_every_parent_learns :
  forall m race cut reg,
    Forall (fun e => Forall killable (states_of e)) reg ->
    Forall (Forall reaped) (shutdown gen_flags m race cut reg).
Proof. intros. apply shutdown_reaps; [exact C12_source_shape|assumption]. Qed.

(* each parent sees either the outcome its child had delivered before, or has_error = True *)
Theorem C12_parents_see_an_error_or_the_earlier_outcome :
  forall m race cut reg,
    Forall (fun e => Forall killable (states_of e)) reg ->
    forall fs f, In fs (shutdown gen_flags m race cut reg) -> In f fs ->
      decode (msg f) = VOwn \/ exists wte, decode (msg f) = VError wte.
Proof. intros m race cut reg K. exact (finished_children_keep_their_outcome gen_flags m race cut reg C12_source_shape K). Qed.

(* a direct child that is able to report (cooperative target or idle) and is stopped through terminate() reports
   WorkerTerminatedError *)
Theorem C12_children_able_to_report_say_WorkerTerminatedError :
  forall race reg s, In (Direct s) reg -> graceful s = true -> s <> Finished ->
    In [mkFate true ReportedWTE] (shutdown gen_flags MTerminate race None reg).
Proof. intros race reg. exact (graceful_children_report_wte gen_flags race reg C12_source_shape). Qed.

(* the defect repaired by "fix: a context's workers no longer outlive a forced stop of the context", as a theorem
   about the model with the old shape *)
Theorem C12_refuted_without_sigterm_pass_on :
  exists fl reg, ctx_passes_on_sigterm fl = false /\ fin_force fl = true /\ ctx_clean_force fl = true /\
    exists f, In [f; mkFate false StillOpen] (shutdown fl MTerminate true None reg).
Proof. exact survivor_without_pass_on. Qed.

Example C12_example_mixed_registry :
  shutdown gen_flags MTerminate false None [Context [Busy Swallows; Idle]; Direct (Busy Coop); Direct Finished; Direct (Busy Swallows)]
  = [[mkFate true ReportedWTE]; [mkFate true OwnOutcome]; [mkFate true FabricatedNone];
     [mkFate true BareClose; mkFate true BareClose]].
Proof. vm_compute. reflexivity. Qed.

Print Assumptions C12_every_child_is_reaped_and_every_parent_learns.
Print Assumptions C12_parents_see_an_error_or_the_earlier_outcome.
Print Assumptions C12_children_able_to_report_say_WorkerTerminatedError.
Print Assumptions C12_refuted_without_sigterm_pass_on.
