(* C18 - remote contexts are unique per id, supply their workers' work, and clean up.
   The table logic of the server (Server/Model.v) against its dictionary specification [ctx_get]. *)
From PW Require Import Server.Model Server.CtxWork Gen.CtxWork.
Open Scope Z_scope.

Theorem C18_create :
  forall s i, up s = true ->
    let '(s', r) := serve s (mkSession (RCtxCreate i) PComplete) in
    match ctx_get (contexts s) i with
    | Some h => r = RBool false /\ contexts s' = contexts s      (* duplicate: refused, the first stays intact *)
    | None => r = RBool true /\ ctx_get (contexts s') i = Some (next s)
              /\ forall j, j <> i -> ctx_get (contexts s') j = ctx_get (contexts s) j
    end.
Proof. exact ctx_create_spec. Qed.

Theorem C18_delete :
  forall s i, up s = true ->
    let '(s', r) := serve s (mkSession (RCtxDelete i) PComplete) in
    r = RBool true /\ ctx_get (contexts s') i = None                       (* the id is free again *)
    /\ (forall j, j <> i -> ctx_get (contexts s') j = ctx_get (contexts s) j)
    /\ (forall h, ctx_get (contexts s) i = Some h -> In h (killed s'))     (* its helper (and so its workers) is ended *)
    /\ (ctx_get (contexts s) i = None -> s' = s).                          (* unknown id: nothing happens *)
Proof. exact ctx_delete_spec. Qed.

Theorem C18_unknown_context_never_harms :
  forall s i p, ctx_get (contexts s) i = None ->
    serve s (mkSession (RWorkerCtx i) p) = (s, if up s then Closed else NoReply).
Proof. exact unknown_context_harmless. Qed.

Theorem C18_server_survives_every_history :
  forall sessions s, up s = true -> up (fst (serve_all s sessions)) = true.
Proof. exact server_survives. Qed.

Example C18_example :
  snd (serve_all srv0 [mkSession (RCtxCreate 1) PComplete; mkSession (RCtxCreate 1) PComplete; mkSession (RCtxDelete 2) PComplete;
                       mkSession (RWorkerCtx 1) PComplete; mkSession (RCtxDelete 1) PComplete; mkSession (RWorkerCtx 1) PComplete;
                       mkSession (RCtxCreate 1) PComplete])
  = [RBool true; RBool false; RBool true; Handshake; RBool true; Closed; RBool true].
Proof. vm_compute. reflexivity. Qed.

(* the regression the generated flags rule out: a duplicate registration that overwrites the first binding *)
Theorem C18_refuted_if_a_duplicate_overwrites_the_first_context :
  exists f, dup_ctx_refused f = false /\
    let s1 := fst (serve_f f srv0 (mkSession (RCtxCreate 1) PComplete)) in
    let '(s2, r) := serve_f f s1 (mkSession (RCtxCreate 1) PComplete) in
    r = RBool true /\ ctx_get (contexts s2) 1 <> ctx_get (contexts s1) 1.
Proof. exists (mkSF true true true true false true true). split; [reflexivity|]. vm_compute. split; [reflexivity|discriminate]. Qed.

(* "workers created with that context id execute the context's target with the context's defaults" - whatever work their creator
   passed along (a Pool always passes its own target): the three sites which decide it have the shape the proof needs *)
Theorem C18_source_shape_of_the_work_path : good_cwflags gen_cwflags = true.
Proof. reflexivity. Qed.

Theorem C18_context_workers_execute_the_context_work : forall c own, executes gen_cwflags (Some c) own = Some c.
Proof. intros c own. exact (context_workers_execute_the_context_work gen_cwflags c own C18_source_shape_of_the_work_path). Qed.

Theorem C18_refuted_if_the_creator_ships_its_work_and_the_child_prefers_it : forall c o,
  executes (mkCW true false false) (Some c) (Some o) = Some o.
Proof. exact refuted_without_both_guards. Qed.

Print Assumptions C18_create.
Print Assumptions C18_delete.
Print Assumptions C18_unknown_context_never_harms.
Print Assumptions C18_server_survives_every_history.
Print Assumptions C18_refuted_if_a_duplicate_overwrites_the_first_context.
Print Assumptions C18_source_shape_of_the_work_path.
Print Assumptions C18_context_workers_execute_the_context_work.
Print Assumptions C18_refuted_if_the_creator_ships_its_work_and_the_child_prefers_it.
