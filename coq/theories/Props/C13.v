(* C13 - remote_pickle is invisible to code that does not opt in.
   py_scan_step / py_scan_init / py_scan_result are GENERATED from
   SupportRemoteGetStateMeta.__check_type_cached (Gen/MroScan.v). *)
From PW Require Import Pickle.Desc Gen.MroScan Pickle.MroProofs Pickle.Dispatch.

(* The opt-in check, for EVERY inheritance chain (list of class descriptors, most derived first):
   it raises Warning exactly when, among the classes before the first one that defines
   __reduce__/__reduce_ex__, a __getstate__ that neither takes `remote` nor passes a double-star kwargs parameter
   precedes one that takes `remote` ... *)
Theorem C13_warning_iff_inconsistent_chain :
  forall mro, check mro = None <-> inconsistent (scanned mro).
Proof. exact check_warning. Qed.

(* ... and otherwise registers the class as opt-in exactly when no class of the chain defines a
   reducer and some class has a remote-aware __getstate__. *)
Theorem C13_registered_iff_opt_in :
  forall mro, check mro = Some true <->
    ~ inconsistent (scanned mro) /\ existsb is_reducer mro = false /\ existsb remote_gs mro = true.
Proof. exact check_registered. Qed.

Theorem C13_never_registered_without_remote_getstate :
  forall mro, existsb remote_gs mro = false -> check mro <> Some true.
Proof. exact never_registered_without_opt_in. Qed.

Theorem C13_no_getstate_is_not_opt_in :
  forall mro, forallb (fun b => negb (d_getstate b)) mro = true -> check mro = Some false.
Proof. exact no_getstate_not_opt_in. Qed.

(* Reducer selection: a class that does not opt in is pickled by RemotePickler (remote True or
   False) through exactly the reducer the standard pickler would use, copyreg entries included. *)
Theorem C13_non_opt_in_same_reducer :
  forall remote c, check (mro c) = Some false -> remote_select remote c = std_select c.
Proof. exact not_opt_in_same_route. Qed.

Theorem C13_remote_false_duck_typed_same_reducer :
  forall c, via_meta c = false -> remote_select false c = std_select c.
Proof. exact remote_false_duck_typed_same_route. Qed.

(* non-vacuity: a 3-level chain  Derived(__getstate__(self, remote=False)) <- Mid(kwargs pass-through) <- Base(plain) *)
Example C13_example_chain :
  check [mkDesc false false true true false false; mkDesc false false true false true false; mkDesc false false true false false false] = Some true
  /\ check [mkDesc false false true false false false; mkDesc false false true true false false] = None
  /\ check [mkDesc false false true true false false; mkDesc false true false false false false] = Some false.
Proof. repeat split; vm_compute; reflexivity. Qed.

Print Assumptions C13_warning_iff_inconsistent_chain.
Print Assumptions C13_registered_iff_opt_in.
Print Assumptions C13_never_registered_without_remote_getstate.
Print Assumptions C13_no_getstate_is_not_opt_in.
Print Assumptions C13_non_opt_in_same_reducer.
Print Assumptions C13_remote_false_duck_typed_same_reducer.
