(* C10 - Message framing survives any segmentation and detects any truncation.
   Statements only; every proof is `exact`/`apply` of a lemma in Framing/Proofs.v,
   which is about the code GENERATED from pyworkers/remote.py (Gen/Framing.v). *)
From PW Require Import Base.PyM Framing.Sock Gen.Framing Framing.Proofs.
Open Scope Z_scope.

Section C10.
  Variable Msg : Type.
  Variable enc : Msg -> bytes.           (* remote_pickle.dumps *)
  Variable dec : bytes -> Msg.           (* remote_pickle.loads *)
  Hypothesis dec_enc : forall m, dec (enc m) = m.    (* trusted: CPython pickle *)

  Definition sized (m : Msg) : Prop := blen (enc m) < 4294967296.

  (* What the sender writes is exactly the concatenation of the frames. *)
  Theorem C10_sender_writes_frames :
    forall fuel ms s, Forall sized ms -> send_err s = None ->
      send_many Msg enc fuel ms s =
      (Ret tt, mkSock (buf s) (cuts s) (fin s) (out s ++ stream (map enc ms)) (send_err s)).
  Proof. exact (send_many_out Msg enc). Qed.

  (* Any sequence of messages is read back as the same sequence, for EVERY
     segmentation [cs] of the byte stream (down to one byte per read), whatever
     follows the messages ([rest]) and however the stream later ends ([f]). *)
  Theorem C10_roundtrip :
    forall ms rest cs f fuel,
      Forall sized ms ->
      (length (stream (map enc ms)) < fuel)%nat ->
      exists cs',
        recv_many Msg dec fuel (length ms) (sock_of (stream (map enc ms) ++ rest) cs f) =
        (Ret ms, mkSock rest cs' f [] None).
  Proof.
    intros ms rest cs f fuel Hs Hf.
    destruct (recv_many_stream Msg enc dec fuel (map enc ms) rest cs f [] None) as [cs' E].
    - clear -Hs. induction Hs; constructor; assumption.
    - exact Hf.
    - exists cs'. rewrite map_length in E. unfold sock_of. rewrite E.
      rewrite map_map. rewrite (map_ext _ (fun m => m) dec_enc), map_id. reflexivity.
  Qed.

  (* If the stream ends anywhere strictly inside a frame - after [k] of its bytes,
     k = 0 included only when nothing follows, i.e. a clean end between messages
     is also reported - the reader raises ConnectionClosedError; it neither
     returns a message nor runs out of fuel, whether the end shows as an
     orderly close (b'') or as an OSError from recv. *)
  Theorem C10_truncation :
    forall m k cs f fuel,
      sized m -> (k < length (frame (enc m)))%nat -> fin_ok f -> (k < fuel)%nat ->
      exists s', py_recv_msg Msg dec fuel (sock_of (firstn k (frame (enc m))) cs f)
                 = (Raise EConnClosed, s').
  Proof. intros. apply (recv_msg_truncated Msg enc dec); assumption. Qed.

  (* The same after any number of complete messages: they are all delivered,
     then the cut one is reported. *)
  Theorem C10_truncation_after :
    forall ms m k cs f fuel,
      Forall sized ms -> sized m -> (k < length (frame (enc m)))%nat -> fin_ok f ->
      (length (stream (map enc ms)) + k < fuel)%nat ->
      exists s1 s',
        recv_many Msg dec fuel (length ms)
          (sock_of (stream (map enc ms) ++ firstn k (frame (enc m))) cs f) = (Ret ms, s1)
        /\ py_recv_msg Msg dec fuel s1 = (Raise EConnClosed, s').
  Proof.
    intros ms m k cs f fuel Hs Hm Hk Hf Hfu.
    destruct (C10_roundtrip ms (firstn k (frame (enc m))) cs f fuel Hs) as [cs' E]; [lia|].
    destruct (C10_truncation m k cs' f fuel Hm Hk Hf) as [s' E']; [lia|].
    eexists; eexists; split; [exact E|exact E'].
  Qed.

  (* Whatever bytes arrive (well-formed or not) and however they are cut, a
     read terminates within |buffer|+1 loop iterations: no spinning. *)
  Theorem C10_no_spin :
    forall s fuel, (length (buf s) < fuel)%nat ->
      fst (py_recv_msg Msg dec fuel s) <> OutOfFuel.
  Proof. intros. apply (recv_msg_no_spin Msg enc dec); assumption. Qed.

  (* A failing sendall surfaces as ConnectionClosedError. *)
  Theorem C10_send_failure :
    forall fuel m s e, sized m -> send_err s = Some e -> oserr e = true ->
      py_send_msg Msg enc fuel m s = (Raise EConnClosed, s).
  Proof. exact (send_msg_failure Msg enc). Qed.
End C10.

(* Non-vacuity: concrete, non-trivial instances of the hypotheses. *)
Example C10_example_roundtrip :
  fst (recv_many bytes (fun b => b) 64 2
         (sock_of (stream [[1; 2; 3]; [7]] ) [0; 0; 1; 0; 0; 0; 2]%nat None))
  = Ret [[1; 2; 3]; [7]].
Proof. vm_compute. reflexivity. Qed.

Example C10_example_truncated :
  fst (py_recv_msg bytes (fun b => b) 64 (sock_of (firstn 2 (frame [1; 2; 3])) [0]%nat None))
  = Raise EConnClosed
  /\ fst (py_recv_msg bytes (fun b => b) 64 (sock_of (firstn 6 (frame [1; 2; 3])) [] (Some EConnReset)))
  = Raise EConnClosed.
Proof. split; vm_compute; reflexivity. Qed.

Print Assumptions C10_sender_writes_frames.
Print Assumptions C10_roundtrip.
Print Assumptions C10_truncation.
Print Assumptions C10_truncation_after.
Print Assumptions C10_no_spin.
Print Assumptions C10_send_failure.
