(* C15 - load-time patches reach only the addressed objects and leave no residue.
   Same model as C14 (Pickle/State.v); the specification [spec] says what every object is restored with:
   patches address the object they are given for; a dictionary under k addresses the direct child stored under k
   (its first occurrence) - recursively, to any depth -, any other value under k replaces that entry; an object which
   is not addressed - a sibling, an object inside a container or inside a plain object, at any depth - is restored
   with its own state and nothing else. *)
From PW Require Import Pickle.State Pickle.StateLoops Pickle.StateSteps Pickle.StateProofs Pickle.Announce.
Open Scope Z_scope.

(* every graph, every patch dictionary (nested to any depth): exactly the addressed objects are patched *)
Theorem C15_patches_reach_exactly_the_addressed_objects :
  forall g p, announced_structurally g ->
    exists s, load g p = inr s /\ restored s = spec g (top_patches g p).
Proof. intros g p H. destruct (load_spec g p H) as [s [A [B _]]]. exists s. split; assumption. Qed.

(* ... in particular on the syntactic class [tidy] (Pickle/Announce.v): distinct instances, attribute references only to the
   object itself or to objects it is nested in *)
Theorem C15_tidy_graphs_patched_exactly :
  forall g p, tidy g -> exists s, load g p = inr s /\ restored s = spec g (top_patches g p) /\ clean_end g p s.
Proof. intros g p T. apply load_spec. apply tidy_announced_structurally. exact T. Qed.

(* no residue: after the load the per-thread stack is empty, the cursor back at -1 - or the patches given for a
   top-level object which takes none (a list, a plain object) are still where __enter__ put them, to be discarded
   with the context; the next load starts from [enter] again whatever this one did *)
Theorem C15_no_residue :
  forall g p, announced_structurally g -> exists s, load g p = inr s /\ clean_end g p s.
Proof. intros g p H. destruct (load_spec g p H) as [s [A [_ C]]]. exists s. split; assumption. Qed.

(* objects that are not addressed get exactly their own state: the specification of an unaddressed position does not
   depend on the patches at all *)
Theorem C15_unaddressed_positions_ignore_patches :
  forall items p, spec (Lst items) p = spec (Lst items) [] /\ forall f, spec (PObj f) p = spec (PObj f) [].
Proof. intros. split; [rewrite !spec_lst; reflexivity|intros; rewrite !spec_pobj; reflexivity]. Qed.

Example C15_example_three_levels_siblings_and_container :
  exists s, load (Opt 0 true [(1, Opt 1 true [(3, Atom 9); (4, Opt 2 true [(3, Atom 8)])]); (2, Lst [Opt 3 true [(3, Atom 7)]]); (5, Opt 4 true [(3, Atom 6)]); (3, Atom 0)])
                 [(3, PVal 30); (5, PDict [(3, PVal 60)]); (1, PDict [(4, PDict [(3, PVal 80)])]); (2, PVal 5)] = inr s
            /\ restored s = [(2%nat, [(3, RAtom 80)]); (1%nat, [(3, RAtom 9); (4, RObj 2)]); (3%nat, [(3, RAtom 7)]); (4%nat, [(3, RAtom 60)]);
                             (0%nat, [(1, RObj 1); (2, RAtom 5); (5, RObj 4); (3, RAtom 30)])].
Proof. eexists. split; [vm_compute; reflexivity|reflexivity]. Qed.

(* REFUTED in the strict reading (known finding): a dictionary patch under k when the child stored under k is only
   referred to from there (its first occurrence is elsewhere) does not override that child's state - the child is
   restored where it occurs first, without the patch; the holder keeps the child *)
Theorem C15_refuted_dict_patch_for_a_child_that_is_only_referred_to :
  exists g p s, announced_structurally g /\ load g p = inr s
    /\ restored s = [(1%nat, [(3, RAtom 9)]); (2%nat, [(5, RObj 1)]); (0%nat, [(1, RObj 1); (2, RObj 2)])].
Proof.
  exists (Opt 0 true [(1, Opt 1 true [(3, Atom 9)]); (2, Opt 2 true [(5, Ref 1)])]), [(2, PDict [(5, PDict [(3, PVal 7)])])].
  eexists. split; [vm_compute; reflexivity|]. split; [vm_compute; reflexivity|reflexivity].
Qed.

Print Assumptions C15_patches_reach_exactly_the_addressed_objects.
Print Assumptions C15_tidy_graphs_patched_exactly.
Print Assumptions C15_no_residue.
Print Assumptions C15_unaddressed_positions_ignore_patches.
Print Assumptions C15_refuted_dict_patch_for_a_child_that_is_only_referred_to.
