(* C15 - load-time patches reach only the addressed objects and leave no residue.
   Same model as C14 (Pickle/State.v). The full statement is FALSE of the current code;
   the refutations below are replayed on the implementation by the harness. *)
From PW Require Import Pickle.State Pickle.StateProofs.
Open Scope Z_scope.

(* PARTIAL: with no patches the machine state is restored after every load of a chain
   (no residue), whatever the depth. *)
Theorem C15_partial_no_residue_chains :
  forall c, exists r, load (to_node c) [] None = inr (mkM [] (-1) false [] r).
Proof. intros c. exists (expected c). exact (chain_loads c). Qed.

(* REFUTED: an opt-in object held in a list receives the patch addressed at the top-level
   object (key 3), which itself stays unpatched *)
Theorem C15_refuted_container_held_gets_top_level_patch :
  exists g h s, load g h (Some 0%nat) = inr s /\
    restored s = [(1%nat, [(3, RAtom 7)]); (0%nat, [(1, RCont)])].
Proof.
  exists (Opt 0 true [(1, Lst [Opt 1 true [(3, Atom 9)]])]), [(0%nat, [(3, PVal 7)])].
  eexists. split; [vm_compute; reflexivity|reflexivity].
Qed.

(* REFUTED: a nested patch dictionary of the caller (address 2, two levels down) is modified:
   the entry for the grandchild is overwritten with the restored object *)
Theorem C15_refuted_nested_patch_dict_mutated :
  exists g h s, load g h (Some 0%nat) = inr s /\
    hget h 1%nat = [(1, PDictRef 2%nat)] /\ hget (hp s) 1%nat = [(1, PObjRef 2%nat)].
Proof.
  exists (Opt 0 true [(1, Opt 1 true [(1, Opt 2 true [(3, Atom 9)])])]),
         [(0%nat, [(1, PDictRef 1%nat)]); (1%nat, [(1, PDictRef 2%nat)]); (2%nat, [(3, PVal 8)])].
  eexists. split; [vm_compute; reflexivity|split; reflexivity].
Qed.

(* a correct two-level case, as in the test suite: top-level key and one nested dict *)
Example C15_example_two_levels :
  exists s, load (Opt 0 true [(1, Atom 5); (2, Opt 1 true [(3, Atom 9)])])
                 [(0%nat, [(1, PVal 7); (2, PDictRef 1%nat)]); (1%nat, [(3, PVal 8)])] (Some 0%nat) = inr s
            /\ restored s = [(1%nat, [(3, RAtom 8)]); (0%nat, [(1, RAtom 7); (2, RObj 1)])].
Proof. eexists. split; [vm_compute; reflexivity|reflexivity]. Qed.

Print Assumptions C15_partial_no_residue_chains.
Print Assumptions C15_refuted_container_held_gets_top_level_patch.
Print Assumptions C15_refuted_nested_patch_dict_mutated.
