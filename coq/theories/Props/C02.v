(* C02 - all worker kinds compute exactly what a direct call would.
   What a theorem can carry here is thin (the transport of values is CPython pickle):
   (iii) Worker.create maps (type, persistence) to the six implementing classes - on the
         function GENERATED from Worker.create (Gen/Create.v);
   (iv)  waiting for a result of ANY size never deadlocks (two-party pipe model, Equiv/Pipe.v),
         while the pinned join-only parent deadlocks as soon as the result exceeds the pipe.
   The agreement of the kinds with a direct call and with each other, for values, exceptions,
   sizes and not-run workers, is the differential harness (harness/props/c02.py). *)
From PW Require Import Equiv.Strings Gen.Create Equiv.Pipe.
Open Scope string_scope.

Theorem C02_create_names :
  py_create_names "THREAD" false = ("thread", "ThreadWorker")
  /\ py_create_names "PROCESS" false = ("process", "ProcessWorker")
  /\ py_create_names "REMOTE" false = ("remote", "RemoteWorker")
  /\ py_create_names "THREAD" true = ("persistent_thread", "PersistentThreadWorker")
  /\ py_create_names "PROCESS" true = ("persistent_process", "PersistentProcessWorker")
  /\ py_create_names "REMOTE" true = ("persistent_remote", "PersistentRemoteWorker").
Proof. repeat split; vm_compute; reflexivity. Qed.

(* for every pipe capacity, every result size n and EVERY interleaving of child and parent, the
   child has written everything and exited after at most 2n+1 moves: wait() returns *)
Theorem C02_wait_never_deadlocks :
  forall cap, (0 < cap)%nat -> forall n sched, (2 * n + 1 <= length sched)%nat ->
    child_done (run cap true (mkSt n 0 0 false) sched) = true.
Proof.
  intros cap Hc n sched Hl. apply wait_terminates; [exact Hc|simpl; lia|unfold measure; simpl; lia].
Qed.

Theorem C02_refuted_for_join_only_parent :
  forall cap n, (0 < cap)%nat -> (cap < n)%nat ->
    exists s, s = run cap false (mkSt n 0 0 false) [true] /\ stuck cap false s = true
              /\ forall sched, run cap false s sched = s.
Proof. exact join_only_deadlocks. Qed.

Example C02_example : child_done (run 4 true (mkSt 10 0 0 false) (repeat true 3 ++ repeat false 30)) = true.
Proof. vm_compute. reflexivity. Qed.

Print Assumptions C02_create_names.
Print Assumptions C02_wait_never_deadlocks.
Print Assumptions C02_refuted_for_join_only_parent.
