(* C02 - all worker kinds compute exactly what a direct call would.
   What a theorem can carry here is thin (the transport of values is CPython pickle):
   (iii) Worker.create maps (type, persistence) to the six implementing classes - on the
         function GENERATED from Worker.create (Gen/Create.v);
   (iv)  waiting for a result of ANY size never deadlocks (two-party pipe model, Equiv/Pipe.v),
         while the pinned join-only parent deadlocks as soon as the result exceeds the pipe.
   The agreement of the kinds with a direct call and with each other, for values, exceptions,
   sizes and not-run workers, is the differential harness (harness/props/c02.py). *)
From PW Require Equiv.Transport Equiv.TransportProofs Gen.Transport.
From PW Require Import Equiv.Strings Gen.Create Equiv.Pipe.
Open Scope string_scope.

Theorem C02_create_names :
  py_create_names "THREAD" false = ("thread", "ThreadWorker")
  /\ py_create_names "PROCESS" false = ("process", "ProcessWorker")
  /\ py_create_names "REMOTE" false = ("remote", "RemoteWorker")
  /\ py_create_names "THREAD" true = ("persistent_thread", "PersistentThreadWorker")
  /\ py_create_names "PROCESS" true = ("persistent_process", "PersistentProcessWorker")
  /\ py_create_names "REMOTE" true = ("persistent_remote", "PersistentRemoteWorker").
Proof. repeat split; vm_compute; reflexivity. Qed.

(* for every pipe capacity, every result size n and EVERY interleaving of child and parent, the
   child has written everything and exited after at most 2n+1 moves: wait() returns *)
Theorem C02_wait_never_deadlocks :
  forall cap, (0 < cap)%nat -> forall n sched, (2 * n + 1 <= length sched)%nat ->
    child_done (run cap true (mkSt n 0 0 false) sched) = true.
Proof.
  intros cap Hc n sched Hl. apply wait_terminates; [exact Hc|simpl; lia|unfold measure; simpl; lia].
Qed.

Theorem C02_refuted_for_join_only_parent :
  forall cap n, (0 < cap)%nat -> (cap < n)%nat ->
    exists s, s = run cap false (mkSt n 0 0 false) [true] /\ stuck cap false s = true
              /\ forall sched, run cap false s sched = s.
Proof. exact join_only_deadlocks. Qed.

(* (v) the final message of a process worker reaches the accessors exactly as sent, whatever the parent did before:
   any number of wait() calls (which may receive the message early), accessor calls while the child was alive, in
   any interleaving with the child's send and exit - on the reception shape regenerated from ProcessWorker.wait and
   ProcessWorker._get_result (Gen/Transport.v).  (False, None) iff the child exited without having sent anything. *)
Lemma C02_reception_shape : Equiv.TransportProofs.good_tflags Gen.Transport.gen_tflags.
Proof. repeat split; reflexivity. Qed.

Theorem C02_result_is_what_the_child_sent :
  forall (msg : Type) (es es' : list (Equiv.Transport.ev msg)),
    (Equiv.Transport.sends _ es <= 1)%nat -> Equiv.Transport.sends _ es' = 0%nat ->
    Equiv.Transport.result _ (Equiv.Transport.run msg Gen.Transport.gen_tflags (Equiv.Transport.run msg Gen.Transport.gen_tflags (Equiv.Transport.init msg) (es ++ [Equiv.Transport.CExit])) (Equiv.Transport.PGet :: es'))
    = Some (match Equiv.Transport.sent_before_exit _ es false None with Some m => Equiv.Transport.Report m | None => Equiv.Transport.NoReport end).
Proof. intros msg. exact (Equiv.TransportProofs.transport_exact msg Gen.Transport.gen_tflags C02_reception_shape). Qed.

(* the regression "keep only what the last wait() received" loses a message received by an earlier wait() *)
Theorem C02_refuted_if_wait_overwrites :
  exists fl, Equiv.TransportFlags.wait_keeps_early fl = false /\ Equiv.TransportFlags.wait_receives fl = true /\ Equiv.TransportFlags.result_from_early fl = true /\ Equiv.TransportFlags.result_drains fl = true /\
    Equiv.Transport.result nat (Equiv.Transport.run nat fl (Equiv.Transport.init nat) [Equiv.Transport.CSend 7; Equiv.Transport.PWait; Equiv.Transport.CExit; Equiv.Transport.PWait; Equiv.Transport.PGet]) = Some Equiv.Transport.NoReport.
Proof. exact Equiv.TransportProofs.lost_without_guard. Qed.

Example C02_example : child_done (run 4 true (mkSt 10 0 0 false) (repeat true 3 ++ repeat false 30)) = true.
Proof. vm_compute. reflexivity. Qed.

Print Assumptions C02_create_names.
Print Assumptions C02_wait_never_deadlocks.
Print Assumptions C02_refuted_for_join_only_parent.
Print Assumptions C02_result_is_what_the_child_sent.
Print Assumptions C02_refuted_if_wait_overwrites.
