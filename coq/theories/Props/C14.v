(* C14 - every opt-in object, wherever it sits, is serialised remotely exactly once and restored from that state.
   Model: Pickle/State.v - RemoteState of state.py as a stack machine, the event order of unpickling, and the pickler's
   bookkeeping of which objects are announced by their holder (remote_reduce) - after the repairs
   "remote_pickle restores any number of opt-in attributes of one object", "... classes without __setstate__",
   "... patches no longer reach objects they are not addressed to". *)
From PW Require Import Pickle.State Pickle.StateLoops Pickle.StateSteps Pickle.StateProofs Pickle.Announce.
Open Scope Z_scope.

(* For EVERY graph - opt-in objects at top level, as attributes of one another in any number (siblings) and to any
   depth, inside containers, inside objects of classes which do not opt in, shared references and cycles (Ref), classes
   with or without __setstate__ - loading the event sequence in which the top-level object and every directly held
   first occurrence are announced succeeds; every opt-in instance is restored exactly once, children before their
   holders, with exactly the state the specification [spec] gives it; the per-thread stack ends empty (or holds only
   the untouched patches of a top-level object which takes none). *)
Theorem C14_every_graph_restores :
  forall g p, exists s,
    load_events (events_s g true) p = inr s /\ restored s = spec g (top_patches g p) /\ clean_end g p s.
Proof. exact load_events_spec. Qed.

(* ... and that event sequence is the one the pickler produces whenever its bookkeeping of announcements coincides
   with the structure of the graph - a decidable condition on g, checked against the real pickler for every generated
   graph by the harness (check_dump). *)
Theorem C14_dumps_then_loads :
  forall g p, announced_structurally g ->
    exists s, load g p = inr s /\ restored s = spec g (top_patches g p) /\ clean_end g p s.
Proof. exact load_spec. Qed.

(* A purely syntactic class inside that condition: all instances distinct, and an ATTRIBUTE that is a reference points to
   the object itself or to an object it is nested in (parent pointers, cycles); references inside containers or inside
   objects of classes which do not opt in are unrestricted.  For every such graph - any number of siblings, any depth,
   containers, plain holders - and every patch dictionary, dumps followed by loads restores exactly per spec. *)
Theorem C14_tidy_graphs_restore :
  forall g p, tidy g ->
    exists s, load g p = inr s /\ restored s = spec g (top_patches g p) /\ clean_end g p s.
Proof. intros g p T. apply load_spec. apply tidy_announced_structurally. exact T. Qed.

Definition C14_tidy_sample : node :=
  Opt 0 true [(1, Opt 1 true [(9, Ref 0); (8, Ref 1)]); (2, Lst [Opt 2 false []; Opt 3 true [(1, Atom 4); (2, Ref 0)]; Ref 1]);
              (3, Opt 4 true [(7, Opt 5 true [(1, Ref 4); (2, Ref 0)])]); (4, PObj [(1, Opt 6 true []); (2, Ref 5)]); (7, Opt 7 true [])].
Example C14_example_tidy : tidy C14_tidy_sample.
Proof. split; [repeat constructor; cbn; intuition congruence|cbn; intuition]. Qed.

(* the hypothesis is satisfiable by non-trivial graphs: three siblings, a container-held pair between them, a child held
   by a plain object, a shared child referred to twice more, a cycle back to the top, a class without __setstate__ *)
Definition C14_sample : node :=
  Opt 0 true [(1, Opt 1 true [(9, Ref 0)]); (2, Lst [Opt 2 false []; Opt 3 true [(1, Atom 4)]]); (3, Opt 4 true [(7, Opt 5 true [])]);
              (4, PObj [(1, Opt 6 true [])]); (5, Ref 1); (6, Ref 1); (7, Opt 7 true [])].
Example C14_example_announced_structurally : announced_structurally C14_sample.
Proof. vm_compute. reflexivity. Qed.
Example C14_example_sample_loads :
  exists s, load C14_sample [] = inr s /\ map fst (restored s) = [1; 2; 3; 5; 4; 6; 7; 0]%nat /\ stack s = [] /\ iter s = -1.
Proof. eexists. split; [vm_compute; reflexivity|]. repeat split. Qed.

(* REFUTED outside that condition (known finding): a directly held child whose first occurrence lies inside an
   EARLIER attribute of the same holder is announced by the holder but restored while the entry of that earlier
   attribute is on top - it is restored with the patches addressed to the other object *)
Theorem C14_refuted_first_occurrence_inside_an_earlier_attribute :
  exists g p s, ~ announced_structurally g /\ load g p = inr s /\ restored s <> spec g (top_patches g p).
Proof.
  exists (Opt 0 true [(1, Opt 1 true [(7, Opt 2 true [(3, Atom 1)])]); (2, Ref 2)]),
         [(1, PDict [(3, PVal 11)]); (2, PDict [(3, PVal 22)])].
  eexists. split; [intros H; vm_compute in H; discriminate|]. split; [vm_compute; reflexivity|]. vm_compute. discriminate.
Qed.

Print Assumptions C14_every_graph_restores.
Print Assumptions C14_dumps_then_loads.
Print Assumptions C14_tidy_graphs_restore.
Print Assumptions C14_refuted_first_occurrence_inside_an_earlier_attribute.
