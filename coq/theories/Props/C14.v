(* C14 - every opt-in object, wherever it sits, is serialised remotely exactly once and
   restored from that state.  Model: Pickle/State.v (RemoteState of state.py as a stack
   machine + the event order of unpickling). The full statement is FALSE of the current
   code (known findings); what holds is proved for chains of any depth. *)
From PW Require Import Pickle.State Pickle.StateProofs.
Open Scope Z_scope.

(* PARTIAL (domain: every opt-in object has at most one direct opt-in child and otherwise
   plain values; every class defines __setstate__; no patches): for chains of ANY depth the
   load succeeds, every instance is restored exactly once - children before parents - with
   exactly its own state, and the per-thread stack is back to its initial state.
   Not covered by this theorem (exercised by the harness only): container-held and
   plain-object-held instances, sharing, cycles, non-dict states. *)
Theorem C14_partial_chains :
  forall c, load (to_node c) [] None = inr (mkM [] (-1) false [] (expected c)).
Proof. exact chain_loads. Qed.

(* REFUTED in general: two opt-in siblings under one opt-in parent *)
Theorem C14_refuted_two_siblings :
  exists g, load g [] None = inl EAssert.
Proof. exists (Opt 0 true [(1, Opt 1 true []); (2, Opt 2 true [])]). vm_compute. reflexivity. Qed.

(* REFUTED: the same child stored under two attribute names of one parent *)
Theorem C14_refuted_child_under_two_names :
  exists g, load g [] None = inl EAssert.
Proof. exists (Opt 0 true [(1, Opt 1 true []); (2, Ref 1)]). vm_compute. reflexivity. Qed.

(* REFUTED: an opt-in class without __setstate__ *)
Theorem C14_refuted_no_setstate :
  exists g, load g [] None = inl EAttribute.
Proof. exists (Opt 0 false [(1, Atom 1)]). vm_compute. reflexivity. Qed.

Example C14_example_chain_depth_3 :
  load (to_node (CLink 0 [(1, 5)] 2 (CLink 1 [] 1 (CEnd 2 [(3, 9)]) []) [(4, 7)])) [] None
  = inr (mkM [] (-1) false [] [(2%nat, [(3, RAtom 9)]); (1%nat, [(1, RObj 2)]); (0%nat, [(1, RAtom 5); (2, RObj 1); (4, RAtom 7)])]).
Proof. vm_compute. reflexivity. Qed.

Print Assumptions C14_partial_chains.
Print Assumptions C14_refuted_two_siblings.
Print Assumptions C14_refuted_child_under_two_names.
Print Assumptions C14_refuted_no_setstate.
