(* C11 - the remote server survives every client failure.  Model: Server/Model.v. *)
From PW Require Import Server.Model.
Open Scope Z_scope.

(* for EVERY sequence of client sessions - any request kind, vanishing at any stage (nothing sent,
   inside the header, inside the payload, before the control connection, garbage) or completing -
   the accept loop is still running afterwards *)
Theorem C11_server_survives_every_session_sequence :
  forall sessions s, up s = true -> up (fst (serve_all s sessions)) = true.
Proof. exact server_survives. Qed.

(* a client that fails before completing its request changes nothing: the workers of other clients
   and every context are exactly as before *)
Theorem C11_faulty_client_disturbs_nobody :
  forall s x, how x <> PComplete -> fst (serve s x) = s.
Proof. exact faulty_client_changes_nothing. Qed.

(* and a well-formed request that follows is served *)
Theorem C11_next_healthy_client_is_served :
  forall sessions s, up s = true ->
    snd (serve (fst (serve_all s sessions)) (mkSession RWorker PComplete)) = Handshake.
Proof. exact healthy_client_served. Qed.

Example C11_example :
  snd (serve_all srv0 [mkSession RWorker PHeaderCut; mkSession (RCtxCreate 1) PPayloadCut; mkSession RWorker PNoCtrl;
                       mkSession (RWorkerCtx 7) PComplete; mkSession RWorker PComplete])
  = [Closed; Closed; Closed; Closed; Handshake].
Proof. vm_compute. reflexivity. Qed.

Print Assumptions C11_server_survives_every_session_sequence.
Print Assumptions C11_faulty_client_disturbs_nobody.
Print Assumptions C11_next_healthy_client_is_served.
