(* C11 - the remote server survives every client failure.  Model: Server/Model.v, parameterised by the decisions of
   RemoteServer.run which tools/py2coq/gen_serverloop.py reads off the source on every run (Gen/ServerLoop.v): the per-client
   guard of the accept loop, what it lets escape, how unknown and duplicate context ids are answered. *)
From PW Require Import Server.Model.
From PW Require Gen.ServerLoop.
Open Scope Z_scope.

(* for EVERY sequence of client sessions - any request kind, vanishing at any stage (nothing sent,
   inside the header, inside the payload, before the control connection, garbage) or completing -
   the accept loop is still running afterwards *)
Theorem C11_server_survives_every_session_sequence :
  forall sessions s, up s = true -> up (fst (serve_all s sessions)) = true.
Proof. exact server_survives. Qed.

(* a client that fails before completing its request changes nothing: the workers of other clients
   and every context are exactly as before *)
Theorem C11_faulty_client_disturbs_nobody :
  forall s x, how x <> PComplete -> fst (serve s x) = s.
Proof. exact faulty_client_changes_nothing. Qed.

(* and a well-formed request that follows is served *)
Theorem C11_next_healthy_client_is_served :
  forall sessions s, up s = true ->
    snd (serve (fst (serve_all s sessions)) (mkSession RWorker PComplete)) = Handshake.
Proof. exact healthy_client_served. Qed.

(* the accept loop of the current source has the shape the theorems above are about *)
Lemma C11_server_loop_shape : good_sflags Gen.ServerLoop.gen_sflags.
Proof. repeat split; reflexivity. Qed.

(* without the per-client guard (as the loop was before its repair) the first client that connects and goes away ends
   the server - and with it every other client's workers *)
Theorem C11_refuted_without_the_per_client_guard :
  exists f x, guard_per_client f = false /\ up (fst (serve_f f srv0 x)) = false.
Proof. exists (mkSF false false true true true true true), (mkSession RWorker PNothing). split; reflexivity. Qed.

(* ... and so does a guard which lets more than the two termination signals escape *)
Theorem C11_refuted_if_the_guard_lets_other_exceptions_escape :
  exists f x, guard_per_client f = true /\ only_termination_escapes f = false /\ up (fst (serve_f f srv0 x)) = false.
Proof. exists (mkSF true true false true true true true), (mkSession (RCtxCreate 1) PPayloadCut). repeat split; reflexivity. Qed.

Example C11_example :
  snd (serve_all srv0 [mkSession RWorker PHeaderCut; mkSession (RCtxCreate 1) PPayloadCut; mkSession RWorker PNoCtrl;
                       mkSession (RWorkerCtx 7) PComplete; mkSession RWorker PComplete])
  = [Closed; Closed; Closed; Closed; Handshake].
Proof. vm_compute. reflexivity. Qed.

Print Assumptions C11_server_survives_every_session_sequence.
Print Assumptions C11_faulty_client_disturbs_nobody.
Print Assumptions C11_next_healthy_client_is_served.
Print Assumptions C11_refuted_without_the_per_client_guard.
Print Assumptions C11_refuted_if_the_guard_lets_other_exceptions_escape.
