From PW Require Import Ctrl.Model.
Definition tmo_eqb (a b : tmo) := match a, b with TFin, TFin | TInf, TInf => true | _, _ => false end.
Definition blk_eqb (a b : blk) := match a, b with BPoll x, BPoll y | BJoin x, BJoin y => tmo_eqb x y | _, _ => false end.
Fixpoint leqb {A} (eq : A -> A -> bool) (a b : list A) : bool :=
  match a, b with [], [] => true | x :: a', y :: b' => eq x y && leqb eq a' b' | _, _ => false end.
(* a history on a fresh (or never-run) worker: returned values, blocking calls, final liveness of the child *)
Definition check_hist (k : kind) (c : cclass) (run_ : bool) (ops : list op)
           (rets : list bool) (blocks_ : list blk) (alive_after : bool) : bool :=
  let '(s, bs) := run k (if run_ then fresh c else never_run c) ops in
  leqb Bool.eqb bs rets && leqb blk_eqb (log s) blocks_ && Bool.eqb (alive s) alive_after.
