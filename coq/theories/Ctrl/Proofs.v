From PW Require Import Ctrl.Model.

Definition op_tmo (o : op) : option tmo := match o with Wait t | Terminate t _ => Some t | _ => None end.
Definition blk_fin (b : blk) : bool := match b with BPoll TFin | BJoin TFin => true | _ => false end.

Definition no_log (s : pw) : pw := mkPw (started s) (dead s) (alive s) (cls s) (closed s) [].
(* the blocking primitives one call issues *)
Definition blocks (k : kind) (s : pw) (o : op) : list blk := log (fst (step k (no_log s) o)).

Ltac cases k s o :=
  destruct s as [st dd al c cl lg]; destruct k, st, dd, al, c, cl;
  destruct o as [|[|]|[|] [|]|].

Lemma step_log k s o : log (fst (step k s o)) = log s ++ blocks k s o.
Proof. cases k s o; cbn; rewrite <- ?app_assoc, ?app_nil_r; reflexivity. Qed.

(* (a) bounded: at most four blocking calls, each bounded by the caller's timeout *)
Lemma blocks_bounded k s o :
  length (blocks k s o) <= 4 /\ (op_tmo o <> Some TInf -> forallb blk_fin (blocks k s o) = true).
Proof. cases k s o; cbn; split; try lia; try reflexivity; intros H; congruence. Qed.

Definition consistent (s : pw) : Prop := (dead s = true -> alive s = false) /\ (started s = false -> alive s = false).

(* (b) truthful: the value returned says whether the child exists at the moment of return *)
Lemma step_truthful k s o :
  started s = true -> consistent s ->
  consistent (fst (step k s o)) /\ started (fst (step k s o)) = true /\
  match o with
  | IsAlive => snd (step k s o) = alive (fst (step k s o))
  | Wait _ | Terminate _ _ => snd (step k s o) = negb (alive (fst (step k s o)))
  | Close => True
  end.
Proof.
  unfold consistent. cases k s o; cbn; intros Hs [Hd Hn]; try discriminate Hs;
    repeat split; auto; try (intros; congruence); try (specialize (Hd eq_refl); discriminate).
Qed.

(* (c) idempotent: on a worker known dead, or never run, every call returns at once and changes nothing *)
Lemma step_when_dead k s o :
  started s = false \/ dead s = true -> consistent s ->
  blocks k s o = [] /\ alive (fst (step k s o)) = alive s /\
  match o with
  | IsAlive => snd (step k s o) = false
  | _ => snd (step k s o) = true
  end.
Proof.
  unfold consistent. cases k s o; cbn; intros [H|H] [Hd Hn]; try discriminate H; repeat split; auto;
    try (specialize (Hd eq_refl); discriminate); try (specialize (Hn eq_refl); discriminate).
Qed.

(* (d) forced termination of a process worker always ends with the child gone *)
Lemma terminate_force_kills k s t :
  is_process_kind k = true -> consistent s -> alive (fst (step k s (Terminate t true))) = false.
Proof.
  unfold consistent. intros Hk [Hd Hn].
  destruct s as [st dd al c cl lg]; destruct k, st, dd, al, c, cl, t; cbn in *; auto; try congruence;
    try (specialize (Hd eq_refl); discriminate); try (specialize (Hn eq_refl); discriminate).
Qed.

(* lifted to whole histories: consistency is an invariant, so (b)-(d) hold at every call *)
Lemma run_invariant k ops : forall s,
  started s = true -> consistent s ->
  started (fst (run k s ops)) = true /\ consistent (fst (run k s ops)).
Proof.
  induction ops as [|o r IH]; intros s Hs Hd; simpl; [auto|].
  pose proof (step_truthful k s o Hs Hd) as T. destruct (step k s o) as [s1 b]. destruct T as [T1 [T2 _]].
  specialize (IH s1 T2 T1). destruct (run k s1 r) as [s2 bs]. exact IH.
Qed.

Lemma fresh_consistent c : started (fresh c) = true /\ consistent (fresh c).
Proof. split; [reflexivity|split; discriminate]. Qed.
