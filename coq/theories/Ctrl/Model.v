(* M3 - the parent-side control state machine of thread and process workers:
   is_alive / wait / terminate / close against a child of a given class.
   The bodies of ThreadWorker.wait/terminate and ProcessWorker.wait/terminate are GENERATED (Gen/Ctrl.v: lists of control
   instructions, tools/py2coq/gen_ctrl.py), as are wait() and the shape of close() of the persistent thread/process kinds, and
   interpreted here; is_alive, _release_child and the reaction table of the child classes are hand-written (pinned).  Compared with the real methods
   driving a scripted child (harness/props/c04.py). *)
From Coq Require Export List Bool Arith Lia.
Export ListNotations.
From PW Require Export Ctrl.Instr.
From PW Require Import Gen.Ctrl.

(* how the child reacts; all classes die on SIGKILL, all but Stopped on SIGTERM *)
Inductive cclass :=
| Coop        (* target lets WorkerTerminatedError propagate *)
| Swallows    (* target catches every Exception and carries on *)
| BlockedC    (* main thread blocked in a long C call: the exception is not delivered before it returns *)
| GilHeld     (* interpreter lock held by C code: not even the control thread runs *)
| Stopped.    (* SIGSTOPped *)

Inductive tmo := TFin | TInf.                 (* a finite timeout, or None *)
Inductive blk := BPoll (t : tmo) | BJoin (t : tmo).   (* blocking primitives the parent calls *)
Inductive kind := KThread | KProcess | KPersistentProcess | KPersistentThread.

Record pw := mkPw {
  started : bool;          (* _started *)
  dead : bool;             (* _dead cache *)
  alive : bool;            (* the child really exists *)
  cls : cclass;
  closed : bool;           (* persistent: _closed (input side released) *)
  log : list blk
}.

Inductive op := IsAlive | Wait (t : tmo) | Terminate (t : tmo) (force : bool) | Close.

Definition acks (c : cclass) : bool := match c with Coop | Swallows | BlockedC => true | _ => false end.
Definition dies_gracefully (c : cclass) : bool := match c with Coop => true | _ => false end.
Definition dies_on_sigterm (c : cclass) : bool := match c with Stopped => false | _ => true end.

Definition with_log (s : pw) (b : list blk) : pw := mkPw (started s) (dead s) (alive s) (cls s) (closed s) (log s ++ b).
Definition set_alive (s : pw) (a : bool) : pw := mkPw (started s) (dead s) a (cls s) (closed s) (log s).
Definition mark_dead (s : pw) : pw := mkPw (started s) true (alive s) (cls s) (closed s) (log s).
Definition set_closed (s : pw) : pw := mkPw (started s) (dead s) (alive s) (cls s) true (log s).

(* is_alive(): conservative, caches death *)
Definition is_alive (s : pw) : pw * bool :=
  if negb (started s) || dead s then (s, false)
  else if alive s then (s, true) else (mark_dead s, false).

Definition finish (s : pw) : pw * bool := if alive s then (s, false) else (mark_dead s, true).

(* a persistent child whose input side has been released finishes on its own unless it is unresponsive *)
Definition after_close (k : kind) (s : pw) : pw :=
  match k with
  | KPersistentProcess | KPersistentThread =>
      let s1 := set_closed s in if dies_gracefully (cls s1) then set_alive s1 false else s1
  | _ => s
  end.

(* one generated instruction: [t] is the caller's timeout, [force] its force flag *)
Fixpoint interp1 (k : kind) (t : tmo) (force : bool) (i : cinstr) (s : pw) : pw :=
  match i with
  | CPutTerminate | CSelfSigterm | CEarlyResult => s
  | CAck bounded =>
      (* the control thread acknowledges and raises the exception in the main thread - if it can run at all *)
      let s1 := with_log s [BPoll (if bounded then t else TInf)] in
      if acks (cls s1) && dies_gracefully (cls s1) then set_alive s1 false else s1
  | CRaise => if dies_gracefully (cls s) then set_alive s false else s
  | CRelease | CClose => after_close k s
  | CJoin bounded => with_log s [BJoin (if bounded then t else TInf)]
  | CSigterm => if dies_on_sigterm (cls s) then set_alive s false else s
  | CSigkill => set_alive s false
  | CIfAlive body =>
      if alive s then (fix go (l : list cinstr) (s : pw) : pw := match l with [] => s | x :: r => go r (interp1 k t force x s) end) body s else s
  | CIfForce body =>
      if force then (fix go (l : list cinstr) (s : pw) : pw := match l with [] => s | x :: r => go r (interp1 k t force x s) end) body s else s
  end.
Fixpoint interp (k : kind) (t : tmo) (force : bool) (l : list cinstr) (s : pw) : pw :=
  match l with [] => s | x :: r => interp k t force r (interp1 k t force x s) end.

Definition step (k : kind) (s : pw) (o : op) : pw * bool :=
  match o with
  | IsAlive => is_alive s
  | Close =>
      (* close() of the persistent kinds: release the child - in some kinds only after `if not self.is_alive(): return` *)
      let close_ (guarded : bool) :=
        if guarded then let '(s1, a) := is_alive s in if a then (after_close k s1, true) else (s1, true)
        else (after_close k s, true) in
      match k with
      | KPersistentProcess => close_ gen_pprocess_close_guarded
      | KPersistentThread => close_ gen_pthread_close_guarded
      | _ => (s, true)
      end
  | Wait t =>
      let '(s1, a) := is_alive s in
      if negb a then (s1, true)
      else
        match k with
        | KThread => finish (interp k t false gen_thread_wait s1)
        | KProcess => finish (interp k t false gen_process_wait s1)
        | KPersistentProcess => finish (interp k t false gen_pprocess_wait s1)
        | KPersistentThread => finish (interp k t false gen_pthread_wait s1)
        end
  | Terminate t force =>
      let '(s1, a) := is_alive s in
      if negb a then (s1, true)
      else
        match k with
        | KThread | KPersistentThread => finish (interp k t force gen_thread_terminate s1)
        | _ => finish (interp k t force gen_process_terminate s1)
        end
  end.

Fixpoint run (k : kind) (s : pw) (ops : list op) : pw * list bool :=
  match ops with
  | [] => (s, [])
  | o :: r => let '(s1, b) := step k s o in let '(s2, bs) := run k s1 r in (s2, b :: bs)
  end.

Definition is_process_kind (k : kind) : bool := match k with KProcess | KPersistentProcess => true | _ => false end.

Definition fresh (c : cclass) : pw := mkPw true false true c false [].
Definition never_run (c : cclass) : pw := mkPw false true false c false [].
