(* M3 - the parent-side control state machine of thread and process workers:
   is_alive / wait / terminate / close against a child of a given class.
   Hand-written from ThreadWorker / ProcessWorker / PersistentProcessWorker (pinned by
   tools/pin.py), compared with the real methods driving a scripted child (harness/props/c04.py). *)
From Coq Require Export List Bool Arith Lia.
Export ListNotations.

(* how the child reacts; all classes die on SIGKILL, all but Stopped on SIGTERM *)
Inductive cclass :=
| Coop        (* target lets WorkerTerminatedError propagate *)
| Swallows    (* target catches every Exception and carries on *)
| BlockedC    (* main thread blocked in a long C call: the exception is not delivered before it returns *)
| GilHeld     (* interpreter lock held by C code: not even the control thread runs *)
| Stopped.    (* SIGSTOPped *)

Inductive tmo := TFin | TInf.                 (* a finite timeout, or None *)
Inductive blk := BPoll (t : tmo) | BJoin (t : tmo).   (* blocking primitives the parent calls *)
Inductive kind := KThread | KProcess | KPersistentProcess | KPersistentThread.

Record pw := mkPw {
  started : bool;          (* _started *)
  dead : bool;             (* _dead cache *)
  alive : bool;            (* the child really exists *)
  cls : cclass;
  closed : bool;           (* persistent: _closed (input side released) *)
  log : list blk
}.

Inductive op := IsAlive | Wait (t : tmo) | Terminate (t : tmo) (force : bool) | Close.

Definition acks (c : cclass) : bool := match c with Coop | Swallows | BlockedC => true | _ => false end.
Definition dies_gracefully (c : cclass) : bool := match c with Coop => true | _ => false end.
Definition dies_on_sigterm (c : cclass) : bool := match c with Stopped => false | _ => true end.

Definition with_log (s : pw) (b : list blk) : pw := mkPw (started s) (dead s) (alive s) (cls s) (closed s) (log s ++ b).
Definition set_alive (s : pw) (a : bool) : pw := mkPw (started s) (dead s) a (cls s) (closed s) (log s).
Definition mark_dead (s : pw) : pw := mkPw (started s) true (alive s) (cls s) (closed s) (log s).
Definition set_closed (s : pw) : pw := mkPw (started s) (dead s) (alive s) (cls s) true (log s).

(* is_alive(): conservative, caches death *)
Definition is_alive (s : pw) : pw * bool :=
  if negb (started s) || dead s then (s, false)
  else if alive s then (s, true) else (mark_dead s, false).

Definition finish (s : pw) : pw * bool := if alive s then (s, false) else (mark_dead s, true).

(* a persistent child whose input side has been released finishes on its own unless it is unresponsive *)
Definition after_close (k : kind) (s : pw) : pw :=
  match k with
  | KPersistentProcess | KPersistentThread =>
      let s1 := set_closed s in if dies_gracefully (cls s1) then set_alive s1 false else s1
  | _ => s
  end.

Definition step (k : kind) (s : pw) (o : op) : pw * bool :=
  match o with
  | IsAlive => is_alive s
  | Close => match k with
             | KPersistentProcess => (after_close k s, true)
             | KPersistentThread =>
                 (* close(): `if not self.is_alive(): return` precedes the release *)
                 let '(s1, a) := is_alive s in
                 if a then (after_close k s1, true) else (s1, true)
             | _ => (s, true)
             end
  | Wait t =>
      let '(s1, a) := is_alive s in
      if negb a then (s1, true)
      else finish (with_log (after_close k s1) [BJoin t])
  | Terminate t force =>
      let '(s1, a) := is_alive s in
      if negb a then (s1, true)
      else
        match k with
        | KThread | KPersistentThread =>
            (* foreign_raise + _release_child + join(timeout); force (SIGTERM to the own process) is outside the model *)
            let s2 := if dies_gracefully (cls s1) then set_alive s1 false else s1 in
            finish (with_log (after_close k s2) [BJoin t])
        | _ =>
            (* put('terminate'); poll(timeout) for the acknowledgement; release; join; SIGTERM; join; SIGKILL; join *)
            let s2 := with_log s1 [BPoll t] in
            let s3 := if acks (cls s2) && dies_gracefully (cls s2) then set_alive s2 false else s2 in
            let s4 := with_log (after_close k s3) [BJoin t] in
            if alive s4 && force then
              let s5 := with_log (if dies_on_sigterm (cls s4) then set_alive s4 false else s4) [BJoin t] in
              if alive s5 then finish (with_log (set_alive s5 false) [BJoin t]) else finish s5
            else finish s4
        end
  end.

Fixpoint run (k : kind) (s : pw) (ops : list op) : pw * list bool :=
  match ops with
  | [] => (s, [])
  | o :: r => let '(s1, b) := step k s o in let '(s2, bs) := run k s1 r in (s2, b :: bs)
  end.

Definition is_process_kind (k : kind) : bool := match k with KProcess | KPersistentProcess => true | _ => false end.

Definition fresh (c : cclass) : pw := mkPw true false true c false [].
Definition never_run (c : cclass) : pw := mkPw false true false c false [].
