(* Instructions of the parent-side control methods (wait / terminate of thread and process workers) as the translator
   tools/py2coq/gen_ctrl.py emits them into Gen/Ctrl.v: one instruction per statement that matters, in source order. *)
From Coq Require Export List Bool.
Export ListNotations.

Inductive cinstr :=
| CPutTerminate                      (* self._ctrl_comms.parent_end.put('terminate') *)
| CAck (bounded : bool)              (* wait for the control thread's acknowledgement: `if poll(timeout): get()` is bounded, a bare get() is not *)
| CRaise                             (* foreign_raise(self._ident, WorkerTerminatedError): thread kinds *)
| CRelease                           (* self._release_child() *)
| CClose                             (* self.close(): persistent kinds, from wait() *)
| CJoin (bounded : bool)             (* self._child.join(timeout) / join(<what is left of timeout>) ; join() or join(None) is not bounded *)
| CSigterm                           (* self._child.terminate() *)
| CSigkill                           (* self._child.kill() *)
| CSelfSigterm                       (* os.kill(os.getpid(), SIGTERM): thread kinds with force - outside the model *)
| CEarlyResult                       (* ProcessWorker.wait: receive the final message while waiting (bounded by the same timeout) *)
| CIfAlive (body : list cinstr)      (* if self._child.is_alive(): ... *)
| CIfForce (body : list cinstr).     (* if force: ... *)
