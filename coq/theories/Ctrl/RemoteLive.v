(* The parent side of a remote worker's liveness protocol (C01: "dead" implies that the outcome has been stored; C04: the answers of
   is_alive / wait / terminate are truthful).  RemoteWorker.is_alive / wait / terminate (the branch for the parent side) are read off
   the source by tools/py2coq/gen_remotelive.py as lists of decision steps in source order (Gen/RemoteLive.v) and interpreted here. *)
From Coq Require Import List Bool.
Import ListNotations.

Inductive rstep :=
| RKnown      (* if not self._started or self._dead: return <dead> *)
| RFront      (* if self._child.is_alive(): return True   - the frontend thread is still receiving the outcome *)
| RAsk        (* if not self._remote_dead: ask the server; a closed connection counts as "dead" *)
| RJoin       (* self._child.join(timeout); alive = self._child.is_alive(); if not alive: self._dead = True; return not alive *)
| RRetFalse.  (* return False *)

Inductive meth := MAlive | MWait.     (* wait and terminate have the same parent-side shape *)

Record rl := mkRL {
  known_dead : bool;    (* self._dead: cached verdict *)
  remote_dead : bool;   (* self._remote_dead: the server has confirmed the death / the control connection is gone *)
  front : bool;         (* the frontend thread is alive: the final outcome has not been stored yet *)
  proc : bool           (* the child process on the server is alive *)
}.

(* what the environment does during one call: the child process ends before the server answers; the frontend thread finishes
   within the join *)
Record env := mkEnv { dies : bool; fin : bool }.

(* the answer of a call, as "the worker is dead" (is_alive returns the negation); None: the method falls off its end *)
Fixpoint run (m : meth) (e : env) (steps : list rstep) (s : rl) : option bool * rl :=
  match steps with
  | [] => (None, s)
  | RKnown :: r => if known_dead s then (Some true, s) else run m e r s
  | RFront :: r => if front s then (Some false, s) else run m e r s
  | RAsk :: r =>
      if remote_dead s then
        match m with
        | MAlive => run m e r (mkRL true true (front s) (proc s))
        | MWait => run m e r s
        end
      else
        let p := proc s && negb (dies e) in
        if p then (Some false, mkRL (known_dead s) false (front s) true)
        else match m with
             | MAlive => run m e r (mkRL true true (front s) false)
             | MWait => run m e r (mkRL (known_dead s) true (front s) false)
             end
  | RJoin :: r =>
      let f := front s && negb (fin e) in
      (Some (negb f), mkRL (known_dead s || negb f) (remote_dead s) f (proc s))
  | RRetFalse :: r => (Some true, s)       (* is_alive: False = dead *)
  end.

(* what the cached flags claim is true *)
Definition inv (s : rl) : bool :=
  implb (known_dead s) (negb (front s) && negb (proc s)) && implb (remote_dead s) (negb (proc s)).

(* a call is sound in state s under e: it answers; "dead" is only said when the child process is gone AND the frontend thread has
   stored the outcome; and the cached flags stay true *)
Definition sound_at (m : meth) (steps : list rstep) (s : rl) (e : env) : bool :=
  implb (inv s)
    (match run m e steps s with
     | (Some true, s') => negb (front s') && negb (proc s') && inv s'
     | (Some false, s') => inv s'
     | (None, _) => false
     end).

Definition bools := [true; false].
Definition all_states : list rl :=
  flat_map (fun a => flat_map (fun b => flat_map (fun c => map (fun d => mkRL a b c d) bools) bools) bools) bools.
Definition all_envs : list env := flat_map (fun a => map (fun b => mkEnv a b) bools) bools.

Definition sound (m : meth) (steps : list rstep) : bool :=
  forallb (fun s => forallb (fun e => sound_at m steps s e) all_envs) all_states.

Lemma in_bools b : In b bools. Proof. destruct b; cbn; auto. Qed.
Lemma all_states_complete s : In s all_states.
Proof. destruct s as [[] [] [] []]; cbn; tauto. Qed.
Lemma all_envs_complete e : In e all_envs.
Proof. destruct e as [[] []]; cbn; tauto. Qed.

Theorem sound_spec m steps : sound m steps = true -> forall s e, sound_at m steps s e = true.
Proof.
  intros H s e. unfold sound in H. rewrite forallb_forall in H. specialize (H s (all_states_complete s)).
  rewrite forallb_forall in H. exact (H e (all_envs_complete e)).
Qed.

(* the statement in words *)
Theorem sound_means m steps : sound m steps = true ->
  forall s e, inv s = true ->
    exists dead s', run m e steps s = (Some dead, s') /\ inv s' = true /\ (dead = true -> front s' = false /\ proc s' = false).
Proof.
  intros H s e I. pose proof (sound_spec m steps H s e) as S. unfold sound_at in S. rewrite I in S. cbn [implb] in S.
  destruct (run m e steps s) as [[[|]|] s'] eqn:R; [| |discriminate].
  - exists true, s'. apply andb_true_iff in S. destruct S as [S I']. apply andb_true_iff in S. destruct S as [F P].
    split; [reflexivity|]. split; [exact I'|]. intros _. split; [now apply negb_true_iff in F|now apply negb_true_iff in P].
  - exists false, s'. split; [reflexivity|]. split; [exact S|discriminate].
Qed.
