(* Hand-written environment model for the translated framing code
   (pyworkers/remote.py send_msg / recv_msg): a scripted stream socket and
   struct.pack/unpack('!I').  TRUSTED: this file states how a TCP socket and the
   struct module behave; it contains no pyworkers logic. *)
From PW Require Export Base.PyM.
Open Scope Z_scope.

Definition bytes := list Z.

(* [buf]   bytes the peer has written and that have not been read yet;
   [cuts]  how the transport segments them: the i-th recv that finds data returns
           at most [S c_i] bytes (absent => as many as asked);  any non-empty
           amount up to the request is therefore possible;
   [fin]   what happens once [buf] is exhausted: [None] = orderly close, recv
           returns b'';  [Some e] = recv raises e (RST, timeout ...).
   A peer that stays silent without closing is outside the property (C10).
   [out]   what this side has handed to sendall so far;
   [send_err] if set, sendall raises it. *)
Record sock := mkSock {
  buf : bytes; cuts : list nat; fin : option exn;
  out : bytes; send_err : option exn }.

Definition sock_of (b : bytes) (cs : list nat) (f : option exn) : sock :=
  mkSock b cs f [] None.

Definition take (n : Z) (cs : list nat) : nat :=
  match cs with
  | [] => Z.to_nat n
  | c :: _ => Nat.min (Z.to_nat n) (S c)
  end.

(* sock.recv(n) *)
Definition sock_recv (n : Z) : @M sock bytes := fun s =>
  if n <=? 0 then (Ret [], s) else
  match buf s with
  | [] => match fin s with
          | None => (Ret [], s)
          | Some e => (Raise e, s)
          end
  | _ :: _ =>
      let k := take n (cuts s) in
      (Ret (firstn k (buf s)),
       mkSock (skipn k (buf s)) (tl (cuts s)) (fin s) (out s) (send_err s))
  end.

(* sock.sendall(b) *)
Definition sock_sendall (b : bytes) : @M sock unit := fun s =>
  match send_err s with
  | Some e => (Raise e, s)
  | None => (Ret tt, mkSock (buf s) (cuts s) (fin s) (out s ++ b) (send_err s))
  end.

Definition be32 (n : Z) : bytes :=
  [n / 16777216 mod 256; n / 65536 mod 256; n / 256 mod 256; n mod 256].

Definition un_be32 (b : bytes) : Z :=
  match b with
  | [a; b; c; d] => ((a * 256 + b) * 256 + c) * 256 + d
  | _ => 0
  end.

(* struct.pack('!I', n) *)
Definition struct_pack_I (n : Z) : @M sock bytes :=
  if (0 <=? n) && (n <? 4294967296) then ret (be32 n) else raise EStructError.

(* struct.unpack('!I', b)[0] *)
Definition struct_unpack_I (b : bytes) : @M sock Z :=
  if Nat.eqb (length b) 4 then ret (un_be32 b) else raise EStructError.

Definition blen (b : bytes) : Z := Z.of_nat (length b).
Definition bytes_truthy (b : bytes) : bool := negb (Nat.eqb (length b) 0).
Definition int_truthy (n : Z) : bool := negb (n =? 0).
