(* Proofs about the GENERATED framing code (Gen/Framing.v, regenerated from
   pyworkers/remote.py on every run).  Nothing here restates the code: every
   lemma is about py_recv_exact_h / py_recv_msg / py_send_msg as emitted by the
   translator, so an edit of remote.py that changes their behaviour breaks a
   proof below. *)
From PW Require Import Base.PyM Framing.Sock Gen.Framing.
From Coq Require Import ZifyBool ZifyNat.
Open Scope Z_scope.
Ltac Zify.zify_post_hook ::= Z.to_euclidean_division_equations.

(* ---------- arithmetic of the header ---------- *)
Lemma un_be32_be32 n : 0 <= n < 4294967296 -> un_be32 (be32 n) = n.
Proof. intros H. unfold un_be32, be32. lia. Qed.

Lemma be32_length n : length (be32 n) = 4%nat.
Proof. reflexivity. Qed.

Definition frame (p : bytes) : bytes := be32 (blen p) ++ p.

Lemma frame_length p : length (frame p) = (4 + length p)%nat.
Proof. unfold frame. rewrite app_length. reflexivity. Qed.

(* what a read hitting the end of the stream produces *)
Definition eof_exn (f : option exn) : exn :=
  match f with None => EConnClosed | Some e => e end.

Definition oserr (e : exn) : bool := exn_isa e COSError.
Definition fin_ok (f : option exn) : Prop :=
  match f with None => True | Some e => oserr e = true end.

(* ---------- list facts ---------- *)
Lemma firstn_add {A} (a b : nat) (l : list A) :
  firstn (a + b) l = firstn a l ++ firstn b (skipn a l).
Proof.
  revert l; induction a as [|a IH]; intros l; simpl; [reflexivity|].
  destruct l as [|x l]; simpl; [now rewrite firstn_nil|]. now rewrite IH.
Qed.

Lemma skipn_add {A} (a b : nat) (l : list A) : skipn (a + b) l = skipn b (skipn a l).
Proof.
  revert l; induction a as [|a IH]; intros l; simpl; [reflexivity|].
  destruct l as [|x l]; simpl; [now rewrite skipn_nil|]. apply IH.
Qed.

(* ---------- the exact-read loop ---------- *)
Definition loop_cond (count : Z) := fun data : bytes => blen data <? count.
Definition loop_body (count : Z) := fun data : bytes =>
  (t1_ <- sock_recv (count - (blen data)) ;;
   chunk <- ret t1_ ;;
   _ <- (if (negb (bytes_truthy chunk)) then (raise EConnClosed) else (ret tt)) ;;
   data <- ret (data ++ chunk) ;;
   ret data)%pym.

Lemma recv_exact_unfold fuel count :
  py_recv_exact_h fuel count =
  (data <- ret ([] : bytes) ;;
   data <- while_ fuel (loop_cond count) (loop_body count) data ;;
   ret data)%pym.
Proof. reflexivity. Qed.

Definition need (count : Z) (data : bytes) : nat := Z.to_nat (count - blen data).

Definition advance (k : nat) (s : sock) : sock :=
  mkSock (skipn k (buf s)) (tl (cuts s)) (fin s) (out s) (send_err s).

Lemma loop_stop fuel count data s :
  count <= blen data ->
  while_ (S fuel) (loop_cond count) (loop_body count) data s = (Ret data, s).
Proof.
  intros H. simpl. unfold loop_cond.
  assert (blen data <? count = false) as -> by lia. reflexivity.
Qed.

Lemma loop_step_eof fuel count data s :
  blen data < count -> buf s = [] ->
  while_ (S fuel) (loop_cond count) (loop_body count) data s = (Raise (eof_exn (fin s)), s).
Proof.
  intros H Hb. simpl. unfold loop_cond.
  assert (blen data <? count = true) as -> by lia.
  unfold bind, loop_body, bind, sock_recv.
  assert (count - blen data <=? 0 = false) as -> by lia.
  rewrite Hb. destruct (fin s); reflexivity.
Qed.

Lemma loop_step_data fuel count data s :
  blen data < count -> buf s <> [] ->
  let k := take (count - blen data) (cuts s) in
  while_ (S fuel) (loop_cond count) (loop_body count) data s =
  while_ fuel (loop_cond count) (loop_body count) (data ++ firstn k (buf s)) (advance k s).
Proof.
  intros H Hb k. simpl. unfold loop_cond at 1.
  assert (blen data <? count = true) as -> by lia.
  unfold bind at 1. unfold loop_body at 1. unfold bind at 1. unfold sock_recv.
  assert (count - blen data <=? 0 = false) as -> by lia.
  destruct (buf s) as [|b0 bs] eqn:E; [congruence|]. rewrite <- E. fold k.
  unfold ret at 1. unfold bind at 1.
  assert (bytes_truthy (firstn k (buf s)) = true) as ->.
  { unfold bytes_truthy. rewrite firstn_length, E.
    assert (1 <= k)%nat by (unfold k, take; destruct (cuts s); lia).
    simpl length. destruct (Nat.eqb_spec (Nat.min k (S (length bs))) 0); [lia|reflexivity]. }
  reflexivity.
Qed.

(* One lemma for success and for truncation.  [cuts] are arbitrary. *)
Lemma loop_spec fuel : forall count data s,
  (Nat.min (need count data) (length (buf s)) < fuel)%nat ->
  let n := need count data in
  if (n <=? length (buf s))%nat then
    exists cs, while_ fuel (loop_cond count) (loop_body count) data s =
      (Ret (data ++ firstn n (buf s)),
       mkSock (skipn n (buf s)) cs (fin s) (out s) (send_err s))
  else
    exists s', while_ fuel (loop_cond count) (loop_body count) data s =
      (Raise (eof_exn (fin s)), s').
Proof.
  induction fuel as [|fuel IH]; intros count data s Hf; [lia|].
  cbn zeta.
  destruct (Z_lt_ge_dec (blen data) count) as [Hc|Hc].
  2:{ assert (need count data = 0%nat) as -> by (unfold need; lia).
    simpl Nat.leb. cbv iota. exists (cuts s). rewrite loop_stop by lia.
    simpl. rewrite app_nil_r. destruct s; reflexivity. }
  assert (Hn : (0 < need count data)%nat) by (unfold need; lia).
  destruct (buf s) as [|b0 bs] eqn:Hb.
  - assert ((need count data <=? length (@nil Z))%nat = false) as -> by (simpl; lia).
    exists s. apply loop_step_eof; assumption.
  - rewrite <- Hb. rewrite <- Hb in Hf. rewrite loop_step_data by (assumption || congruence).
    set (k := take (count - blen data) (cuts s)).
    assert (Hk : (1 <= k <= need count data)%nat).
    { unfold k, take, need. destruct (cuts s); lia. }
    set (chunk := firstn k (buf s)).
    assert (Hlc : length chunk = Nat.min k (length (buf s))) by apply firstn_length.
    assert (Hbl : (1 <= length (buf s))%nat) by (rewrite Hb; simpl; lia).
    assert (Hneed : need count (data ++ chunk) = (need count data - length chunk)%nat).
    { unfold need, blen. rewrite app_length. lia. }
    assert (Hs1 : length (buf (advance k s)) = (length (buf s) - k)%nat) by (simpl; apply skipn_length).
    specialize (IH count (data ++ chunk) (advance k s)).
    rewrite Hneed, Hs1 in IH.
    assert (Hfu : (Nat.min (need count data - length chunk) (length (buf s) - k) < fuel)%nat) by lia.
    specialize (IH Hfu). cbn zeta in IH.
    destruct (Nat.leb_spec (need count data) (length (buf s))) as [Hle|Hgt].
    + assert ((need count data - length chunk <=? length (buf s) - k)%nat = true) as Hle' by lia.
      rewrite Hle' in IH. destruct IH as [cs IH]. exists cs. rewrite IH.
      assert (Hlck : length chunk = k) by lia.
      f_equal.
      * f_equal. rewrite <- app_assoc. f_equal.
        replace (need count data) with (k + (need count data - k))%nat at 2 by lia.
        rewrite firstn_add. rewrite Hlck. reflexivity.
      * simpl. f_equal.
        replace (need count data) with (k + (need count data - k))%nat at 2 by lia.
        rewrite skipn_add. now rewrite Hlck.
    + assert ((need count data - length chunk <=? length (buf s) - k)%nat = false) as Hgt' by lia.
      rewrite Hgt' in IH. destruct IH as [s' IH]. exists s'. rewrite IH. reflexivity.
Qed.

Lemma recv_exact_ok fuel count s :
  0 <= count -> (Z.to_nat count <= length (buf s))%nat -> (Z.to_nat count < fuel)%nat ->
  exists cs, py_recv_exact_h fuel count s =
    (Ret (firstn (Z.to_nat count) (buf s)),
     mkSock (skipn (Z.to_nat count) (buf s)) cs (fin s) (out s) (send_err s)).
Proof.
  intros H0 Hl Hf. rewrite recv_exact_unfold. unfold bind at 1, ret at 1.
  pose proof (loop_spec fuel count [] s) as L.
  assert (need count [] = Z.to_nat count) as Hn by (unfold need, blen; simpl; lia).
  rewrite Hn in L. cbn zeta in L.
  assert ((Z.to_nat count <=? length (buf s))%nat = true) as Hle by lia.
  rewrite Hle in L. destruct L as [cs L]; [lia|]. exists cs.
  unfold bind. rewrite L. reflexivity.
Qed.

Lemma recv_exact_short fuel count s :
  (length (buf s) < Z.to_nat count)%nat -> (length (buf s) < fuel)%nat ->
  exists s', py_recv_exact_h fuel count s = (Raise (eof_exn (fin s)), s').
Proof.
  intros Hl Hf. rewrite recv_exact_unfold. unfold bind at 1, ret at 1.
  pose proof (loop_spec fuel count [] s) as L.
  assert (need count [] = Z.to_nat count) as Hn by (unfold need, blen; simpl; lia).
  rewrite Hn in L. cbn zeta in L.
  assert ((Z.to_nat count <=? length (buf s))%nat = false) as Hle by lia.
  rewrite Hle in L. destruct L as [s' L]; [lia|]. exists s'.
  unfold bind. rewrite L. reflexivity.
Qed.

(* the loop never exhausts a fuel larger than the bytes available: no spinning *)
Lemma recv_exact_no_spin fuel count s :
  (length (buf s) < fuel)%nat -> fst (py_recv_exact_h fuel count s) <> OutOfFuel.
Proof.
  intros Hf. rewrite recv_exact_unfold. unfold bind at 1, ret at 1.
  pose proof (loop_spec fuel count [] s) as L. cbn zeta in L.
  destruct ((need count [] <=? length (buf s))%nat).
  - destruct L as [cs L]; [lia|]. unfold bind. rewrite L. discriminate.
  - destruct L as [s' L]; [lia|]. unfold bind. rewrite L. discriminate.
Qed.

Lemma eof_exn_caught f cs :
  fin_ok f -> existsb (fun c => match c with COSError => true | _ => false end) cs = true ->
  eof_exn f = EConnClosed \/ catches cs (eof_exn f) = true.
Proof.
  intros Hf Hcs. destruct f as [e|]; [right|now left]. simpl in *.
  unfold catches. apply existsb_exists. apply existsb_exists in Hcs.
  destruct Hcs as [c [Hin Hc]]. exists c. split; [assumption|].
  destruct c; try discriminate. exact Hf.
Qed.

Section WithCodec.
  Variable Msg : Type.
  Variable enc : Msg -> bytes.
  Variable dec : bytes -> Msg.

  Local Notation recv_msg := (py_recv_msg Msg dec).
  Local Notation send_msg := (py_send_msg Msg enc).

  (* ---------- one message, any segmentation ---------- *)
  Lemma recv_msg_frame fuel p rest cs f o se :
    blen p < 4294967296 -> (length (frame p) < fuel)%nat ->
    exists cs',
      recv_msg fuel (mkSock (frame p ++ rest) cs f o se) =
      (Ret (dec p), mkSock rest cs' f o se).
  Proof.
    intros Hp Hf. rewrite frame_length in Hf.
    unfold py_recv_msg.
    set (s0 := mkSock (frame p ++ rest) cs f o se).
    destruct (recv_exact_ok fuel 4 s0) as [cs1 E1]; try (simpl; rewrite ?app_length; simpl; lia).
    unfold bind at 1. unfold try_except at 1. unfold bind at 1. rewrite E1.
    assert (Hh : firstn (Z.to_nat 4) (buf s0) = be32 (blen p)) by reflexivity.
    rewrite Hh.
    unfold struct_unpack_I at 1. rewrite be32_length. simpl Nat.eqb. cbv iota.
    unfold ret at 1. unfold bind at 1. unfold ret at 1. unfold bind at 1. unfold ret at 1.
    rewrite un_be32_be32 by (unfold blen in *; lia).
    assert (Hs : skipn (Z.to_nat 4) (buf s0) = p ++ rest) by reflexivity.
    rewrite Hs.
    set (s1 := mkSock (p ++ rest) cs1 (fin s0) (out s0) (send_err s0)).
    destruct (recv_exact_ok fuel (blen p) s1) as [cs2 E2];
      try (unfold blen; simpl; rewrite ?app_length; lia).
    unfold bind at 1. unfold try_except at 1. unfold bind at 1. rewrite E2.
    unfold ret at 1. unfold bind at 1. unfold ret at 1. unfold bind at 1. unfold ret at 1.
    unfold ret.
    exists cs2. unfold blen. rewrite Nat2Z.id. simpl buf.
    rewrite firstn_app, Nat.sub_diag, firstn_all. simpl. rewrite app_nil_r.
    rewrite skipn_app, Nat.sub_diag, skipn_all. reflexivity.
  Qed.

  (* ---------- truncation anywhere inside a frame ---------- *)
  Lemma recv_msg_truncated fuel p k cs f o se :
    blen p < 4294967296 -> (k < length (frame p))%nat -> fin_ok f -> (k < fuel)%nat ->
    exists s', recv_msg fuel (mkSock (firstn k (frame p)) cs f o se) = (Raise EConnClosed, s').
  Proof.
    intros Hp Hk Hfin Hf. rewrite frame_length in Hk.
    unfold py_recv_msg.
    set (s0 := mkSock (firstn k (frame p)) cs f o se).
    assert (Hl0 : length (buf s0) = k).
    { simpl. rewrite firstn_length, frame_length. lia. }
    destruct (le_lt_dec 4 k) as [H4|H4].
    - (* header complete, body short *)
      destruct (recv_exact_ok fuel 4 s0) as [cs1 E1]; try (rewrite ?Hl0; simpl; lia).
      unfold bind at 1. unfold try_except at 1. unfold bind at 1. rewrite E1.
      assert (Hh : firstn (Z.to_nat 4) (buf s0) = be32 (blen p)).
      { simpl buf. rewrite firstn_firstn. replace (Nat.min (Z.to_nat 4) k) with 4%nat by lia.
        reflexivity. }
      rewrite Hh.
      unfold struct_unpack_I at 1. rewrite be32_length. simpl Nat.eqb. cbv iota.
      unfold ret at 1. unfold bind at 1. unfold ret at 1. unfold bind at 1. unfold ret at 1.
      rewrite un_be32_be32 by (unfold blen in *; lia).
      set (s1 := mkSock (skipn (Z.to_nat 4) (buf s0)) cs1 (fin s0) (out s0) (send_err s0)).
      assert (Hl1 : length (buf s1) = (k - 4)%nat).
      { unfold s1, s0. cbn [buf]. rewrite skipn_length, firstn_length, frame_length. lia. }
      destruct (recv_exact_short fuel (blen p) s1) as [s' E2];
        try (rewrite Hl1; unfold blen; lia).
      unfold bind at 1. unfold try_except at 1. unfold bind at 1. rewrite E2.
      simpl fin.
      destruct (eof_exn_caught f [CBrokenPipe; CConnReset; CConnAborted; COSError] Hfin eq_refl) as [He|He].
      + rewrite He. simpl. exists s'. reflexivity.
      + rewrite He. exists s'. reflexivity.
    - (* header short *)
      destruct (recv_exact_short fuel 4 s0) as [s' E1]; try (rewrite Hl0; simpl; lia).
      unfold bind at 1. unfold try_except at 1. unfold bind at 1. rewrite E1.
      simpl fin.
      destruct (eof_exn_caught f [CBrokenPipe; CStructError; CConnReset; CConnAborted; COSError] Hfin eq_refl) as [He|He].
      + rewrite He. simpl. exists s'. reflexivity.
      + rewrite He. exists s'. reflexivity.
  Qed.

  (* ---------- never spins, whatever the bytes are ---------- *)
  Lemma recv_msg_no_spin fuel s :
    (length (buf s) < fuel)%nat -> fst (recv_msg fuel s) <> OutOfFuel.
  Proof.
    intros Hf. unfold py_recv_msg.
    unfold bind at 1. unfold try_except at 1. unfold bind at 1.
    pose proof (recv_exact_no_spin fuel 4 s Hf) as N1.
    destruct (py_recv_exact_h fuel 4 s) as [[h|e|] s1] eqn:E1; [| |now elim N1].
    2:{ destruct (catches _ e); simpl; discriminate. }
    assert (Hs1 : (length (buf s1) <= length (buf s))%nat).
    { destruct (Z_le_gt_dec 0 4) as [H0|]; [|lia].
      destruct (le_lt_dec (Z.to_nat 4) (length (buf s))) as [Hl|Hl].
      - destruct (recv_exact_ok fuel 4 s H0 Hl) as [cs E]; [simpl in *; lia|].
        rewrite E in E1. apply (f_equal snd) in E1. cbn [snd] in E1. rewrite <- E1. cbn [buf]. rewrite skipn_length. lia.
      - destruct (recv_exact_short fuel 4 s Hl Hf) as [s' E]. rewrite E in E1. discriminate. }
    unfold struct_unpack_I at 1.
    destruct (Nat.eqb (length h) 4); unfold ret at 1, raise at 1.
    2:{ simpl. discriminate. }
    unfold bind at 1. unfold ret at 1. unfold bind at 1. unfold ret at 1.
    unfold bind at 1. unfold try_except at 1. unfold bind at 1.
    pose proof (recv_exact_no_spin fuel (un_be32 h) s1 ltac:(lia)) as N2.
    destruct (py_recv_exact_h fuel (un_be32 h) s1) as [[d|e|] s2] eqn:E2; [| |now elim N2].
    - simpl. discriminate.
    - destruct (catches _ e); simpl; discriminate.
  Qed.

  (* ---------- sequences of messages ---------- *)
  Fixpoint recv_many (fuel : nat) (k : nat) : @M sock (list Msg) :=
    match k with
    | O => ret []
    | S k' => (m <- recv_msg fuel ;; ms <- recv_many fuel k' ;; ret (m :: ms))%pym
    end.

  Definition stream (ps : list bytes) : bytes := concat (map frame ps).

  Lemma recv_many_stream fuel : forall ps rest cs f o se,
    Forall (fun p => blen p < 4294967296) ps ->
    (length (stream ps) < fuel)%nat ->
    exists cs',
      recv_many fuel (length ps) (mkSock (stream ps ++ rest) cs f o se) =
      (Ret (map dec ps), mkSock rest cs' f o se).
  Proof.
    induction ps as [|p ps IH]; intros rest cs f o se Hall Hf.
    - exists cs. reflexivity.
    - inversion Hall as [|? ? Hp Hps]; subst.
      change (stream (p :: ps)) with (frame p ++ stream ps) in *. rewrite app_length in Hf.
      rewrite <- app_assoc.
      destruct (recv_msg_frame fuel p (stream ps ++ rest) cs f o se Hp) as [cs1 E1]; [lia|].
      destruct (IH rest cs1 f o se Hps) as [cs2 E2]; [lia|].
      exists cs2. cbn [recv_many length]. unfold bind at 1. rewrite E1.
      unfold bind at 1. rewrite E2. reflexivity.
  Qed.

  (* ---------- the sender ---------- *)
  Lemma send_msg_out fuel m s :
    blen (enc m) < 4294967296 -> send_err s = None ->
    send_msg fuel m s =
      (Ret tt, mkSock (buf s) (cuts s) (fin s) (out s ++ frame (enc m)) (send_err s)).
  Proof.
    intros Hm Hs. unfold py_send_msg.
    unfold bind at 1, ret at 1. unfold struct_pack_I.
    assert ((0 <=? blen (enc m)) && (blen (enc m) <? 4294967296) = true) as -> by (unfold blen in *; lia).
    unfold bind at 1, ret at 1. unfold bind at 1, ret at 1.
    unfold bind at 1. unfold try_except at 1. unfold bind at 1. unfold sock_sendall at 1.
    rewrite Hs. reflexivity.
  Qed.

  Lemma send_msg_failure fuel m s e :
    blen (enc m) < 4294967296 -> send_err s = Some e -> oserr e = true ->
    send_msg fuel m s = (Raise EConnClosed, s).
  Proof.
    intros Hm Hs He. unfold py_send_msg.
    unfold bind at 1, ret at 1. unfold struct_pack_I.
    assert ((0 <=? blen (enc m)) && (blen (enc m) <? 4294967296) = true) as -> by (unfold blen in *; lia).
    unfold bind at 1, ret at 1. unfold bind at 1, ret at 1.
    unfold bind at 1. unfold try_except at 1. unfold bind at 1. unfold sock_sendall at 1.
    rewrite Hs.
    assert (catches [CBrokenPipe; CConnReset; CConnAborted; COSError] e = true) as ->.
    { unfold catches. cbn [existsb]. unfold oserr in He. rewrite He. now rewrite !orb_true_r. }
    reflexivity.
  Qed.

  Fixpoint send_many (fuel : nat) (ms : list Msg) : @M sock unit :=
    match ms with
    | [] => ret tt
    | m :: ms' => (_ <- send_msg fuel m ;; send_many fuel ms')%pym
    end.

  Lemma send_many_out fuel : forall ms s,
    Forall (fun m => blen (enc m) < 4294967296) ms -> send_err s = None ->
    send_many fuel ms s =
      (Ret tt, mkSock (buf s) (cuts s) (fin s) (out s ++ stream (map enc ms)) (send_err s)).
  Proof.
    induction ms as [|m ms IH]; intros s Hall Hs.
    - simpl. unfold ret, stream. simpl. rewrite app_nil_r. destruct s; reflexivity.
    - inversion Hall as [|? ? Hm Hms]; subst. simpl send_many. unfold bind at 1.
      rewrite (send_msg_out fuel m s Hm Hs). rewrite IH by assumption. cbn [buf cuts fin out send_err].
      change (stream (map enc (m :: ms))) with (frame (enc m) ++ stream (map enc ms)).
      now rewrite app_assoc.
  Qed.
End WithCodec.
