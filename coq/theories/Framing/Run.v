(* Executable entry points used by the correspondence check (harness/props/c10.py):
   they run the GENERATED code on scripted sockets and compare with what the
   implementation did on the same script. *)
From PW Require Import Base.PyM Framing.Sock Gen.Framing.
Open Scope Z_scope.

(* run-length coded byte strings, so that large payloads stay small in cases files *)
Inductive seg := L (l : list Z) | R (n : Z) (b : Z).
Definition expand1 (s : seg) : bytes :=
  match s with L l => l | R n b => repeat b (Z.to_nat n) end.
Definition expand (ss : list seg) : bytes := concat (map expand1 ss).

Definition frame_of (ss : list seg) : bytes := let d := expand ss in be32 (blen d) ++ d.

(* what one observes from a sequence of recv_msg calls *)
Inductive obs := OMsg (i : nat) | OWrong | OExn (e : exn) | OSpin.

Definition obs_eqb (a b : obs) : bool :=
  match a, b with
  | OMsg i, OMsg j => Nat.eqb i j
  | OWrong, OWrong => true
  | OExn e, OExn e' => exn_eqb e e'
  | OSpin, OSpin => true
  | _, _ => false
  end.

Fixpoint list_eqb {A} (eq : A -> A -> bool) (a b : list A) : bool :=
  match a, b with
  | [], [] => true
  | x :: a', y :: b' => eq x y && list_eqb eq a' b'
  | _, _ => false
  end.

Definition bytes_eqb := list_eqb Z.eqb.

Definition recv_one fuel (s : sock) := py_recv_msg bytes (fun b => b) fuel s.

(* k reads; stops at the first exception, exactly like the harness does *)
Fixpoint recv_obs (fuel : nat) (k : nat) (i : nat) (payloads : list bytes) (s : sock) : list obs :=
  match k with
  | O => []
  | S k' =>
      match recv_one fuel s with
      | (Ret d, s') =>
          (if bytes_eqb d (nth i payloads [(-1)]) then OMsg i else OWrong)
            :: recv_obs fuel k' (S i) payloads s'
      | (Raise e, _) => [OExn e]
      | (OutOfFuel, _) => [OSpin]
      end
  end.

(* payloads, segmentation, truncation (None = whole stream), end of stream *)
Definition run_recv (pl : list (list seg)) (cs : list nat) (trunc : option nat) (f : option exn)
  : list obs :=
  let ps := map expand pl in
  let st := concat (map (fun d => be32 (blen d) ++ d) ps) in
  let st := match trunc with None => st | Some k => firstn k st end in
  recv_obs (S (S (length st))) (S (length ps)) 0 ps (sock_of st cs f).

Definition check_recv pl cs trunc f (expected : list obs) : bool :=
  list_eqb obs_eqb (run_recv pl cs trunc f) expected.

(* all compositions of n as cut lists: c_i = part_i - 1 *)
Fixpoint compositions (n : nat) : list (list nat) :=
  match n with
  | O => [[]]
  | S n' =>
      match n' with
      | O => [[0%nat]]
      | S _ =>
          let r := compositions n' in
          map (fun c => 0%nat :: c) r ++
          map (fun c => match c with [] => [] | x :: t => S x :: t end) r
      end
  end.

Definition check_all_segmentations (pl : list (list seg)) (expected : list obs) : bool :=
  let ps := map expand pl in
  let st := concat (map (fun d => be32 (blen d) ++ d) ps) in
  forallb (fun cs => list_eqb obs_eqb (run_recv pl cs None None) expected)
          (compositions (length st)).

(* the sender: messages (already pickled, as segs) written to a socket *)
Fixpoint send_obs (ms : list bytes) (s : sock) : (option exn) * bytes :=
  match ms with
  | [] => (None, out s)
  | m :: r =>
      match py_send_msg bytes (fun b => b) 0 m s with
      | (Ret _, s') => send_obs r s'
      | (Raise e, s') => (Some e, out s')
      | (OutOfFuel, s') => (Some (EOther 99), out s')
      end
  end.

Definition check_send (pl : list (list seg)) (err : option exn) (exp_exn : option exn) (exp_out : list seg) : bool :=
  let '(e, o) := send_obs (map expand pl) (mkSock [] [] None [] err) in
  match e, exp_exn with
  | None, None => bytes_eqb o (expand exp_out)
  | Some a, Some b => exn_eqb a b && bytes_eqb o (expand exp_out)
  | _, _ => false
  end.
