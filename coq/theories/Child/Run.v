From PW Require Import Child.Sem Gen.Skel Child.Runs.
Definition check_obs (k : kind) (pers : bool) (t : target) (rb : bool) (plan : list (nat * action)) (expected : obs) : bool :=
  obs_eqb (observe k rb (run k pers t plan)) expected.

(* landing points given relative to the start point of the kind (the first boundary after the child announced itself) *)
Definition check_obs_rel (k : kind) (pers : bool) (t : target) (rb : bool) (plan : list (nat * action)) (expected : obs) : bool :=
  obs_eqb (observe k rb (run k pers t (map (fun x => (start_point k + fst x, snd x)) plan))) expected.
