From PW Require Import Child.Sem Gen.Skel Child.Runs.
Definition check_obs (k : kind) (pers : bool) (t : target) (rb : bool) (plan : list (nat * action)) (expected : obs) : bool :=
  obs_eqb (observe k rb (run k pers t plan)) expected.
