(* The two-event finite-domain theorem of C01 for the REMOTE kind: the generated skeleton of
   RemoteWorker._run_backend (and PersistentRemoteWorker._cleanup), every pair of asynchronous events at every
   statement boundary, decoded the way RemoteWorker._fetch_results does.  Recomputed on every run. *)
From PW Require Import Child.Sem Gen.Skel Child.Runs Child.Proofs Child.ProofsRemoteA Child.ProofsRemoteB.

Theorem c01_remote_every_landing pers t rb p1 a1 p2 a2 :
  a1 <> ATerm -> a2 <> ATerm -> p1 < BOUND_R -> p2 < BOUND_R ->
  shape_ok t (obs_of (KRemote, pers, t, rb, (p1, a1), (p2, a2))) /\ steps_of (KRemote, pers, t, rb, (p1, a1), (p2, a2)) < BOUND_R.
Proof.
  intros Ha1 Ha2 H1 H2. apply c01_check_sound.
  destruct pers.
  - exact (proj1 (forallb_forall _ _) c01_remote_true _
             (in_cases_of_p [KRemote] [true] BOUND_R KRemote true t rb p1 a1 p2 a2 (or_introl eq_refl) (or_introl eq_refl) Ha1 Ha2 H1 H2)).
  - exact (proj1 (forallb_forall _ _) c01_remote_false _
             (in_cases_of_p [KRemote] [false] BOUND_R KRemote false t rb p1 a1 p2 a2 (or_introl eq_refl) (or_introl eq_refl) Ha1 Ha2 H1 H2)).
Qed.

(* what the fix of the BaseException ending repaired: without the `if result is None` repair the backend sends None *)
Definition strip_fix (p : stm) : stm :=
  match p with
  | Seq l => Seq (map (fun x => match x with
                                | Try b hs (Seq (c :: IfC CVarNone _ _ :: r)) => Try b hs (Seq (c :: r))
                                | y => y end) l)
  | y => y
  end.

Lemma remote_base_exception_needs_the_repair :
  observe KRemote true (exec TRaiseBase 300 (strip_fix sk_remote_backend) (init_cs [] None)) = OUndef
  /\ observe KRemote true (run KRemote false TRaiseBase []) = OErr None.
Proof. split; vm_compute; reflexivity. Qed.
