(* Half of the two-event finite-domain computation for the REMOTE kind (persistent = true); see Child/ProofsRemote.v *)
From PW Require Import Child.Sem Gen.Skel Child.Runs Child.Proofs.

Lemma c01_remote_true : forallb (c01_check BOUND_R) (cases_of_p [KRemote] [true] BOUND_R) = true.
Proof. vm_compute. reflexivity. Qed.
