(* Syntax of the control skeletons emitted by tools/py2coq/gen_skel.py. *)
From Coq Require Export List Bool Arith Lia.
Export ListNotations.

Inductive eff :=
| Nop | Log | StartupDone | InitChild | SetResOk | SetResErr | Cleanup
| SendInfo | SendResOk | SendResErr | StartCtrl | ReleaseCtrl | JoinCtrl | CloseComms
| PutEnd | CloseResults | CloseArgs | SetCleaned | Return
(* remote backend (RemoteWorker._run_backend): the local variable `result`, the data socket to the parent *)
| VarNone | VarOk | VarErr | VarErrNone | RecvSync | SockSendVar | SockSendState | SockShut | SockClose | PutEndSock.

Inductive cnd := CSetNames | CCtrlAliveNotTerm | CCleaned | CHasClose
  | CFalse | CTrue | CCtrlAlive | CVarNone.
Inductive xcls := XException | XBaseException | XConnClosed.

Inductive stm :=
| Eff (e : eff)
| CallTarget                                   (* self.do_work(): the user's target *)
| Seq (l : list stm)
| Try (body : stm) (handlers : list (list xcls * stm)) (fin : stm)
| IfC (c : cnd) (a b : stm).
