(* Syntax of the control skeletons emitted by tools/py2coq/gen_skel.py. *)
From Coq Require Export List Bool Arith Lia.
Export ListNotations.

Inductive eff :=
| Nop | Log | StartupDone | InitChild | SetResOk | SetResErr | Cleanup
| SendInfo | SendResOk | SendResErr | StartCtrl | ReleaseCtrl | JoinCtrl | CloseComms
| PutEnd | CloseResults | CloseArgs | SetCleaned | Return.

Inductive cnd := CSetNames | CCtrlAliveNotTerm | CCleaned | CHasClose.
Inductive xcls := XException | XBaseException.

Inductive stm :=
| Eff (e : eff)
| CallTarget                                   (* self.do_work(): the user's target *)
| Seq (l : list stm)
| Try (body : stm) (handlers : list (list xcls * stm)) (fin : stm)
| IfC (c : cnd) (a b : stm).
