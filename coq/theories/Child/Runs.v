(* Runs of the generated skeletons and the enumerations used by the finite-domain theorems. *)
From PW Require Import Child.Sem Gen.Skel.

Definition prog (k : kind) : stm := match k with KThread => sk_thread_run | KProcess => sk_process_run end.
Definition pcleanup (k : kind) (persistent : bool) : option stm :=
  if persistent then Some (match k with KThread => sk_pthread_cleanup | KProcess => sk_pprocess_cleanup end) else None.

Definition run (k : kind) (persistent : bool) (t : target) (injs : list (nat * action)) : completion * cs :=
  exec t 200 (prog k) (init_cs injs (pcleanup k persistent)).

(* number of statement boundaries passed before the effect [x] of the straight-line prefix is executed *)
Definition is_marker (e x : eff) : bool :=
  match e, x with StartupDone, StartupDone | SendInfo, SendInfo => true | _, _ => false end.

Fixpoint count_flat (x : eff) (l : list stm) (n : nat) : nat :=
  match l with
  | [] => n
  | Eff e :: r => if is_marker e x then S n else count_flat x r (S n)
  | IfC _ (Seq a) _ :: r => count_flat x r (S n + length a)
  | _ :: r => count_flat x r (S n)
  end.

Fixpoint count_until (x : eff) (l : list stm) (n : nat) : nat :=
  match l with
  | [] => n
  | Eff e :: r => if is_marker e x then S n else count_until x r (S n)
  | IfC _ (Seq a) _ :: r => count_until x r (S n + length a)
  | Try (Seq b) _ _ :: _ => count_flat x b (S n)
  | _ :: r => count_until x r (S n)
  end.

(* first landing point after construction is complete: after _startup_sync.set() / after the runtime info was sent *)
Definition start_point (k : kind) : nat :=
  match prog k with
  | Seq l => count_until (match k with KThread => StartupDone | KProcess => SendInfo end) l 0
  | _ => 0
  end.

Definition obs_eqb (a b : obs) : bool :=
  match a, b with
  | OOk, OOk | OUndef, OUndef | ORaises, ORaises | OAlive, OAlive => true
  | OErr None, OErr None => true
  | OErr (Some EOwn), OErr (Some EOwn) | OErr (Some EBaseOwn), OErr (Some EBaseOwn) | OErr (Some EWTE), OErr (Some EWTE) => true
  | _, _ => false
  end.

(* the target's own outcome as the parent should see it *)
Definition own (k : kind) (t : target) : obs :=
  match t with
  | TReturn => OOk
  | TRaise => OErr (Some EOwn)
  | TRaiseBase => match k with KThread => OErr (Some EBaseOwn) | KProcess => OErr None end
  | TLoop => OAlive
  end.

Definition kinds := [KThread; KProcess].
Definition targets := [TReturn; TRaise; TRaiseBase; TLoop].
Definition actions := [AWTE; AKill; AKillMidSend].
Definition bools := [true; false].
