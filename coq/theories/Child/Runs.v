(* Runs of the generated skeletons and the enumerations used by the finite-domain theorems. *)
From PW Require Import Child.Sem Gen.Skel.

Definition prog (k : kind) : stm := match k with KThread => sk_thread_run | KProcess => sk_process_run | KRemote => sk_remote_backend end.
Definition pcleanup (k : kind) (persistent : bool) : option stm :=
  if persistent then Some (match k with KThread => sk_pthread_cleanup | KProcess => sk_pprocess_cleanup | KRemote => sk_premote_cleanup end) else None.

Definition run (k : kind) (persistent : bool) (t : target) (injs : list (nat * action)) : completion * cs :=
  exec t 300 (prog k) (init_cs injs (pcleanup k persistent)).

(* first landing point after construction is complete: the number of statement boundaries passed when the child has
   announced itself (_startup_sync.set() / the runtime info sent) - recorded by the semantics itself (ghost field [mark]) *)
Definition start_point (k : kind) : nat :=
  match mark (snd (run k false TReturn [])) with Some m => m | None => 0 end.

Definition obs_eqb (a b : obs) : bool :=
  match a, b with
  | OOk, OOk | OUndef, OUndef | ORaises, ORaises | OAlive, OAlive => true
  | OErr None, OErr None => true
  | OErr (Some EOwn), OErr (Some EOwn) | OErr (Some EBaseOwn), OErr (Some EBaseOwn) | OErr (Some EWTE), OErr (Some EWTE)
  | OErr (Some EOther), OErr (Some EOther) => true
  | _, _ => false
  end.

(* the target's own outcome as the parent should see it *)
Definition own (k : kind) (t : target) : obs :=
  match t with
  | TReturn => OOk
  | TRaise => OErr (Some EOwn)
  | TRaiseBase => match k with KThread => OErr (Some EBaseOwn) | KProcess | KRemote => OErr None end
  | TLoop => OAlive
  end.

Definition kinds := [KThread; KProcess].        (* the kinds of the two-event theorem; KRemote has its own (Child/ProofsRemote.v) *)
Definition kinds3 := [KThread; KProcess; KRemote].
Definition targets := [TReturn; TRaise; TRaiseBase; TLoop].
(* the raw events; a graceful terminate request (ATerm) is an AWTE at the same boundary or nothing at all *)
Definition actions := [AWTE; AKill; AKillMidSend].
Definition bools := [true; false].
