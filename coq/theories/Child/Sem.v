(* M2 - semantics of the child run skeletons under asynchronous exceptions and kills
   landing at any statement boundary, and the parent-side decoding of what the child
   left behind.  The skeletons themselves are GENERATED (Gen/Skel.v). *)
From PW Require Export Child.Skel.

Inductive exc := EOwn | EBaseOwn | EWTE.     (* target's Exception / target's BaseException / WorkerTerminatedError *)

Definition catches1 (c : xcls) (e : exc) : bool :=
  match c, e with
  | XBaseException, _ => true
  | XException, (EOwn | EWTE) => true
  | XException, EBaseOwn => false
  end.
Definition catches (cs : list xcls) (e : exc) : bool := existsb (fun c => catches1 c e) cs.

(* what the user's target does when left alone *)
Inductive target := TReturn | TRaise | TRaiseBase | TLoop.   (* TLoop: interruptible Python loop that lets exceptions propagate *)

Inductive action := AWTE | AKill | AKillMidSend.

(* messages on the process worker's result pipe (_comms) *)
Inductive cmsg := MInfo | MRes (ok : bool) (e : option exc) | MPartial.

Record cs := mkCs {
  step : nat;                        (* dynamic count of statement boundaries passed *)
  inj : list (nat * action);         (* what lands where *)
  result_var : option (bool * option exc);   (* thread kind: self._result *)
  comms : list cmsg;
  comms_closed : bool;
  rpipe_end : nat;                   (* persistent kinds: end markers written *)
  rpipe_closed : bool;
  cleaned : bool;
  ctrl_alive : bool; term_req : bool;
  cur_exc : option exc;              (* `e` bound by the handler *)
  cleanup_ran : bool;
  persistent_cleanup : option stm    (* body of _cleanup for persistent kinds *)
}.

Inductive completion := Normal | Raising (e : exc) | Killed | Returned | Hang.

Definition lookup (p : nat) (l : list (nat * action)) : option action :=
  match find (fun x => Nat.eqb (fst x) p) l with Some x => Some (snd x) | None => None end.

Definition tick (s : cs) : cs :=
  mkCs (S (step s)) (inj s) (result_var s) (comms s) (comms_closed s) (rpipe_end s) (rpipe_closed s) (cleaned s)
       (ctrl_alive s) (term_req s) (cur_exc s) (cleanup_ran s) (persistent_cleanup s).

Definition with_comms (s : cs) (m : cmsg) : cs :=
  mkCs (step s) (inj s) (result_var s) (comms s ++ [m]) (comms_closed s) (rpipe_end s) (rpipe_closed s) (cleaned s)
       (ctrl_alive s) (term_req s) (cur_exc s) (cleanup_ran s) (persistent_cleanup s).

Definition set_result (s : cs) (r : bool * option exc) : cs :=
  mkCs (step s) (inj s) (Some r) (comms s) (comms_closed s) (rpipe_end s) (rpipe_closed s) (cleaned s)
       (ctrl_alive s) (term_req s) (cur_exc s) (cleanup_ran s) (persistent_cleanup s).

Definition set_exc (s : cs) (e : option exc) : cs :=
  mkCs (step s) (inj s) (result_var s) (comms s) (comms_closed s) (rpipe_end s) (rpipe_closed s) (cleaned s)
       (ctrl_alive s) (term_req s) e (cleanup_ran s) (persistent_cleanup s).

Definition is_send (e : eff) : bool := match e with SendInfo | SendResOk | SendResErr => true | _ => false end.

Definition send_msg_of (e : eff) (s : cs) : cmsg :=
  match e with
  | SendInfo => MInfo
  | SendResOk => MRes true None
  | SendResErr => MRes false (cur_exc s)
  | _ => MInfo
  end.

Definition eval_cnd (c : cnd) (s : cs) : bool :=
  match c with
  | CSetNames => true
  | CCtrlAliveNotTerm => ctrl_alive s && negb (term_req s)
  | CCleaned => cleaned s
  | CHasClose => true
  end.

Section Exec.
  Variable tgt : target.

  (* the effect of one simple statement (no landing here) *)
  Definition do_eff (e : eff) (s : cs) : cs :=
    match e with
    | SetResOk => set_result s (true, None)
    | SetResErr => set_result s (false, cur_exc s)
    | SendInfo | SendResOk | SendResErr => with_comms s (send_msg_of e s)
    | CloseComms => mkCs (step s) (inj s) (result_var s) (comms s) true (rpipe_end s) (rpipe_closed s) (cleaned s)
                         (ctrl_alive s) (term_req s) (cur_exc s) (cleanup_ran s) (persistent_cleanup s)
    | PutEnd => mkCs (step s) (inj s) (result_var s) (comms s) (comms_closed s) (S (rpipe_end s)) (rpipe_closed s) (cleaned s)
                     (ctrl_alive s) (term_req s) (cur_exc s) (cleanup_ran s) (persistent_cleanup s)
    | CloseResults => mkCs (step s) (inj s) (result_var s) (comms s) (comms_closed s) (rpipe_end s) true (cleaned s)
                           (ctrl_alive s) (term_req s) (cur_exc s) (cleanup_ran s) (persistent_cleanup s)
    | SetCleaned => mkCs (step s) (inj s) (result_var s) (comms s) (comms_closed s) (rpipe_end s) (rpipe_closed s) true
                         (ctrl_alive s) (term_req s) (cur_exc s) (cleanup_ran s) (persistent_cleanup s)
    | StartCtrl => mkCs (step s) (inj s) (result_var s) (comms s) (comms_closed s) (rpipe_end s) (rpipe_closed s) (cleaned s)
                        true (term_req s) (cur_exc s) (cleanup_ran s) (persistent_cleanup s)
    | JoinCtrl | ReleaseCtrl =>
        mkCs (step s) (inj s) (result_var s) (comms s) (comms_closed s) (rpipe_end s) (rpipe_closed s) (cleaned s)
             (match e with JoinCtrl => false | _ => ctrl_alive s end) (term_req s) (cur_exc s) (cleanup_ran s) (persistent_cleanup s)
    | _ => s
    end.

  (* an asynchronous WorkerTerminatedError is injected by the control thread, which sets _terminate_req first *)
  Definition note_term (s : cs) : cs :=
    mkCs (step s) (inj s) (result_var s) (comms s) (comms_closed s) (rpipe_end s) (rpipe_closed s) (cleaned s)
         (ctrl_alive s) true (cur_exc s) (cleanup_ran s) (persistent_cleanup s).

  Fixpoint exec (fuel : nat) (p : stm) (s : cs) : completion * cs :=
    match fuel with
    | O => (Hang, s)
    | S fuel' =>
      match p with
      | Eff e =>
          match lookup (step s) (inj s) with
          | Some AWTE => (Raising EWTE, note_term (tick s))
          | Some AKill => (Killed, s)
          | Some AKillMidSend =>
              if is_send e then (Killed, with_comms s MPartial) else (Killed, s)
          | None =>
              match e with
              | Return => (Returned, tick s)
              | Cleanup =>
                  match persistent_cleanup s with
                  | Some body =>
                      let s1 := tick s in
                      match exec fuel' body s1 with
                      | (Returned, s2) => (Normal, s2)
                      | (c, s2) =>
                          (c, match c with
                              | Normal => mkCs (step s2) (inj s2) (result_var s2) (comms s2) (comms_closed s2) (rpipe_end s2)
                                               (rpipe_closed s2) (cleaned s2) (ctrl_alive s2) (term_req s2) (cur_exc s2) true (persistent_cleanup s2)
                              | _ => s2 end)
                      end
                  | None =>
                      let s1 := tick s in
                      (Normal, mkCs (step s1) (inj s1) (result_var s1) (comms s1) (comms_closed s1) (rpipe_end s1) (rpipe_closed s1)
                                    (cleaned s1) (ctrl_alive s1) (term_req s1) (cur_exc s1) true (persistent_cleanup s1))
                  end
              | _ => (Normal, do_eff e (tick s))
              end
          end
      | CallTarget =>
          match lookup (step s) (inj s) with
          | Some AWTE => (Raising EWTE, note_term (tick s))       (* lands at the call or inside the target *)
          | Some (AKill | AKillMidSend) => (Killed, s)
          | None =>
              match tgt with
              | TReturn => (Normal, tick s)
              | TRaise => (Raising EOwn, tick s)
              | TRaiseBase => (Raising EBaseOwn, tick s)
              | TLoop => (Hang, s)
              end
          end
      | Seq l =>
          (fix go (l : list stm) (s : cs) : completion * cs :=
             match l with
             | [] => (Normal, s)
             | x :: r => match exec fuel' x s with
                         | (Normal, s') => go r s'
                         | other => other
                         end
             end) l s
      | IfC c a b =>
          match lookup (step s) (inj s) with
          | Some AWTE => (Raising EWTE, note_term (tick s))
          | Some (AKill | AKillMidSend) => (Killed, s)
          | None => let s1 := tick s in if eval_cnd c s1 then exec fuel' a s1 else exec fuel' b s1
          end
      | Try body hs fin =>
          (* the `try:` line is itself a statement boundary, not yet protected by the handlers *)
          match lookup (step s) (inj s) with
          | Some AWTE => (Raising EWTE, note_term (tick s))
          | Some (AKill | AKillMidSend) => (Killed, s)
          | None =>
          let '(c1, s1) := exec fuel' body (tick s) in
          let '(c2, s2) :=
            match c1 with
            | Raising e =>
                match find (fun h => catches (fst h) e) hs with
                | Some h =>
                    (* the `except ...:` line: a boundary inside the handler, before its first statement *)
                    match lookup (step s1) (inj s1) with
                    | Some AWTE => (Raising EWTE, note_term (tick s1))
                    | Some (AKill | AKillMidSend) => (Killed, s1)
                    | None => exec fuel' (snd h) (set_exc (tick s1) (Some e))
                    end
                | None => (c1, s1)
                end
            | _ => (c1, s1)
            end in
          match c2 with
          | Killed | Hang => (c2, s2)
          | _ =>
              match exec fuel' fin s2 with
              | (Normal, s3) => (c2, s3)
              | other => other
              end
          end
          end
      end
    end.
End Exec.

(* ---------- kinds, runs, and what the parent observes ---------- *)
Inductive kind := KThread | KProcess.

Definition init_cs (inj_ : list (nat * action)) (pc : option stm) : cs :=
  mkCs 0 inj_ None [] false 0 false false false false None false pc.

Inductive obs :=
| OOk                      (* has_error False, result = the target's value *)
| OErr (e : option exc)    (* has_error True, error = e (None: nothing could be reported) *)
| OUndef                   (* has_error is None although the worker is dead *)
| ORaises                  (* the accessor itself raises *)
| OAlive.                  (* the child never dies: not an observation of a dead worker *)

(* [rebuild]: can the parent rebuild (unpickle) the payload of a result message *)
Definition decode_process (rebuild : bool) (l : list cmsg) : obs :=
  (* ProcessWorker._get_result: keep the last message that could be received; stop at the first failure *)
  let fix go (l : list cmsg) (last : option cmsg) : option cmsg :=
    match l with
    | [] => last
    | MPartial :: _ => last
    | MRes ok e :: r => if rebuild then go r (Some (MRes ok e)) else last
    | MInfo :: r => go r last
    end in
  match go l None with
  | Some (MRes true _) => OOk
  | Some (MRes false e) => OErr e
  | _ => OErr None
  end.

Definition observe (k : kind) (rebuild : bool) (r : completion * cs) : obs :=
  match fst r with
  | Hang => OAlive
  | _ =>
      match k with
      | KThread => match result_var (snd r) with
                   | Some (true, _) => OOk
                   | Some (false, e) => OErr e
                   | None => OErr None      (* ThreadWorker._get_result falls back to (False, None) once the child is dead *)
                   end
      | KProcess => decode_process rebuild (comms (snd r))
      end
  end.
