(* M2 - semantics of the child run skeletons under asynchronous exceptions and kills
   landing at any statement boundary, and the parent-side decoding of what the child
   left behind.  The skeletons themselves are GENERATED (Gen/Skel.v). *)
From PW Require Export Child.Skel.

Inductive exc := EOwn | EBaseOwn | EWTE | EOther.
(* target's Exception / target's BaseException / WorkerTerminatedError / an error of the run loop itself (writing to a closed pipe) *)

Definition catches1 (c : xcls) (e : exc) : bool :=
  match c, e with
  | XBaseException, _ => true
  | XException, (EOwn | EWTE | EOther) => true
  | XException, EBaseOwn => false
  | XConnClosed, _ => false            (* ConnectionClosedError: none of the modelled exceptions *)
  end.
Definition catches (cs : list xcls) (e : exc) : bool := existsb (fun c => catches1 c e) cs.

(* what the user's target does when left alone *)
Inductive target := TReturn | TRaise | TRaiseBase | TLoop.   (* TLoop: interruptible Python loop that lets exceptions propagate *)

(* AWTE: an asynchronous WorkerTerminatedError raised at this boundary whatever the child's state;
   ATerm: a graceful terminate REQUEST reaching the child at this boundary - process and remote children are interrupted
   by their own control thread, so the request only turns into an exception while that thread is still there
   (once the child has released and joined it, nobody is left to raise anything: the request finds a child on its way out) *)
Inductive action := AWTE | AKill | AKillMidSend | ATerm.

(* messages on the process worker's result pipe (_comms); for the remote kind also what the backend writes to the
   data socket: MNone = the value None sent as the result, MRaw = a bare return value (not a pair) sent as the result,
   MState = the user state, MEnd = a persistent worker's end-of-stream marker *)
Inductive cmsg := MInfo | MRes (ok : bool) (e : option exc) | MPartial | MNone | MRaw | MState | MEnd.

(* the remote backend's local variable `result` *)
Inductive rv := RVNone | RVRaw | RVPair (ok : bool) (e : option exc).

Record cs := mkCs {
  step : nat;                        (* dynamic count of statement boundaries passed *)
  inj : list (nat * action);         (* what lands where *)
  result_var : option (bool * option exc);   (* thread kind: self._result *)
  comms : list cmsg;
  comms_closed : bool;
  rpipe_end : nat;                   (* persistent kinds: end markers written *)
  rpipe_closed : bool;
  cleaned : bool;
  ctrl_alive : bool; term_req : bool;
  cur_exc : option exc;              (* `e` bound by the handler *)
  cleanup_ran : bool;
  persistent_cleanup : option stm;   (* body of _cleanup for persistent kinds *)
  rvar : rv;                         (* remote backend: the local variable `result` *)
  mark : option nat                  (* ghost: the boundary count right after the child announced itself (SendInfo / StartupDone) *)
}.

Inductive completion := Normal | Raising (e : exc) | Killed | Returned | Hang.

Definition lookup (p : nat) (l : list (nat * action)) : option action :=
  match find (fun x => Nat.eqb (fst x) p) l with Some x => Some (snd x) | None => None end.

Definition tick (s : cs) : cs :=
  mkCs (S (step s)) (inj s) (result_var s) (comms s) (comms_closed s) (rpipe_end s) (rpipe_closed s) (cleaned s)
       (ctrl_alive s) (term_req s) (cur_exc s) (cleanup_ran s) (persistent_cleanup s) (rvar s) (mark s).

Definition with_comms (s : cs) (m : cmsg) : cs :=
  mkCs (step s) (inj s) (result_var s) (comms s ++ [m]) (comms_closed s) (rpipe_end s) (rpipe_closed s) (cleaned s)
       (ctrl_alive s) (term_req s) (cur_exc s) (cleanup_ran s) (persistent_cleanup s) (rvar s) (mark s).

Definition set_result (s : cs) (r : bool * option exc) : cs :=
  mkCs (step s) (inj s) (Some r) (comms s) (comms_closed s) (rpipe_end s) (rpipe_closed s) (cleaned s)
       (ctrl_alive s) (term_req s) (cur_exc s) (cleanup_ran s) (persistent_cleanup s) (rvar s) (mark s).

Definition set_exc (s : cs) (e : option exc) : cs :=
  mkCs (step s) (inj s) (result_var s) (comms s) (comms_closed s) (rpipe_end s) (rpipe_closed s) (cleaned s)
       (ctrl_alive s) (term_req s) e (cleanup_ran s) (persistent_cleanup s) (rvar s) (mark s).

Definition set_rvar (s : cs) (v : rv) : cs :=
  mkCs (step s) (inj s) (result_var s) (comms s) (comms_closed s) (rpipe_end s) (rpipe_closed s) (cleaned s)
       (ctrl_alive s) (term_req s) (cur_exc s) (cleanup_ran s) (persistent_cleanup s) v (mark s).

Definition set_mark (s : cs) : cs :=
  mkCs (step s) (inj s) (result_var s) (comms s) (comms_closed s) (rpipe_end s) (rpipe_closed s) (cleaned s)
       (ctrl_alive s) (term_req s) (cur_exc s) (cleanup_ran s) (persistent_cleanup s) (rvar s)
       (match mark s with Some m => Some m | None => Some (step s) end).

Definition is_send (e : eff) : bool :=
  match e with SendInfo | SendResOk | SendResErr | SockSendVar | SockSendState | PutEndSock => true | _ => false end.

Definition send_msg_of (e : eff) (s : cs) : cmsg :=
  match e with
  | SendInfo => MInfo
  | SendResOk => MRes true None
  | SendResErr => MRes false (cur_exc s)
  | SockSendVar => match rvar s with RVNone => MNone | RVRaw => MRaw | RVPair ok e => MRes ok e end
  | SockSendState => MState
  | PutEndSock => MEnd
  | _ => MInfo
  end.

Definition eval_cnd (c : cnd) (s : cs) : bool :=
  match c with
  | CSetNames => true
  | CCtrlAliveNotTerm => ctrl_alive s && negb (term_req s)
  | CCleaned => cleaned s
  | CHasClose => true
  | CFalse => false
  | CTrue => true
  | CCtrlAlive => ctrl_alive s && negb (term_req s)     (* a control thread that has delivered a terminate is on its way out *)
  | CVarNone => match rvar s with RVNone => true | _ => false end
  end.

Inductive land := LWTE | LKill | LKillMid | LNone.
Definition landing (s : cs) : land :=
  match lookup (step s) (inj s) with
  | Some ATerm => if ctrl_alive s then LWTE else LNone
  | Some AWTE => LWTE
  | Some AKill => LKill
  | Some AKillMidSend => LKillMid
  | None => LNone
  end.

Section Exec.
  Variable tgt : target.

  (* the effect of one simple statement (no landing here) *)
  Definition do_eff (e : eff) (s : cs) : cs :=
    match e with
    | SetResOk => set_result s (true, None)
    | SetResErr => set_result s (false, cur_exc s)
    | SendInfo => set_mark (with_comms s (send_msg_of e s))
    | StartupDone => set_mark s
    | SendResOk | SendResErr | SockSendVar | SockSendState => with_comms s (send_msg_of e s)
    | PutEndSock => let s' := with_comms s MEnd in
                    mkCs (step s') (inj s') (result_var s') (comms s') (comms_closed s') (S (rpipe_end s')) (rpipe_closed s') (cleaned s')
                         (ctrl_alive s') (term_req s') (cur_exc s') (cleanup_ran s') (persistent_cleanup s') (rvar s') (mark s')
    | VarNone => set_rvar s RVNone
    | VarOk => set_rvar s (RVPair true None)
    | VarErr => set_rvar s (RVPair false (cur_exc s))
    | VarErrNone => set_rvar s (RVPair false None)
    | CloseComms => mkCs (step s) (inj s) (result_var s) (comms s) true (rpipe_end s) (rpipe_closed s) (cleaned s)
                         (ctrl_alive s) (term_req s) (cur_exc s) (cleanup_ran s) (persistent_cleanup s) (rvar s) (mark s)
    | PutEnd => mkCs (step s) (inj s) (result_var s) (comms s) (comms_closed s) (S (rpipe_end s)) (rpipe_closed s) (cleaned s)
                     (ctrl_alive s) (term_req s) (cur_exc s) (cleanup_ran s) (persistent_cleanup s) (rvar s) (mark s)
    | CloseResults => mkCs (step s) (inj s) (result_var s) (comms s) (comms_closed s) (rpipe_end s) true (cleaned s)
                           (ctrl_alive s) (term_req s) (cur_exc s) (cleanup_ran s) (persistent_cleanup s) (rvar s) (mark s)
    | SetCleaned => mkCs (step s) (inj s) (result_var s) (comms s) (comms_closed s) (rpipe_end s) (rpipe_closed s) true
                         (ctrl_alive s) (term_req s) (cur_exc s) (cleanup_ran s) (persistent_cleanup s) (rvar s) (mark s)
    | StartCtrl => mkCs (step s) (inj s) (result_var s) (comms s) (comms_closed s) (rpipe_end s) (rpipe_closed s) (cleaned s)
                        true (term_req s) (cur_exc s) (cleanup_ran s) (persistent_cleanup s) (rvar s) (mark s)
    | JoinCtrl | ReleaseCtrl =>
        mkCs (step s) (inj s) (result_var s) (comms s) (comms_closed s) (rpipe_end s) (rpipe_closed s) (cleaned s)
             false      (* released = told to finish: it can no longer deliver a terminate request either *) (term_req s) (cur_exc s) (cleanup_ran s) (persistent_cleanup s) (rvar s) (mark s)
    | _ => s
    end.

  (* an asynchronous WorkerTerminatedError is injected by the control thread, which sets _terminate_req first *)
  Definition note_term (s : cs) : cs :=
    mkCs (step s) (inj s) (result_var s) (comms s) (comms_closed s) (rpipe_end s) (rpipe_closed s) (cleaned s)
         (ctrl_alive s) true (cur_exc s) (cleanup_ran s) (persistent_cleanup s) (rvar s) (mark s).

  Fixpoint exec (fuel : nat) (p : stm) (s : cs) : completion * cs :=
    match fuel with
    | O => (Hang, s)
    | S fuel' =>
      match p with
      | Eff e =>
          match landing s with
          | LWTE => (Raising EWTE, note_term (tick s))
          | LKill => (Killed, s)
          | LKillMid =>
              if is_send e then (Killed, with_comms s MPartial) else (Killed, s)
          | LNone =>
              match e with
              | Return => (Returned, tick s)
              | Cleanup =>
                  match persistent_cleanup s with
                  | Some body =>
                      let s1 := tick s in
                      match exec fuel' body s1 with
                      | (Returned, s2) => (Normal, s2)
                      | (c, s2) =>
                          (c, match c with
                              | Normal => mkCs (step s2) (inj s2) (result_var s2) (comms s2) (comms_closed s2) (rpipe_end s2)
                                               (rpipe_closed s2) (cleaned s2) (ctrl_alive s2) (term_req s2) (cur_exc s2) true (persistent_cleanup s2) (rvar s2) (mark s2)
                              | _ => s2 end)
                      end
                  | None =>
                      let s1 := tick s in
                      (Normal, mkCs (step s1) (inj s1) (result_var s1) (comms s1) (comms_closed s1) (rpipe_end s1) (rpipe_closed s1)
                                    (cleaned s1) (ctrl_alive s1) (term_req s1) (cur_exc s1) true (persistent_cleanup s1) (rvar s1) (mark s1))
                  end
              | SendInfo => if comms_closed s then (Raising EOther, tick s)      (* the pipe to the server side was closed already *)
                            else (Normal, do_eff e (tick s))
              | _ => (Normal, do_eff e (tick s))
              end
          end
      | CallTarget =>
          match landing s with
          | LWTE => (Raising EWTE, note_term (tick s))       (* lands at the call or inside the target *)
          | (LKill | LKillMid) => (Killed, s)
          | LNone =>
              match tgt with
              | TReturn => (Normal, set_rvar (tick s) RVRaw)
              | TRaise => (Raising EOwn, tick s)
              | TRaiseBase => (Raising EBaseOwn, tick s)
              | TLoop => (Hang, s)
              end
          end
      | Seq l =>
          (fix go (l : list stm) (s : cs) : completion * cs :=
             match l with
             | [] => (Normal, s)
             | x :: r => match exec fuel' x s with
                         | (Normal, s') => go r s'
                         | other => other
                         end
             end) l s
      | IfC c a b =>
          match landing s with
          | LWTE => (Raising EWTE, note_term (tick s))
          | (LKill | LKillMid) => (Killed, s)
          | LNone => let s1 := tick s in if eval_cnd c s1 then exec fuel' a s1 else exec fuel' b s1
          end
      | Try body hs fin =>
          (* the `try:` line is itself a statement boundary, not yet protected by the handlers *)
          match landing s with
          | LWTE => (Raising EWTE, note_term (tick s))
          | (LKill | LKillMid) => (Killed, s)
          | LNone =>
          let '(c1, s1) := exec fuel' body (tick s) in
          let '(c2, s2) :=
            match c1 with
            | Raising e =>
                (* the `except ...:` clauses are tried in order; every clause that is tried is a statement boundary of its
                   own (the match is tested on that line), whether it matches or not; an exception landing there replaces
                   the one in flight and is not caught by this try statement any more *)
                (fix try_handlers (hs : list (list xcls * stm)) (s : cs) : completion * cs :=
                   match hs with
                   | [] => (Raising e, s)
                   | h :: r =>
                       match landing s with
                       | LWTE => (Raising EWTE, note_term (tick s))
                       | (LKill | LKillMid) => (Killed, s)
                       | LNone => if catches (fst h) e then exec fuel' (snd h) (set_exc (tick s) (Some e))
                                  else try_handlers r (tick s)
                       end
                   end) hs s1
            | _ => (c1, s1)
            end in
          match c2 with
          | Killed | Hang => (c2, s2)
          | _ =>
              match exec fuel' fin s2 with
              | (Normal, s3) => (c2, s3)
              | other => other
              end
          end
          end
      end
    end.
End Exec.

(* ---------- kinds, runs, and what the parent observes ---------- *)
Inductive kind := KThread | KProcess | KRemote.

Definition init_cs (inj_ : list (nat * action)) (pc : option stm) : cs :=
  mkCs 0 inj_ None [] false 0 false false false false None false pc RVNone None.

Inductive obs :=
| OOk                      (* has_error False, result = the target's value *)
| OErr (e : option exc)    (* has_error True, error = e (None: nothing could be reported) *)
| OUndef                   (* has_error is None although the worker is dead *)
| ORaises                  (* the accessor itself raises *)
| OAlive.                  (* the child never dies: not an observation of a dead worker *)

(* [rebuild]: can the parent rebuild (unpickle) the payload of a result message *)
Definition decode_process (rebuild : bool) (l : list cmsg) : obs :=
  (* ProcessWorker._get_result: keep the last message that could be received; stop at the first failure *)
  let fix go (l : list cmsg) (last : option cmsg) : option cmsg :=
    match l with
    | [] => last
    | MPartial :: _ => last
    | MRes ok e :: r => if rebuild then go r (Some (MRes ok e)) else last
    | (MInfo | MNone | MRaw | MState | MEnd) :: r => go r last     (* only MInfo occurs on a process worker's pipe *)
    end in
  match go l None with
  | Some (MRes true _) => OOk
  | Some (MRes false e) => OErr e
  | _ => OErr None
  end.

(* RemoteWorker._fetch_results (and the tail of PersistentRemoteWorker._fetch_results): the first data message after the
   stream of partial results is the result; it is followed by the user state.  A result that cannot be received
   (connection closed, truncated, not rebuildable) is (False, None). *)
Fixpoint decode_remote (rebuild : bool) (l : list cmsg) : obs :=
  match l with
  | [] => OErr None
  | (MInfo | MEnd) :: r => decode_remote rebuild r
  | MPartial :: _ => OErr None
  | MRes ok e :: _ => if rebuild then (if ok then OOk else OErr e) else OErr None
  | MNone :: _ => OUndef                     (* the parent stores None as the outcome *)
  | (MRaw | MState) :: _ => ORaises          (* a value that is not an (ok, value) pair: the accessors choke on it *)
  end.

(* has the parent received the child's final user state (remote kinds: the message after the result) *)
Fixpoint remote_state_received (rebuild : bool) (l : list cmsg) : bool :=
  match l with
  | [] => false
  | (MInfo | MEnd) :: r => remote_state_received rebuild r
  | MRes _ _ :: MState :: _ => rebuild
  | _ => false
  end.

Definition observe (k : kind) (rebuild : bool) (r : completion * cs) : obs :=
  match fst r with
  | Hang => OAlive
  | _ =>
      match k with
      | KThread => match result_var (snd r) with
                   | Some (true, _) => OOk
                   | Some (false, e) => OErr e
                   | None => OErr None      (* ThreadWorker._get_result falls back to (False, None) once the child is dead *)
                   end
      | KProcess => decode_process rebuild (comms (snd r))
      | KRemote => decode_remote rebuild (comms (snd r))
      end
  end.
