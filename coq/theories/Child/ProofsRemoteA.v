(* Half of the two-event finite-domain computation for the REMOTE kind (persistent = false); see Child/ProofsRemote.v *)
From PW Require Import Child.Sem Gen.Skel Child.Runs Child.Proofs.

Lemma c01_remote_false : forallb (c01_check BOUND_R) (cases_of_p [KRemote] [false] BOUND_R) = true.
Proof. vm_compute. reflexivity. Qed.
