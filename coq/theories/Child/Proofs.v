(* Finite-domain theorems about the GENERATED skeletons: every landing point of up to two
   asynchronous events, every target behaviour, every kind.  Recomputed on every run. *)
From PW Require Import Child.Sem Gen.Skel Child.Runs.

Definition BOUND := 40.
Definition BOUND_R := 72.      (* the remote backend's run loop is longer *)
(* how a graceful terminate reaches a child of each kind: a thread is raised in directly by the caller, process and
   remote children by their own control thread (see [ATerm]) *)
Definition term_action (k : kind) : action := match k with KThread => AWTE | _ => ATerm end.

Definition shape_ok (t : target) (o : obs) : Prop :=
  match o with
  | OOk => t = TReturn
  | OErr (Some EOwn) => t = TRaise
  | OErr (Some EBaseOwn) => t = TRaiseBase
  | OErr (Some EWTE) | OErr None | OAlive => True
  | OUndef | ORaises | OErr (Some EOther) => False      (* an error of the run loop itself is never what gets reported *)
  end.

Definition target_eqb (a b : target) : bool :=
  match a, b with TReturn, TReturn | TRaise, TRaise | TRaiseBase, TRaiseBase | TLoop, TLoop => true | _, _ => false end.

Definition shape_okb (t : target) (o : obs) : bool :=
  match o with
  | OOk => target_eqb t TReturn
  | OErr (Some EOwn) => target_eqb t TRaise
  | OErr (Some EBaseOwn) => target_eqb t TRaiseBase
  | OErr (Some EWTE) | OErr None | OAlive => true
  | OUndef | ORaises | OErr (Some EOther) => false
  end.

Lemma shape_okb_ok t o : shape_okb t o = true -> shape_ok t o.
Proof. destruct o as [|[[| | |]|]| | |]; simpl; auto; destruct t; simpl; congruence. Qed.

Definition case := (kind * bool * target * bool * (nat * action) * (nat * action))%type.

Definition obs_of (c : case) : obs :=
  let '(k, pers, t, rb, i1, i2) := c in observe k rb (run k pers t [i1; i2]).

Definition steps_of (c : case) : nat :=
  let '(k, pers, t, rb, i1, i2) := c in step (snd (run k pers t [i1; i2])).

Definition injections (B : nat) : list (nat * action) := list_prod (seq 0 B) actions.

Definition cases_of_p (ks : list kind) (ps : list bool) (B : nat) : list case :=
  list_prod (list_prod (list_prod (list_prod (list_prod ks ps) targets) bools) (injections B)) (injections B).
Definition cases_of (ks : list kind) (B : nat) : list case := cases_of_p ks bools B.

Definition all_cases : list case := cases_of kinds BOUND.

Lemma in_kinds k : k <> KRemote -> In k kinds. Proof. destruct k; simpl; auto; congruence. Qed.
Lemma in_kinds3 k : In k kinds3. Proof. destruct k; simpl; auto. Qed.
Lemma in_bools b : In b bools. Proof. destruct b; simpl; auto. Qed.
Lemma in_targets t : In t targets. Proof. destruct t; simpl; auto. Qed.
Lemma in_actions a : a <> ATerm -> In a actions. Proof. destruct a; simpl; auto; congruence. Qed.
Lemma in_injections B p a : a <> ATerm -> p < B -> In (p, a) (injections B).
Proof. intros Ha H. apply in_prod; [apply in_seq; lia|apply in_actions; exact Ha]. Qed.

Lemma in_cases_of_p ks ps B k pers t rb p1 a1 p2 a2 :
  In k ks -> In pers ps -> a1 <> ATerm -> a2 <> ATerm -> p1 < B -> p2 < B -> In (k, pers, t, rb, (p1, a1), (p2, a2)) (cases_of_p ks ps B).
Proof.
  intros Hk Hp Ha1 Ha2 H1 H2. unfold cases_of_p.
  apply in_prod; [apply in_prod; [apply in_prod; [apply in_prod; [apply in_prod;
    [exact Hk|exact Hp]|apply in_targets]|apply in_bools]|apply in_injections; assumption]|apply in_injections; assumption].
Qed.

Lemma in_cases_of ks B k pers t rb p1 a1 p2 a2 :
  In k ks -> a1 <> ATerm -> a2 <> ATerm -> p1 < B -> p2 < B -> In (k, pers, t, rb, (p1, a1), (p2, a2)) (cases_of ks B).
Proof. intros Hk. apply in_cases_of_p; [exact Hk|apply in_bools]. Qed.

Definition tgt_of (c : case) : target := let '(k, pers, t, rb, i1, i2) := c in t.

Definition c01_check (B : nat) (c : case) : bool := shape_okb (tgt_of c) (obs_of c) && (steps_of c <? B).

Lemma c01_all : forallb (c01_check BOUND) all_cases = true.
Proof. vm_compute. reflexivity. Qed.

Lemma c01_check_sound B (c : case) :
  c01_check B c = true -> shape_ok (tgt_of c) (obs_of c) /\ steps_of c < B.
Proof.
  unfold c01_check. intros H. apply andb_prop in H. destruct H as [A C].
  split; [exact (shape_okb_ok _ _ A)|apply Nat.ltb_lt; exact C].
Qed.

Theorem c01_every_landing k pers t rb p1 a1 p2 a2 :
  k <> KRemote -> a1 <> ATerm -> a2 <> ATerm -> p1 < BOUND -> p2 < BOUND ->
  shape_ok t (obs_of (k, pers, t, rb, (p1, a1), (p2, a2))) /\ steps_of (k, pers, t, rb, (p1, a1), (p2, a2)) < BOUND.
Proof.
  intros Hk Ha1 Ha2 H1 H2.
  exact (c01_check_sound BOUND (k, pers, t, rb, (p1, a1), (p2, a2))
           (proj1 (forallb_forall (c01_check BOUND) all_cases) c01_all _ (in_cases_of kinds BOUND k pers t rb p1 a1 p2 a2 (in_kinds k Hk) Ha1 Ha2 H1 H2))).
Qed.

(* ---------- C03: one graceful terminate ---------- *)
Definition c03_check (x : kind * bool * target * nat) : bool :=
  let '(k, pers, t, p) := x in
  if p <? start_point k then true else
  let r := run k pers t [(p, term_action k)] in
  let o := observe k true r in
  match t with
  | TLoop => obs_eqb o (OErr (Some EWTE)) && cleanup_ran (snd r) || obs_eqb o OAlive
  | _ => obs_eqb o (own k t) || obs_eqb o (OErr (Some EWTE))
  end.

Definition c03_cases := list_prod (list_prod (list_prod kinds3 bools) targets) (seq 0 BOUND_R).

Lemma c03_all : forallb c03_check c03_cases = true.
Proof. vm_compute. reflexivity. Qed.

Theorem c03_every_landing k pers t p :
  start_point k <= p < BOUND_R -> c03_check (k, pers, t, p) = true.
Proof.
  intros [H1 H2]. apply (proj1 (forallb_forall c03_check c03_cases) c03_all).
  unfold c03_cases. apply in_prod; [apply in_prod; [apply in_prod; [apply in_kinds3|apply in_bools]|apply in_targets]|apply in_seq; lia].
Qed.

(* the request lands inside the running target: always reported as WorkerTerminatedError, finally blocks ran *)
Definition call_point (k : kind) : nat :=
  match k with KThread => start_point k + 2 | KProcess => start_point k + 1 | KRemote => start_point k + 4 end.

Lemma c03_inside_target k pers :
  let r := run k pers TLoop [(call_point k, term_action k)] in
  observe k true r = OErr (Some EWTE) /\ cleanup_ran (snd r) = true
  /\ observe k true (run k pers TLoop [(S (call_point k), term_action k)]) = OAlive.   (* it is the last point ever reached *)
Proof. destruct k, pers; vm_compute; repeat split; reflexivity. Qed.

(* ---------- C16: the child's user_state travels with every report ---------- *)
(* Both result messages of ProcessWorker._run are `((ok, value), self._user_state)`: the labels
   SendResOk / SendResErr are only given to statements of exactly that shape by the translator.
   The parent takes the state from the message it decodes, after the child's death.
   The remote backend sends the state as a message of its own right after the result (SockSendState). *)
Definition state_synced (k : kind) (rb : bool) (r : completion * cs) : bool :=
  match k with
  | KRemote => remote_state_received rb (comms (snd r))
  | _ => match observe k rb r with OOk | OErr (Some _) => true | _ => false end
  end.

Lemma c16_reporting_endings k pers :
  state_synced k true (run k pers TReturn []) = true
  /\ state_synced k true (run k pers TRaise []) = true
  /\ state_synced k true (run k pers TLoop [(call_point k, term_action k)]) = true.
Proof. destruct k, pers; vm_compute; repeat split; reflexivity. Qed.

Definition is_report (k : kind) (m : cmsg) : bool :=
  match k, m with
  | KRemote, MState => true            (* the state message is complete: the result before it was, too *)
  | KProcess, MRes _ _ => true
  | _, _ => false
  end.

(* a kill never lets a stale or partial state through: without a decoded report the parent keeps the initial state *)
Definition c16_check (x : kind * bool * target * nat * action) : bool :=
  let '(k, pers, t, p, a) := x in
  let r := run k pers t [(p, a)] in
  match a, k with
  | (AWTE | ATerm), _ | _, KThread => true
  | _, _ => (* killed at p: synchronised only if the complete report had already been written *)
      Bool.eqb (state_synced k true r) (existsb (is_report k) (comms (snd r)))
  end.

Lemma c16_all : forallb c16_check (list_prod (list_prod (list_prod (list_prod kinds3 bools) targets) (seq 0 BOUND_R)) actions) = true.
Proof. vm_compute. reflexivity. Qed.
