(* Finite-domain theorems about the GENERATED skeletons: every landing point of up to two
   asynchronous events, every target behaviour, every kind.  Recomputed on every run. *)
From PW Require Import Child.Sem Gen.Skel Child.Runs.

Definition BOUND := 40.

Definition shape_ok (t : target) (o : obs) : Prop :=
  match o with
  | OOk => t = TReturn
  | OErr (Some EOwn) => t = TRaise
  | OErr (Some EBaseOwn) => t = TRaiseBase
  | OErr (Some EWTE) | OErr None | OAlive => True
  | OUndef | ORaises => False
  end.

Definition target_eqb (a b : target) : bool :=
  match a, b with TReturn, TReturn | TRaise, TRaise | TRaiseBase, TRaiseBase | TLoop, TLoop => true | _, _ => false end.

Definition shape_okb (t : target) (o : obs) : bool :=
  match o with
  | OOk => target_eqb t TReturn
  | OErr (Some EOwn) => target_eqb t TRaise
  | OErr (Some EBaseOwn) => target_eqb t TRaiseBase
  | OErr (Some EWTE) | OErr None | OAlive => true
  | OUndef | ORaises => false
  end.

Lemma shape_okb_ok t o : shape_okb t o = true -> shape_ok t o.
Proof. destruct o as [|[[| |]|]| | |]; simpl; auto; destruct t; simpl; congruence. Qed.

Definition case := (kind * bool * target * bool * (nat * action) * (nat * action))%type.

Definition obs_of (c : case) : obs :=
  let '(k, pers, t, rb, i1, i2) := c in observe k rb (run k pers t [i1; i2]).

Definition steps_of (c : case) : nat :=
  let '(k, pers, t, rb, i1, i2) := c in step (snd (run k pers t [i1; i2])).

Definition injections : list (nat * action) := list_prod (seq 0 BOUND) actions.

Definition all_cases : list case :=
  list_prod (list_prod (list_prod (list_prod (list_prod kinds bools) targets) bools) injections) injections.

Lemma in_kinds k : In k kinds. Proof. destruct k; simpl; auto. Qed.
Lemma in_bools b : In b bools. Proof. destruct b; simpl; auto. Qed.
Lemma in_targets t : In t targets. Proof. destruct t; simpl; auto. Qed.
Lemma in_actions a : In a actions. Proof. destruct a; simpl; auto. Qed.
Lemma in_injections p a : p < BOUND -> In (p, a) injections.
Proof. intros H. apply in_prod; [apply in_seq; lia|apply in_actions]. Qed.

Lemma in_all_cases k pers t rb p1 a1 p2 a2 :
  p1 < BOUND -> p2 < BOUND -> In (k, pers, t, rb, (p1, a1), (p2, a2)) all_cases.
Proof.
  intros H1 H2. unfold all_cases.
  apply in_prod; [apply in_prod; [apply in_prod; [apply in_prod; [apply in_prod;
    [apply in_kinds|apply in_bools]|apply in_targets]|apply in_bools]|apply in_injections; assumption]|apply in_injections; assumption].
Qed.

Definition tgt_of (c : case) : target := let '(k, pers, t, rb, i1, i2) := c in t.

Definition c01_check (c : case) : bool := shape_okb (tgt_of c) (obs_of c) && (steps_of c <? BOUND).

Lemma c01_all : forallb c01_check all_cases = true.
Proof. vm_compute. reflexivity. Qed.

Lemma c01_check_sound (c : case) :
  c01_check c = true -> shape_ok (tgt_of c) (obs_of c) /\ steps_of c < BOUND.
Proof.
  unfold c01_check. intros H. apply andb_prop in H. destruct H as [A B].
  split; [exact (shape_okb_ok _ _ A)|apply Nat.ltb_lt; exact B].
Qed.

Theorem c01_every_landing k pers t rb p1 a1 p2 a2 :
  p1 < BOUND -> p2 < BOUND ->
  shape_ok t (obs_of (k, pers, t, rb, (p1, a1), (p2, a2))) /\ steps_of (k, pers, t, rb, (p1, a1), (p2, a2)) < BOUND.
Proof.
  intros H1 H2.
  exact (c01_check_sound (k, pers, t, rb, (p1, a1), (p2, a2))
           (proj1 (forallb_forall c01_check all_cases) c01_all _ (in_all_cases k pers t rb p1 a1 p2 a2 H1 H2))).
Qed.

(* ---------- C03: one graceful terminate ---------- *)
(* the statement boundaries inside the handler that records a failure: landing there loses the report *)
Definition handler_window (k : kind) (t : target) (p : nat) : bool :=
  match t with
  | TRaise | TRaiseBase =>
      negb (obs_eqb (observe k true (run k false t [(p, AWTE)])) (own k t))
      && negb (obs_eqb (observe k true (run k false t [(p, AWTE)])) (OErr (Some EWTE)))
  | _ => false
  end.

Definition c03_check (x : kind * bool * target * nat) : bool :=
  let '(k, pers, t, p) := x in
  if p <? start_point k then true else
  let r := run k pers t [(p, AWTE)] in
  let o := observe k true r in
  match t with
  | TLoop => obs_eqb o (OErr (Some EWTE)) && cleanup_ran (snd r) || obs_eqb o OAlive
  | _ => obs_eqb o (own k t) || obs_eqb o (OErr (Some EWTE)) || handler_window k t p
  end.

Definition c03_cases := list_prod (list_prod (list_prod kinds bools) targets) (seq 0 BOUND).

Lemma c03_all : forallb c03_check c03_cases = true.
Proof. vm_compute. reflexivity. Qed.

Theorem c03_every_landing k pers t p :
  start_point k <= p < BOUND -> c03_check (k, pers, t, p) = true.
Proof.
  intros [H1 H2]. apply (proj1 (forallb_forall c03_check c03_cases) c03_all).
  unfold c03_cases. apply in_prod; [apply in_prod; [apply in_prod; [apply in_kinds|apply in_bools]|apply in_targets]|apply in_seq; lia].
Qed.

(* the request lands inside the running target: always reported as WorkerTerminatedError, finally blocks ran *)
Definition call_point (k : kind) : nat := match k with KThread => start_point k + 2 | KProcess => start_point k + 1 end.

Lemma c03_inside_target k pers :
  let r := run k pers TLoop [(call_point k, AWTE)] in
  observe k true r = OErr (Some EWTE) /\ cleanup_ran (snd r) = true
  /\ observe k true (run k pers TLoop [(S (call_point k), AWTE)]) = OAlive.   (* it is the last point ever reached *)
Proof. destruct k, pers; vm_compute; repeat split; reflexivity. Qed.

(* ---------- C16: the child's user_state travels with every report ---------- *)
(* Both result messages of ProcessWorker._run are `((ok, value), self._user_state)`: the labels
   SendResOk / SendResErr are only given to statements of exactly that shape by the translator.
   The parent takes the state from the message it decodes, after the child's death. *)
Definition state_synced (k : kind) (rb : bool) (r : completion * cs) : bool :=
  match observe k rb r with
  | OOk | OErr (Some _) => true
  | _ => false
  end.

Lemma c16_reporting_endings k pers :
  state_synced k true (run k pers TReturn []) = true
  /\ state_synced k true (run k pers TRaise []) = true
  /\ state_synced k true (run k pers TLoop [(call_point k, AWTE)]) = true.
Proof. destruct k, pers; vm_compute; repeat split; reflexivity. Qed.

(* a kill never lets a stale or partial state through: without a decoded report the parent keeps the initial state *)
Definition c16_check (x : bool * target * nat * action) : bool :=
  let '(pers, t, p, a) := x in
  let r := run KProcess pers t [(p, a)] in
  match a with
  | AWTE => true
  | _ => (* killed at p: synchronised only if the complete result message had already been written *)
      Bool.eqb (state_synced KProcess true r)
               (existsb (fun m => match m with MRes _ _ => true | _ => false end) (comms (snd r)))
  end.

Lemma c16_all : forallb c16_check (list_prod (list_prod (list_prod bools targets) (seq 0 BOUND)) actions) = true.
Proof. vm_compute. reflexivity. Qed.
