(* Class attributes of pyworkers.worker.Worker that hold lists of workers. *)
From Coq Require Export List String Bool Arith Lia.
Export ListNotations.

Definition wid := nat.
Definition store := string -> list wid.
Definition get (st : store) (k : string) : list wid := st k.
Definition set (st : store) (k : string) (v : list wid) : store :=
  fun k' => if String.eqb k' k then v else st k'.
Definition mem (x : wid) (l : list wid) : bool := existsb (Nat.eqb x) l.

Lemma get_set_same st k v : get (set st k v) k = v.
Proof. unfold get, set. now rewrite String.eqb_refl. Qed.

Lemma get_set_other st k k' v : k' <> k -> get (set st k v) k' = get st k'.
Proof. unfold get, set. intros H. destruct (String.eqb_spec k' k); [contradiction|reflexivity]. Qed.

Lemma mem_In x l : mem x l = true <-> In x l.
Proof.
  unfold mem. rewrite existsb_exists. split.
  - intros [y [Hy E]]. apply Nat.eqb_eq in E. now subst.
  - intros H. exists x. split; [exact H|apply Nat.eqb_refl].
Qed.
