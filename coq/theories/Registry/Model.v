(* M3 (registry part) - Worker.active_children / register_child over any history of
   creations, deaths, restarts and queries.  The functions py_* are GENERATED from
   pyworkers/worker.py (Gen/Registry.v). *)
From PW Require Export Registry.Store Gen.Registry.
Open Scope string_scope.
Open Scope list_scope.
Open Scope nat_scope.

Record rst := mkR {
  st : store;
  alive : wid -> bool;     (* is_alive() of each worker object *)
  started : wid -> bool;   (* created with run and started successfully at least once *)
  next : wid               (* number of worker objects created so far *)
}.

Inductive rop :=
| Create (run ok : bool)   (* Worker(...): run=False -> not run; ok=false -> child died during start-up *)
| Die (i : wid)            (* worker i finishes / is terminated / is killed *)
| Restart (i : wid)        (* PersistentWorker.restart on a dead (or stopped) worker i: re-runs __init__ with _is_restart *)
| Active.                  (* list(Worker.active_children()) *)

Definition upd {A} (g : wid -> A) (i : wid) (v : A) : wid -> A := fun j => if Nat.eqb j i then v else g j.

Definition init : rst := mkR (fun _ => []) (fun _ => false) (fun _ => false) 0.

(* Worker.__init__: `if run: ... self._start(); if <py_registers>: register_child(self)` *)
Definition do_init (s : rst) (i : wid) (ok is_restart : bool) (nx : wid) : rst :=
  let dead := negb ok in
  let st' := if py_registers dead is_restart then py_register_child i (st s) else st s in
  mkR st' (upd (alive s) i ok) (upd (started s) i (started s i || ok)) nx.

Definition step (s : rst) (o : rop) : rst * option (list wid) :=
  match o with
  | Create run ok =>
      if run then (do_init s (next s) ok false (S (next s)), None)
      else (mkR (st s) (alive s) (started s) (S (next s)), None)
  | Die i => (mkR (st s) (upd (alive s) i false) (started s) (next s), None)
  | Restart i =>
      (* restart is only meaningful on an object that exists and was run; it first stops the old child *)
      if (i <? next s) && started s i then (do_init s i true true (next s), None) else (s, None)
  | Active =>
      let '(st', out) := py_active_children (alive s) (st s) in
      (mkR st' (alive s) (started s) (next s), Some out)
  end.

Fixpoint run (s : rst) (ops : list rop) : rst * list (list wid) :=
  match ops with
  | [] => (s, [])
  | o :: r =>
      let '(s1, out) := step s o in
      let '(s2, outs) := run s1 r in
      (s2, match out with Some l => l :: outs | None => outs end)
  end.

Definition registry (s : rst) : list wid := get (st s) "_active_children".
Definition live (s : rst) : list wid := filter (alive s) (seq 0 (next s)).
