From PW Require Import Registry.Model.
Open Scope nat_scope.
Fixpoint nl_eqb (a b : list nat) : bool :=
  match a, b with [], [] => true | x :: a', y :: b' => Nat.eqb x y && nl_eqb a' b' | _, _ => false end.
Fixpoint nll_eqb (a b : list (list nat)) : bool :=
  match a, b with [], [] => true | x :: a', y :: b' => nl_eqb x y && nll_eqb a' b' | _, _ => false end.
Definition check_hist (ops : list rop) (expected : list (list nat)) (final_registry : list nat) : bool :=
  let '(s, outs) := run init ops in nll_eqb outs expected && nl_eqb (registry s) final_registry.
