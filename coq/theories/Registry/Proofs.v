From PW Require Import Registry.Model.
From Coq Require Import Permutation.
Open Scope string_scope.
Open Scope list_scope.
Open Scope nat_scope.

Record RInv (s : rst) : Prop := {
  ri_nodup : NoDup (registry s);
  ri_bound : forall i, In i (registry s) -> i < next s;
  ri_alive : forall i, alive s i = true -> i < next s /\ In i (registry s)
}.

Lemma NoDup_snoc (l : list wid) x : NoDup l -> ~ In x l -> NoDup (l ++ [x]).
Proof.
  induction 1 as [|y l Hy Hl IH]; intros Hx; simpl; [constructor; [intros []|constructor]|].
  constructor.
  - intros Hin. apply in_app_or in Hin. destruct Hin as [Hin|[->|[]]]; [contradiction|].
    apply Hx. now left.
  - apply IH. intros Hin. apply Hx. now right.
Qed.

Lemma init_inv : RInv init.
Proof. constructor; simpl; [constructor|intros ? []|discriminate]. Qed.

Lemma registry_register i s0 :
  get (py_register_child i s0) "_active_children" =
  if mem i (get s0 "_active_children") then get s0 "_active_children" else get s0 "_active_children" ++ [i].
Proof.
  unfold py_register_child. destruct (mem i (get s0 "_active_children")); [reflexivity|].
  now rewrite get_set_same.
Qed.

Lemma upd_same {A} (g : wid -> A) i v : upd g i v i = v.
Proof. unfold upd. now rewrite Nat.eqb_refl. Qed.
Lemma upd_other {A} (g : wid -> A) i v j : j <> i -> upd g i v j = g j.
Proof. unfold upd. intros H. destruct (Nat.eqb_spec j i); [contradiction|reflexivity]. Qed.

Lemma do_init_inv s i ok r nx :
  RInv s -> i < nx -> next s <= nx -> RInv (do_init s i ok r nx).
Proof.
  intros [Hn Hb Ha] Hi Hnx. unfold do_init.
  assert (Hreg : py_registers (negb ok) r = ok) by (unfold py_registers; now rewrite negb_involutive).
  rewrite Hreg. destruct ok.
  - constructor; unfold registry; cbn [st alive next]; rewrite registry_register.
    + destruct (mem i _) eqn:Hm; [exact Hn|].
      apply NoDup_snoc; [exact Hn|].
      intros Hin. apply mem_In in Hin. unfold registry in *. congruence.
    + intros j Hj. destruct (mem i _) eqn:Hm.
      * specialize (Hb j Hj). lia.
      * apply in_app_or in Hj. destruct Hj as [Hj|[<-|[]]]; [specialize (Hb j Hj); lia|lia].
    + intros j Hj. destruct (Nat.eq_dec j i) as [->|Hne].
      * split; [lia|]. destruct (mem i _) eqn:Hm; [now apply mem_In|apply in_or_app; right; now left].
      * rewrite upd_other in Hj by auto. destruct (Ha j Hj) as [A B]. split; [lia|].
        destruct (mem i _); [exact B|apply in_or_app; now left].
  - constructor; unfold registry; cbn [st alive next].
    + exact Hn.
    + intros j Hj. specialize (Hb j Hj). lia.
    + intros j Hj. destruct (Nat.eq_dec j i) as [->|Hne]; [rewrite upd_same in Hj; discriminate|].
      rewrite upd_other in Hj by auto. destruct (Ha j Hj). split; [lia|assumption].
Qed.

Lemma active_children_spec al s0 :
  py_active_children al s0 =
  (set s0 "_active_children" (filter al (get s0 "_active_children")), filter al (get s0 "_active_children")).
Proof. unfold py_active_children. now rewrite get_set_same. Qed.

Lemma step_inv s o : RInv s -> RInv (fst (step s o)).
Proof.
  intros I. destruct o as [r ok|i|i|]; unfold step.
  - destruct r; cbn [fst].
    + apply do_init_inv; auto.
    + destruct I as [Hn Hb Ha]. constructor; unfold registry in *; simpl; auto.
      * intros j Hj. specialize (Hb j Hj). lia.
      * intros j Hj. destruct (Ha j Hj). split; [lia|assumption].
  - cbn [fst]. destruct I as [Hn Hb Ha]. constructor; unfold registry in *; simpl; auto.
    intros j Hj. destruct (Nat.eq_dec j i) as [->|Hne]; [rewrite upd_same in Hj; discriminate|].
    rewrite upd_other in Hj by auto. now apply Ha.
  - destruct ((i <? next s) && started s i) eqn:Hg; cbn [fst]; [|exact I].
    apply andb_prop in Hg. destruct Hg as [Hi _]. apply Nat.ltb_lt in Hi.
    apply do_init_inv; auto.
  - rewrite active_children_spec. cbn [fst]. destruct I as [Hn Hb Ha].
    constructor; unfold registry in *; cbn [st alive next]; rewrite get_set_same.
    + now apply NoDup_filter.
    + intros j Hj. apply filter_In in Hj. now apply Hb.
    + intros j Hj. destruct (Ha j Hj) as [A B]. split; [exact A|]. apply filter_In. auto.
Qed.

(* what one query returns, in any state satisfying the invariant *)
Lemma active_output s out s' :
  RInv s -> step s Active = (s', Some out) ->
  NoDup out /\ (forall i, In i out <-> (i < next s /\ alive s i = true))
  /\ Forall (fun i => alive s' i = true) (registry s').
Proof.
  intros [Hn Hb Ha]. unfold step. rewrite active_children_spec. intros E. inversion E; subst. clear E.
  split; [now apply NoDup_filter|]. split.
  - intros i. rewrite filter_In. split.
    + intros [Hin Hal]. split; [now apply Hb|exact Hal].
    + intros [_ Hal]. destruct (Ha i Hal). auto.
  - unfold registry. cbn [st alive]. rewrite get_set_same. apply Forall_forall.
    intros i Hi. apply filter_In in Hi. tauto.
Qed.

Lemma run_inv ops : forall s, RInv s -> RInv (fst (run s ops)).
Proof.
  induction ops as [|o r IH]; intros s I; simpl; [exact I|].
  pose proof (step_inv s o I) as I1. destruct (step s o) as [s1 out].
  specialize (IH s1 I1). destruct (run s1 r) as [s2 outs]. exact IH.
Qed.

(* every query of every history *)
Theorem every_query_exact ops1 ops2 :
  let s := fst (run init ops1) in
  forall s' out, step s Active = (s', Some out) ->
    NoDup out /\ Permutation out (live s)
    /\ Forall (fun i => alive s' i = true) (registry s')
    /\ List.length (registry s') <= List.length (live s)
    /\ RInv (fst (run s' ops2)).
Proof.
  cbn zeta. intros s' out E.
  pose proof (run_inv ops1 init init_inv) as I.
  destruct (active_output _ out s' I E) as [Hnd [Hiff Hall]].
  assert (Hp : Permutation out (live (fst (run init ops1)))).
  { apply NoDup_Permutation; [exact Hnd| |].
    - unfold live. apply NoDup_filter, seq_NoDup.
    - intros i. rewrite Hiff. unfold live. rewrite filter_In, in_seq. split; intros; split; try tauto; lia. }
  split; [exact Hnd|]. split; [exact Hp|]. split; [exact Hall|]. split.
  - unfold step in E. rewrite active_children_spec in E. inversion E; subst. unfold registry. cbn [st].
    rewrite get_set_same. rewrite (Permutation_length Hp). reflexivity.
  - apply run_inv. pose proof (step_inv _ Active I) as I1. rewrite E in I1. exact I1.
Qed.
