(* C09 (b): consecutive runs of one pool, with deaths and restart_workers in between. *)
From PW Require Import Pool.Model Pool.Inv.
From Coq Require Import Permutation.
Open Scope Z_scope.

Definition clear_ppw (v : W) : W := mkW [] (closed v) (qpres v) (inbox v) (q v) (alive v) (ended v) (failed v).

(* the state a pool is in between two runs *)
Definition Quiet (c : cfg) (s : St) : Prop := forall i, (i < n c)%nat -> WInv c (clear_ppw (w s i)).
Definition QuietAll (c : cfg) (s : St) : Prop := forall i, WInv c (clear_ppw (w s i)).

Lemma clear_ppw_id v : ppw v = [] -> clear_ppw v = v.
Proof. destruct v. cbn. intros ->. reflexivity. Qed.

Lemma fresh_w_clean : Clean fresh_w.
Proof. unfold fresh_w, Clean. cbn. repeat split; auto; discriminate. Qed.

Lemma fresh_quiet c pc : Quiet c (fresh pc).
Proof. intros i _. apply clean_winv. unfold fresh, Clean. cbn. repeat split; auto; discriminate. Qed.

Lemma reset_inv_quiet c s inputs : QuietAll c s -> Inv c inputs [] (reset c s inputs).
Proof.
  intros H. unfold reset. constructor; cbn [w src depleted pending retries ret nenq ret_in consumed lost].
  - intros i. exact (H i).
  - rewrite sumf_zero; [reflexivity|]. intros. reflexivity.
  - intros z. rewrite sumf_zero; [reflexivity|]. intros. reflexivity.
  - reflexivity.
  - reflexivity.
  - reflexivity.
  - reflexivity.
  - discriminate.
Qed.

Lemma trim_quiet c s : Quiet c s -> QuietAll c (trim c s).
Proof.
  intros H i. unfold trim, with_w. cbn [w]. destruct (Nat.ltb_spec i (n c)).
  - now apply H.
  - apply clean_winv. exact fresh_w_clean.
Qed.

(* idle steps keep the pool quiet *)
Lemma env_step_quiet c s o : Quiet c s -> Quiet c (env_step c s o).
Proof.
  intros H. unfold env_step. destruct (n c <=? op_wid o)%nat eqn:En; [exact H|].
  apply Nat.leb_gt in En.
  destruct o as [j|j|j|ord]; try exact H; cbn [op_wid] in En; rename En into Hj.
  - (* Ans: nothing is queued at an idle worker *)
    destruct (alive (w s j) && negb (ended (w s j))) eqn:E; [|exact H].
    destruct (inbox (w s j)) as [|x ib] eqn:Ei; [exact H|]. exfalso.
    apply Bool.andb_true_iff in E. destruct E as [Ea Ee]. apply Bool.negb_true_iff in Ee.
    pose proof (H j Hj) as Wj. destruct (closed (w s j)) eqn:Ec.
    + destruct (wi_closed _ _ Wj) as [_ [_ [X|[X|X]]]]; cbn in *; try congruence.
    + pose proof (wi_open _ _ Wj) as X. cbn in X. specialize (X Ec). rewrite Ei in X.
      apply (f_equal (@length _)) in X. rewrite !app_length in X. simpl in X. lia.
  - destruct (alive (w s j) && negb (ended (w s j))) eqn:E; [|exact H].
    destruct (inbox (w s j)) as [|x ib] eqn:Ei; [exact H|]. exfalso.
    apply Bool.andb_true_iff in E. destruct E as [Ea Ee]. apply Bool.negb_true_iff in Ee.
    pose proof (H j Hj) as Wj. destruct (closed (w s j)) eqn:Ec.
    + destruct (wi_closed _ _ Wj) as [_ [_ [X|[X|X]]]]; cbn in *; try congruence.
    + pose proof (wi_open _ _ Wj) as X. cbn in X. specialize (X Ec). rewrite Ei in X.
      apply (f_equal (@length _)) in X. rewrite !app_length in X. simpl in X. lia.
  - (* Exit *)
    intros i Hi. unfold setw. cbn [w]. destruct (Nat.eq_dec i j) as [->|Hne]; upd_simpl; [|now apply H].
    pose proof (H j Hj) as Wj. destruct Wj as [Wc Wo Wq Ww Wn We Wp]. cbn in *.
    constructor; cbn; auto.
    + intros Hc. destruct (Wc Hc) as [A [B _]]. auto.
    + intros Hq. destruct (Wp Hq) as [A _]. auto.
Qed.

Lemma between_step_quiet c s b : Quiet c s -> Quiet c (between_step c s b).
Proof.
  intros H. destruct b as [o| |k]; cbn [between_step].
  - now apply env_step_quiet.
  - intros i _. unfold with_w. cbn [w]. apply clean_winv. exact fresh_w_clean.
  - intros i _. unfold with_w. cbn [w]. destruct (Nat.ltb_spec (i + k) (n c)); [now apply H|apply clean_winv; exact fresh_w_clean].
Qed.

Lemma between_steps_quiet c bs : forall s, Quiet c s -> Quiet c (fold_left (between_step c) bs s).
Proof. induction bs as [|b bs IH]; intros s H; simpl; [exact H|]. apply IH. now apply between_step_quiet. Qed.

Definition fin_run (o : outcome) : bool :=
  match o with Return _ | ReturnUnit | PoolErr _ => true | _ => false end.

Lemma finish_fin c s : fin_run (finish c s) = true.
Proof. unfold finish. destruct (_ && _ && _); [destruct (return_results c)|]; reflexivity. Qed.

(* when the event loop ends on its own, its condition is false *)
Lemma main_loop_exit c inputs fuel script : forall s,
  Inv c inputs [] s ->
  let '(o, s') := main_loop c fuel s script in
  fin_run o = true -> (negb (pending s' =? 0) && any_open c s') = false.
Proof.
  induction script as [|o script IH]; intros s I; simpl main_loop.
  - destruct (negb (pending s =? 0) && any_open c s) eqn:E; [discriminate|auto].
  - destruct (negb (pending s =? 0) && any_open c s) eqn:E; [|auto].
    destruct o as [i|i|i|order]; try (apply IH; now apply env_step_inv).
    destruct (strict c && negb (exact_ready c s order)); [discriminate|].
    destruct (existsb (ready s) order); [|discriminate].
    destruct (poll_inv c inputs fuel order s I) as [N H].
    destruct (poll c fuel s order) as [s'|o']; [apply IH; exact H|].
    cbn [okR' okR] in H. subst o'. discriminate.
Qed.

Lemma any_open_false c s : any_open c s = false -> forall i, (i < n c)%nat -> closed (w s i) = true.
Proof.
  unfold any_open. intros H i Hi.
  destruct (closed (w s i)) eqn:E; [reflexivity|]. exfalso.
  assert (X : existsb (fun j => negb (closed (w s j))) (seq 0 (n c)) = true).
  { apply existsb_exists. exists i. split; [apply in_seq; lia|]. rewrite E. reflexivity. }
  congruence.
Qed.

Lemma exit_quiet c inputs s :
  Inv c inputs [] s -> (negb (pending s =? 0) && any_open c s) = false ->
  forall i, (i < n c)%nat -> WInv c (clear_ppw (w s i)).
Proof.
  intros I E i Hi. pose proof (inv_w _ _ _ _ I i) as Wi.
  assert (Hp : ppw (w s i) = []).
  { apply Bool.andb_false_iff in E. destruct E as [E|E].
    - apply Bool.negb_false_iff in E. apply Z.eqb_eq in E.
      rewrite (inv_pending _ _ _ _ I) in E.
      assert (Hz : sumf (plen s) (n c) = O) by lia.
      pose proof (sumf_zero_inv _ _ Hz i Hi) as Hl. unfold plen in Hl.
      destruct (ppw (w s i)); [reflexivity|discriminate].
    - pose proof (any_open_false c s E i Hi) as Hc. destruct (wi_closed _ _ Wi Hc) as [A _]. exact A. }
  rewrite (clear_ppw_id _ Hp). exact Wi.
Qed.

(* one run from a quiet pool: it ends as the single-run theorems say, and leaves the pool quiet *)
Lemma run_from_quiet c s0 inputs script :
  QuietAll c s0 ->
  let '(o, s') := run_from c s0 inputs script in
  Inv c inputs [] s' /\ good_end c s' o /\ (fin_run o = true -> Quiet c s').
Proof.
  intros Hq. unfold run_from.
  pose proof (first_enqueue_inv c inputs (fuel_of c) (S (extra c)) _ (reset_inv_quiet c s0 inputs Hq)) as H.
  destruct (first_enqueue c (fuel_of c) (reset c s0 inputs) (S (extra c))) as [s1|o]; cbn [okR' okR] in H.
  - pose proof (main_loop_inv c inputs (fuel_of c) script s1 H) as M.
    pose proof (main_loop_exit c inputs (fuel_of c) script s1 H) as X.
    destruct (main_loop c (fuel_of c) s1 script) as [o s']. destruct M as [I G].
    split; [exact I|]. split; [exact G|]. intros F. exact (exit_quiet c inputs s' I (X F)).
  - subst o. split; [now apply reset_inv_quiet|]. split; [unfold good_end; auto|]. discriminate.
Qed.

Lemma fin_cases o : is_fin o = true -> fin_run o = true.
Proof. destruct o; cbn; auto; discriminate. Qed.

(* every run of every history answers ITS inputs - nothing of an earlier run leaks into it *)
Theorem rounds_each_run_own_inputs c : forall rs s k bs inputs script r,
  Quiet c s -> retry c = true ->
  nth_error rs k = Some (bs, inputs, script) ->
  nth_error (rounds c s rs) k = Some (Return r) ->
  Permutation r (map (f c) inputs).
Proof.
  induction rs as [|[[bs0 in0] sc0] rest IH]; intros s k bs inputs script r Hq Hr Hk Ho; [destruct k; discriminate|].
  simpl rounds in Ho.
  set (s0 := trim c (fold_left (between_step c) bs0 s)) in *.
  assert (Q0 : QuietAll c s0).
  { apply trim_quiet. apply between_steps_quiet. exact Hq. }
  pose proof (run_from_quiet c s0 in0 sc0 Q0) as H.
  destruct (run_from c s0 in0 sc0) as [o s'].
  destruct k as [|k]; simpl in Hk, Ho.
  - inversion Hk; subst. inversion Ho; subst.
    destruct H as [I [G _]].
    destruct G as [E|[E|[E|E]]]; try discriminate.
    symmetry in E. destruct (finish_return c inputs s' r I E) as [_ [-> C]].
    apply Permutation_map. apply Permutation_sym. rewrite (Permutation_count_occ Z.eq_dec).
    intros x. rewrite (C x), (inv_lost _ _ _ _ I Hr). simpl. lia.
  - destruct (is_fin o) eqn:F; [|destruct k; discriminate].
    apply (IH s' k bs inputs script r); auto.
    destruct H as [I [G Q]]. exact (Q (fin_cases o F)).
Qed.

Theorem rounds_from_fresh c pc rs k bs inputs script r :
  retry c = true ->
  nth_error rs k = Some (bs, inputs, script) ->
  nth_error (rounds c (fresh pc) rs) k = Some (Return r) ->
  Permutation r (map (f c) inputs).
Proof. apply rounds_each_run_own_inputs. apply fresh_quiet. Qed.

(* non-vacuity: a death in the first run, a complete restart, a second run *)
Definition example_rounds_statement : Prop :=
  rounds (mkCfg 2 (fun x => x * x) true 0 true (fun _ _ => false) (fun _ => 0%nat) false) (fresh (fun _ => false))
    [([], [1; 2; 3], [Ans 0%nat; Poll [0%nat]; Ans 1%nat; Exit 1%nat; Poll [1%nat]; Ans 0%nat; Poll [0%nat]; Poll [1%nat]; Ans 0%nat; Poll [0%nat]]);
     ([BRestartAll], [4; 5], [Ans 0%nat; Ans 1%nat; Poll [0%nat; 1%nat]])]
  = [Return [1; 4; 9]; Return [16; 25]].
Lemma example_rounds : example_rounds_statement.
Proof. vm_compute. reflexivity. Qed.
