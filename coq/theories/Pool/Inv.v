(* Invariant of Pool.run's bookkeeping (model Pool/Model.v) and its preservation
   by every primitive, environment step and poll. *)
From PW Require Import Pool.Model.
From Coq Require Import Permutation ZifyBool ZifyNat.
Open Scope Z_scope.

(* ---------- sums over workers 0..k-1 ---------- *)
Fixpoint sumf (g : nat -> nat) (k : nat) : nat :=
  match k with O => O | S k' => (sumf g k' + g k')%nat end.

Lemma sumf_ext g h k : (forall i, (i < k)%nat -> g i = h i) -> sumf g k = sumf h k.
Proof.
  induction k as [|k IH]; intros H; simpl; [reflexivity|].
  rewrite IH by (intros; apply H; lia). rewrite H by lia. reflexivity.
Qed.

Lemma sumf_upd g h k i :
  (i < k)%nat -> (forall j, j <> i -> h j = g j) -> (sumf h k + g i = sumf g k + h i)%nat.
Proof.
  induction k as [|k IH]; intros Hi H; [lia|]. simpl.
  destruct (Nat.eq_dec i k) as [->|Hne].
  - rewrite (sumf_ext h g k) by (intros; apply H; lia). lia.
  - rewrite (H k) by lia. assert (i < k)%nat by lia. specialize (IH H0 H). lia.
Qed.

Lemma sumf_zero g k : (forall i, (i < k)%nat -> g i = O) -> sumf g k = O.
Proof. induction k as [|k IH]; intros H; simpl; [reflexivity|]. rewrite IH, H by (intros; auto; lia). reflexivity. Qed.

Lemma sumf_zero_inv g k : sumf g k = O -> forall i, (i < k)%nat -> g i = O.
Proof.
  induction k as [|k IH]; intros H i Hi; [lia|]. simpl in H.
  destruct (Nat.eq_dec i k) as [->|]; [lia|]. apply IH; lia.
Qed.

Notation cnt := (count_occ Z.eq_dec).

(* ---------- per-worker invariant ---------- *)
Definition qinputs (l : list msg) : list inp :=
  flat_map (fun m => match m with MRes x _ => [x] | MEnd => [] end) l.

Definition is_res (m : msg) : Prop := match m with MRes _ _ => True | MEnd => False end.

Definition qok (c : cfg) (l : list msg) : Prop :=
  Forall (fun m => match m with MRes x r => r = f c x | MEnd => True end) l.

(* after an end marker nothing else has been written *)
Fixpoint wf_q (l : list msg) : Prop :=
  match l with
  | [] => True
  | MRes _ _ :: r => wf_q r
  | MEnd :: r => r = []
  end.

Record WInv (c : cfg) (v : W) : Prop := {
  wi_closed : closed v = true ->
              ppw v = [] /\ qinputs (q v) = [] /\ (alive v = false \/ ended v = true \/ inbox v = []);
  wi_open : closed v = false -> ppw v = qinputs (q v) ++ failed v ++ inbox v;
  wi_qok : qok c (q v);
  wi_wf : wf_q (q v);
  wi_noend : ended v = false -> Forall is_res (q v) /\ failed v = [];
  wi_end : In MEnd (q v) -> ended v = true;
  wi_qpres : qpres v = false -> q v = [] /\ alive v = false
}.

Lemma qinputs_app a b : qinputs (a ++ b) = qinputs a ++ qinputs b.
Proof. unfold qinputs. apply flat_map_app. Qed.

Lemma wf_q_app_res l x r : Forall is_res l -> wf_q (l ++ [MRes x r]).
Proof. induction 1 as [|m l Hm Hl IH]; simpl; [exact I|]. destruct m; [exact IH|elim Hm]. Qed.

Lemma wf_q_app_end l : Forall is_res l -> wf_q (l ++ [MEnd]).
Proof. induction 1 as [|m l Hm Hl IH]; simpl; [reflexivity|]. destruct m; [exact IH|elim Hm]. Qed.

Lemma wf_q_tail m l : wf_q (m :: l) -> wf_q l.
Proof. destruct m; simpl; [auto|]. intros ->. exact I. Qed.

Lemma wf_q_after_end l : wf_q (MEnd :: l) -> l = [].
Proof. simpl. auto. Qed.

(* ---------- global invariant; [h] = inputs currently "in hand" inside try_enqueue ---------- *)
Definition plen (s : St) (i : nat) : nat := length (ppw (w s i)).
Definition pcnt (x : Z) (s : St) (i : nat) : nat := cnt (ppw (w s i)) x.

Record Inv (c : cfg) (inputs : list inp) (h : list inp) (s : St) : Prop := {
  inv_w : forall i, WInv c (w s i);
  inv_pending : pending s = Z.of_nat (sumf (plen s) (n c));
  inv_cons : forall x,
      (cnt (consumed s) x =
       cnt (ret_in s) x + sumf (pcnt x s) (n c) + cnt (retries s) x + cnt (lost s) x + cnt h x)%nat;
  inv_ret : return_results c = true -> ret s = map (f c) (ret_in s);
  inv_ret_off : return_results c = false -> ret s = [];
  inv_src : consumed s ++ src s = inputs;
  inv_lost : retry c = true -> lost s = [];
  inv_dep : depleted s = true -> src s = []
}.

Lemma upd_same g i v : upd g i v i = v.
Proof. unfold upd. now rewrite Nat.eqb_refl. Qed.

Lemma upd_other g i v j : j <> i -> upd g i v j = g j.
Proof. unfold upd. intros H. destruct (Nat.eqb_spec j i); [contradiction|reflexivity]. Qed.

Ltac upd_simpl :=
  repeat first [ rewrite upd_same | rewrite upd_other by (auto; lia) ].

(* Updating worker i (i < n) : how the two sums move. *)
Lemma plen_upd (s s' : St) c i :
  (i < n c)%nat -> (forall j, j <> i -> w s' j = w s j) ->
  (sumf (plen s') (n c) + plen s i = sumf (plen s) (n c) + plen s' i)%nat.
Proof.
  intros Hi H. apply sumf_upd; [exact Hi|]. intros j Hj. unfold plen. now rewrite H.
Qed.

Lemma pcnt_upd x (s s' : St) c i :
  (i < n c)%nat -> (forall j, j <> i -> w s' j = w s j) ->
  (sumf (pcnt x s') (n c) + pcnt x s i = sumf (pcnt x s) (n c) + pcnt x s' i)%nat.
Proof.
  intros Hi H. apply sumf_upd; [exact Hi|]. intros j Hj. unfold pcnt. now rewrite H.
Qed.

Lemma sums_same (s s' : St) c x :
  (forall j, ppw (w s' j) = ppw (w s j)) ->
  sumf (plen s') (n c) = sumf (plen s) (n c) /\ sumf (pcnt x s') (n c) = sumf (pcnt x s) (n c).
Proof.
  intros H. split; apply sumf_ext; intros; unfold plen, pcnt; now rewrite H.
Qed.

Lemma cnt_app (l1 l2 : list Z) x : cnt (l1 ++ l2) x = (cnt l1 x + cnt l2 x)%nat.
Proof. apply count_occ_app. Qed.

(* ---------- next_inputs ---------- *)
Lemma next_inputs_none c inputs h s s1 :
  Inv c inputs h s -> next_inputs s = (None, s1) -> Inv c inputs h s1.
Proof.
  intros I. unfold next_inputs.
  destruct (retries s) as [|x r] eqn:Er; [|discriminate].
  destruct (depleted s) eqn:Ed.
  - intros E; inversion E; subst. exact I.
  - destruct (src s) as [|x r] eqn:Es; [|discriminate].
    intros E; inversion E; subst. destruct I.
    constructor; cbn [w src depleted pending retries ret nenq ret_in consumed lost].
    + exact inv_w0.
    + exact inv_pending0.
    + intros z. specialize (inv_cons0 z). rewrite Er in inv_cons0. exact inv_cons0.
    + exact inv_ret0.
    + exact inv_ret_off0.
    + rewrite Es in inv_src0. exact inv_src0.
    + exact inv_lost0.
    + reflexivity.
Qed.

Lemma next_inputs_some c inputs h s s1 x fr :
  Inv c inputs h s -> next_inputs s = (Some (x, fr), s1) ->
  Inv c inputs (x :: h) s1 /\ w s1 = w s.
Proof.
  intros I. unfold next_inputs.
  destruct (retries s) as [|y r] eqn:Er.
  - destruct (depleted s) eqn:Ed; [discriminate|].
    destruct (src s) as [|y r] eqn:Es; [discriminate|].
    intros E; inversion E; subst. split; [|reflexivity]. destruct I.
    constructor; cbn [w src depleted pending retries ret nenq ret_in consumed lost].
    + exact inv_w0.
    + exact inv_pending0.
    + intros z. rewrite cnt_app. specialize (inv_cons0 z). rewrite Er in *.
      change (sumf (pcnt z _) (n c)) with (sumf (pcnt z s) (n c)).
      simpl in *. destruct (Z.eq_dec x z); lia.
    + exact inv_ret0.
    + exact inv_ret_off0.
    + rewrite <- inv_src0, Es, <- app_assoc. reflexivity.
    + exact inv_lost0.
    + congruence.
  - intros E; inversion E; subst. split; [|reflexivity]. destruct I.
    constructor; cbn [w src depleted pending retries ret nenq ret_in consumed lost]; auto.
    intros z. specialize (inv_cons0 z). rewrite Er in inv_cons0.
    change (sumf (pcnt z _) (n c)) with (sumf (pcnt z s) (n c)).
    simpl in *. destruct (Z.eq_dec x z); lia.
Qed.

(* ---------- handle_unused ---------- *)
Lemma handle_unused_inv c inputs h s x fr :
  Inv c inputs (x :: h) s -> Inv c inputs h (handle_unused c s x fr).
Proof.
  intros I. unfold handle_unused. destruct I.
  destruct (retry c) eqn:Er.
  - constructor; cbn [w src depleted pending retries ret nenq ret_in consumed lost]; auto.
    intros z. specialize (inv_cons0 z).
    change (sumf (pcnt z _) (n c)) with (sumf (pcnt z s) (n c)).
    destruct fr; simpl in *; rewrite ?cnt_app; simpl; destruct (Z.eq_dec x z); lia.
  - constructor; cbn [w src depleted pending retries ret nenq ret_in consumed lost]; auto; [|congruence].
    intros z. specialize (inv_cons0 z). rewrite cnt_app.
    change (sumf (pcnt z _) (n c)) with (sumf (pcnt z s) (n c)).
    simpl in *. destruct (Z.eq_dec x z); lia.
Qed.

Lemma handle_unused_w c s x fr : w (handle_unused c s x fr) = w s.
Proof. unfold handle_unused. destruct (retry c); reflexivity. Qed.

(* ---------- bump ---------- *)
Lemma bump_inv c inputs h s : Inv c inputs h s -> Inv c inputs h (bump s).
Proof. intros []. constructor; cbn [bump w src depleted pending retries ret nenq ret_in consumed lost]; auto. Qed.

(* ---------- handle_enqueue ---------- *)
Lemma handle_enqueue_inv c inputs h s i x :
  (i < n c)%nat -> closed (w s i) = false ->
  Inv c inputs (x :: h) s -> Inv c inputs h (handle_enqueue s i x).
Proof.
  intros Hi Hc I. destruct I.
  set (s' := handle_enqueue s i x).
  assert (Ho : forall j, j <> i -> w s' j = w s j) by (intros; unfold s', handle_enqueue; simpl; now upd_simpl).
  assert (Hp : ppw (w s' i) = ppw (w s i) ++ [x]) by (unfold s', handle_enqueue; simpl; now upd_simpl).
  constructor; auto.
  - intros j. destruct (Nat.eq_dec j i) as [->|Hne]; [|rewrite Ho by auto; apply inv_w0].
    destruct (inv_w0 i). unfold s', handle_enqueue. simpl. upd_simpl.
    constructor; simpl; auto; try congruence.
    intros _. rewrite wi_open0 by exact Hc. now rewrite <- !app_assoc.
  - pose proof (plen_upd s s' c i Hi Ho) as P. unfold plen in P at 2 4. rewrite Hp, app_length in P.
    unfold s' at 1. unfold handle_enqueue at 1. simpl pending. rewrite inv_pending0.
    fold s'. simpl in P. lia.
  - intros z. pose proof (pcnt_upd z s s' c i Hi Ho) as P. unfold pcnt in P at 2 4.
    rewrite Hp, cnt_app in P. specialize (inv_cons0 z). simpl in *.
    destruct (Z.eq_dec x z); lia.
Qed.

(* ---------- set_q: dropping the head of worker i's queue ---------- *)
Lemma set_q_w_other s i q' j : j <> i -> w (set_q s i q') j = w s j.
Proof. intros. unfold set_q, setw. simpl. now upd_simpl. Qed.

Lemma set_q_w_same s i q' :
  w (set_q s i q') i =
  mkW (ppw (w s i)) (closed (w s i)) (qpres (w s i)) (inbox (w s i)) q' (alive (w s i)) (ended (w s i)) (failed (w s i)).
Proof. unfold set_q, setw. simpl. now upd_simpl. Qed.

(* a result read from an open worker's queue answers the head of its pending list *)
Lemma take_result_inv c inputs h s i x r q' :
  (i < n c)%nat -> Inv c inputs h s -> q (w s i) = MRes x r :: q' -> closed (w s i) = false ->
  exists s', take_result c (set_q s i q') i r = Some s' /\ Inv c inputs h s'
             /\ (forall j, j <> i -> w s' j = w s j)
             /\ closed (w s' i) = false /\ q (w s' i) = q' /\ alive (w s' i) = alive (w s i)
             /\ ended (w s' i) = ended (w s i) /\ qpres (w s' i) = qpres (w s i)
             /\ retries s' = retries s /\ depleted s' = depleted s /\ src s' = src s
             /\ consumed s' = consumed s.
Proof.
  intros Hi I Hq Hc. destruct I. destruct (inv_w0 i) as [Wc Wo Wk Ww Wn We].
  specialize (Wo Hc). rewrite Hq in Wo. simpl in Wo.
  unfold take_result. rewrite set_q_w_same. simpl ppw. rewrite Wo.
  eexists. split; [reflexivity|].
  match goal with |- Inv _ _ _ ?S /\ _ => set (s' := S) end.
  assert (Ho : forall j, j <> i -> w s' j = w s j).
  { intros j Hj. unfold s'. cbn [w]. rewrite upd_other by auto. now apply set_q_w_other. }
  assert (Hp : ppw (w s' i) = qinputs q' ++ failed (w s i) ++ inbox (w s i)) by (unfold s'; simpl; now upd_simpl).
  rewrite Hq in Wk. inversion Wk as [|? ? Hr Wk']; subst.
  split; [|unfold s'; simpl; upd_simpl; simpl; repeat split; auto].
  constructor; auto.
  - intros j. destruct (Nat.eq_dec j i) as [->|Hne]; [|rewrite Ho by auto; apply inv_w0].
    unfold s'. simpl. upd_simpl.
    constructor; simpl; auto; try congruence.
    + rewrite Hq in Ww. eapply wf_q_tail; eauto.
    + intros He. destruct (Wn He) as [Wa Wb]. rewrite Hq in Wa. inversion Wa; auto.
    + intros Hin. apply We. rewrite Hq. now right.
    + intros Hqp. destruct (wi_qpres _ _ (inv_w0 i) Hqp) as [Hq0 _]. congruence.
  - pose proof (plen_upd s s' c i Hi Ho) as P. unfold plen in P at 2 4. rewrite Hp, Wo in P. simpl in P.
    unfold s' at 1. simpl pending. rewrite inv_pending0. fold s'. lia.
  - intros z. pose proof (pcnt_upd z s s' c i Hi Ho) as P. unfold pcnt in P at 2 4.
    rewrite Hp, Wo in P. specialize (inv_cons0 z).
    unfold s' at 1 3 4 5. simpl. rewrite cnt_app. simpl in *. fold s'.
    destruct (Z.eq_dec x z); lia.
  - intros Hr. unfold s'. simpl. rewrite Hr. rewrite map_app, <- inv_ret0 by exact Hr. reflexivity.
  - intros Hr. unfold s'. simpl. rewrite Hr. auto.
Qed.

(* ---------- dropping an end marker from the head of a queue ---------- *)
Lemma drop_end_inv c inputs h s i q' :
  Inv c inputs h s -> q (w s i) = MEnd :: q' ->
  Inv c inputs h (set_q s i q') /\ q' = [].
Proof.
  intros I Hq. destruct I. pose proof (inv_w0 i) as Wi. destruct Wi as [Wc Wo Wk Ww Wn We Wp].
  assert (q' = []) as -> by (rewrite Hq in Ww; exact Ww).
  split; [|reflexivity].
  assert (Hs : forall j, ppw (w (set_q s i []) j) = ppw (w s j)).
  { intros j. destruct (Nat.eq_dec j i) as [->|Hne]; [now rewrite set_q_w_same|now rewrite set_q_w_other]. }
  constructor; auto.
  - intros j. destruct (Nat.eq_dec j i) as [->|Hne]; [|rewrite set_q_w_other by auto; apply inv_w0].
    rewrite set_q_w_same. constructor; cbn [ppw closed qpres inbox q alive ended failed].
    + intros Hc. destruct (Wc Hc) as [A [B C]]. auto.
    + intros Hc. rewrite (Wo Hc), Hq. reflexivity.
    + constructor.
    + exact I.
    + intros He. destruct (Wn He) as [A B]. rewrite Hq in A. inversion A as [|? ? Hm]. elim Hm.
    + intros [].
    + intros Hqp. destruct (Wp Hqp) as [A B]. congruence.
  - change (pending (set_q s i [])) with (pending s).
    rewrite inv_pending0. f_equal. apply sumf_ext. intros. unfold plen. now rewrite Hs.
  - intros z. change (consumed (set_q s i [])) with (consumed s).
    change (ret_in (set_q s i [])) with (ret_in s). change (retries (set_q s i [])) with (retries s).
    change (lost (set_q s i [])) with (lost s).
    rewrite (inv_cons0 z).
    assert (sumf (pcnt z (set_q s i [])) (n c) = sumf (pcnt z s) (n c)) as ->; [|reflexivity].
    apply sumf_ext. intros. unfold pcnt. now rewrite Hs.
Qed.

(* what drain/bury/te/hd_ never touch *)
Definition same_static (s s' : St) : Prop :=
  depleted s' = depleted s /\ src s' = src s /\ consumed s' = consumed s.

(* ---------- drain ---------- *)
Lemma drain_inv c inputs h k : forall s i,
  (i < n c)%nat -> Inv c inputs h s -> closed (w s i) = false ->
  (length (q (w s i)) < k)%nat ->
  let s' := drain c k s i in
  Inv c inputs h s' /\ (forall j, j <> i -> w s' j = w s j) /\ closed (w s' i) = false
  /\ alive (w s' i) = alive (w s i) /\ ended (w s' i) = ended (w s i)
  /\ qinputs (q (w s' i)) = [] /\ retries s' = retries s /\ same_static s s'.
Proof.
  induction k as [|k IH]; intros s i Hi I Hc Hk; [lia|].
  cbn zeta. simpl drain.
  pose proof (inv_w _ _ _ _ I i) as Wi.
  assert (Hstop : forall (P : Prop), qinputs (q (w s i)) = [] -> P -> 
          Inv c inputs h s /\ (forall j, j <> i -> w s j = w s j) /\ closed (w s i) = false
          /\ alive (w s i) = alive (w s i) /\ ended (w s i) = ended (w s i)
          /\ qinputs (q (w s i)) = [] /\ retries s = retries s /\ same_static s s).
  { intros P HqP _.
    refine (conj I (conj _ (conj Hc (conj eq_refl (conj eq_refl (conj HqP (conj eq_refl _))))))).
    - auto.
    - unfold same_static; auto. }
  destruct (qpres (w s i)) eqn:Hqp; simpl negb; cbv iota.
  2:{ apply (Hstop True); auto. destruct (wi_qpres _ _ Wi Hqp) as [-> _]. reflexivity. }
  destruct (ppw (w s i)) as [|p0 pr] eqn:Hp.
  { apply (Hstop True); auto. pose proof (wi_open _ _ Wi Hc) as Ho. rewrite Hp in Ho.
    symmetry in Ho. apply app_eq_nil in Ho. tauto. }
  destruct (q (w s i)) as [|m q'] eqn:Hq.
  { rewrite Hq. apply (Hstop True); auto. }
  clear Hstop.
  destruct m as [x r|].
  - destruct (take_result_inv c inputs h s i x r q' Hi I Hq Hc)
      as [s1 [E [I1 [Ho [Hc1 [Hq1 [Ha1 [He1 [Hqp1 [Hr1 [Hd1 [Hs1 Hcs1]]]]]]]]]]]].
    rewrite E.
    assert (Hk1 : (length (q (w s1 i)) < k)%nat) by (rewrite Hq1; simpl in Hk; lia).
    destruct (IH s1 i Hi I1 Hc1 Hk1) as [I2 [Ho2 [Hc2 [Ha2 [He2 [Hq2 [Hr2 [Hd2 [Hs2 Hcs2]]]]]]]]].
    refine (conj I2 (conj _ (conj Hc2 (conj _ (conj _ (conj Hq2 (conj _ _))))))); try congruence.
    + intros j Hj. rewrite Ho2, Ho by auto. reflexivity.
    + unfold same_static. repeat split; congruence.
  - destruct (drop_end_inv c inputs h s i q' I Hq) as [I1 ->].
    refine (conj I1 (conj _ (conj _ (conj _ (conj _ (conj _ (conj eq_refl _))))))).
    + intros j Hj. now apply set_q_w_other.
    + now rewrite set_q_w_same.
    + now rewrite set_q_w_same.
    + now rewrite set_q_w_same.
    + now rewrite set_q_w_same.
    + unfold same_static. auto.
Qed.

(* ---------- bury ---------- *)
Lemma bury_inv c inputs h s i :
  (i < n c)%nat -> Inv c inputs h s -> closed (w s i) = false ->
  qinputs (q (w s i)) = [] -> (alive (w s i) = false \/ ended (w s i) = true) ->
  Inv c inputs h (bury c s i) /\ (forall j, j <> i -> w (bury c s i) j = w s j)
  /\ closed (w (bury c s i) i) = true /\ same_static s (bury c s i).
Proof.
  intros Hi I Hc Hq Hd. destruct I. pose proof (inv_w0 i) as Wi. destruct Wi as [Wc Wo Wk Ww Wn We Wp].
  set (s' := bury c s i).
  assert (Ho : forall j, j <> i -> w s' j = w s j) by (intros; unfold s', bury; cbn [w]; now upd_simpl).
  assert (Hp : ppw (w s' i) = []) by (unfold s', bury; cbn [w]; now upd_simpl).
  split; [|repeat split; auto; unfold s', bury; cbn [w]; now upd_simpl].
  constructor; auto.
  - intros j. destruct (Nat.eq_dec j i) as [->|Hne]; [|rewrite Ho by auto; apply inv_w0].
    unfold s', bury. cbn [w]. upd_simpl. constructor; simpl; auto; try congruence.
    intros _. repeat split; auto. destruct Hd; auto.
  - pose proof (plen_upd s s' c i Hi Ho) as P. unfold plen in P at 2 4. rewrite Hp in P. simpl in P.
    unfold s' at 1. unfold bury at 1. cbn [pending]. rewrite inv_pending0. fold s'. lia.
  - intros z. pose proof (pcnt_upd z s s' c i Hi Ho) as P. unfold pcnt in P at 2 4. rewrite Hp in P.
    simpl in P. specialize (inv_cons0 z).
    unfold s' at 1 2 4 5. unfold bury. cbn [consumed ret_in retries lost]. fold s'.
    destruct (retry c); rewrite ?cnt_app; lia.
  - intros Hr. unfold s', bury. cbn [lost]. rewrite Hr. auto.
Qed.

(* ---------- try_enqueue / handle_death ---------- *)
Definition okR (c : cfg) (inputs h : list inp) (r : R) : Prop :=
  match r with
  | Go s' => Inv c inputs h s'
  | Stop o => o = Livelock
  end.

Lemma choose_in c s cands : cands <> [] -> In (choose c s cands) cands.
Proof.
  intros Hne. unfold choose.
  destruct (existsb (Nat.eqb (pick c (nenq s))) cands) eqn:E.
  - apply existsb_exists in E. destruct E as [y [Hy E]]. apply Nat.eqb_eq in E. now subst.
  - destruct cands; [congruence|now left].
Qed.

Lemma idle_list_spec c s j :
  In j (idle_list c s) -> (j < n c)%nat /\ ppw (w s j) = [] /\ closed (w s j) = false.
Proof.
  unfold idle_list. rewrite filter_In, in_seq. intros [Hr Hf].
  destruct (ppw (w s j)); [|discriminate]. destruct (closed (w s j)); [discriminate|]. repeat split; lia.
Qed.

Definition redispatch (c : cfg) (fuel' : nat) : nat -> St -> R :=
  fix redispatch (k : nat) (s : St) : R :=
    match k with
    | O => Stop Livelock
    | S k' =>
        match retries s with
        | [] => Go s
        | _ :: _ =>
            match idle_list c s with
            | [] => Go s
            | cands =>
                match te c fuel' s (choose c s cands) with
                | (Go s', _) => redispatch k' s'
                | (Stop o, _) => Stop o
                end
            end
        end
    end.

Lemma hd_S c fuel s i :
  hd_ c (S fuel) s i =
  redispatch c fuel fuel (bury c (drain c (S (length (q (w s i)))) s i) i).
Proof. reflexivity. Qed.

Lemma te_S c fuel s i :
  te c (S fuel) s i =
  match next_inputs s with
  | (None, s1) => (Go s1, false)
  | (Some (x, fr), s1) =>
      if closed (w s1 i) then (Go (handle_unused c s1 x fr), true)
      else if refuse c i x then (Go (handle_unused c (bump s1) x fr), true)
      else if alive (w s1 i) then (Go (handle_enqueue s1 i x), true)
      else
        match hd_ c fuel (bump s1) i with
        | Go s2 => (Go (handle_unused c s2 x fr), true)
        | Stop o => (Stop o, true)
        end
  end.
Proof. reflexivity. Qed.

Lemma redispatch_S c fuel k s :
  redispatch c fuel (S k) s =
  match retries s with
  | [] => Go s
  | _ :: _ =>
      match idle_list c s with
      | [] => Go s
      | cands =>
          match te c fuel s (choose c s cands) with
          | (Go s', _) => redispatch c fuel k s'
          | (Stop o, _) => Stop o
          end
      end
  end.
Proof. reflexivity. Qed.

Lemma bump_w s : w (bump s) = w s.
Proof. reflexivity. Qed.

Lemma te_hd_inv c inputs fuel :
  (forall s i h, (i < n c)%nat -> Inv c inputs h s -> okR c inputs h (fst (te c fuel s i)))
  /\ (forall s i h, (i < n c)%nat -> Inv c inputs h s -> closed (w s i) = false ->
        (alive (w s i) = false \/ ended (w s i) = true) -> okR c inputs h (hd_ c fuel s i)).
Proof.
  induction fuel as [|fuel [IHte IHhd]]; [split; intros; exact eq_refl|].
  split.
  - intros s i h Hi I. rewrite te_S.
    destruct (next_inputs s) as [[[x fr]|] s1] eqn:En.
    2:{ cbn [fst okR]. eapply next_inputs_none; eauto. }
    destruct (next_inputs_some c inputs h s s1 x fr I En) as [I1 Hw].
    destruct (closed (w s1 i)) eqn:Hc.
    { cbn [fst okR]. now apply handle_unused_inv. }
    destruct (refuse c i x).
    { cbn [fst okR]. apply handle_unused_inv. now apply bump_inv. }
    destruct (alive (w s1 i)) eqn:Ha.
    { cbn [fst okR]. now apply handle_enqueue_inv. }
    pose proof (IHhd (bump s1) i (x :: h) Hi (bump_inv _ _ _ _ I1) Hc (or_introl Ha)) as H2.
    destruct (hd_ c fuel (bump s1) i) as [s2|o]; cbn [fst okR] in *.
    + now apply handle_unused_inv.
    + exact H2.
  - intros s i h Hi I Hc Hd. rewrite hd_S.
    destruct (drain_inv c inputs h (S (length (q (w s i)))) s i Hi I Hc (Nat.lt_succ_diag_r _))
      as [I1 [Ho1 [Hc1 [Ha1 [He1 [Hq1 _]]]]]].
    set (s1 := drain c (S (length (q (w s i)))) s i) in *.
    assert (Hd1 : alive (w s1 i) = false \/ ended (w s1 i) = true) by (rewrite Ha1, He1; exact Hd).
    destruct (bury_inv c inputs h s1 i Hi I1 Hc1 Hq1 Hd1) as [I2 _].
    set (s2 := bury c s1 i) in *. clearbody s2. clear - IHte I2.
    revert s2 I2. generalize fuel at 2 as k.
    induction k as [|k IHk]; intros s2 I2; [exact eq_refl|].
    rewrite redispatch_S.
    destruct (retries s2) as [|y r] eqn:Er; [exact I2|].
    destruct (idle_list c s2) as [|j0 cands] eqn:El; [exact I2|].
    assert (Hin : In (choose c s2 (j0 :: cands)) (idle_list c s2)).
    { rewrite El. apply choose_in. discriminate. }
    destruct (idle_list_spec c s2 _ Hin) as [Hj _].
    pose proof (IHte s2 (choose c s2 (j0 :: cands)) h Hj I2) as H3.
    destruct (te c fuel s2 (choose c s2 (j0 :: cands))) as [[s3|o] b]; cbn [fst okR] in H3.
    + apply IHk. exact H3.
    + exact H3.
Qed.

Lemma te_inv c inputs fuel s i h :
  (i < n c)%nat -> Inv c inputs h s -> okR c inputs h (fst (te c fuel s i)).
Proof. intros. now apply (proj1 (te_hd_inv c inputs fuel)). Qed.

Lemma hd_inv c inputs fuel s i h :
  (i < n c)%nat -> Inv c inputs h s -> closed (w s i) = false ->
  (alive (w s i) = false \/ ended (w s i) = true) -> okR c inputs h (hd_ c fuel s i).
Proof. intros. now apply (proj2 (te_hd_inv c inputs fuel)). Qed.

(* ---------- handle_new_result / recv_one / poll ---------- *)
Definition okR' (c : cfg) (inputs : list inp) (r : R) : Prop := okR c inputs [] r.

Lemma setw_inv_flags c inputs h s i v :
  Inv c inputs h s -> ppw v = ppw (w s i) -> WInv c v -> Inv c inputs h (setw s i v).
Proof.
  intros I Hp Wv. destruct I.
  assert (Hs : forall j, ppw (w (setw s i v) j) = ppw (w s j)).
  { intros j. unfold setw. cbn [w]. destruct (Nat.eq_dec j i) as [->|Hne]; now upd_simpl. }
  constructor; auto.
  - intros j. unfold setw. cbn [w]. destruct (Nat.eq_dec j i) as [->|Hne]; upd_simpl; auto.
  - change (pending (setw s i v)) with (pending s). rewrite inv_pending0. f_equal.
    apply sumf_ext. intros. unfold plen. now rewrite Hs.
  - intros z. change (consumed (setw s i v)) with (consumed s).
    change (ret_in (setw s i v)) with (ret_in s). change (retries (setw s i v)) with (retries s).
    change (lost (setw s i v)) with (lost s). rewrite (inv_cons0 z).
    assert (sumf (pcnt z (setw s i v)) (n c) = sumf (pcnt z s) (n c)) as ->; [|reflexivity].
    apply sumf_ext. intros. unfold pcnt. now rewrite Hs.
Qed.

Lemma recv_one_inv c inputs fuel s i :
  Inv c inputs [] s -> recv_one c fuel s i <> Stop (Internal EIndex) /\ okR' c inputs (recv_one c fuel s i).
Proof.
  intros I. unfold recv_one, okR'.
  destruct (Nat.leb_spec (n c) i) as [Hge|Hi]; [split; [discriminate|exact I]|].
  pose proof (inv_w _ _ _ _ I i) as Wi.
  destruct (qpres (w s i)) eqn:Hqp; cbn [negb]; [|split; [discriminate|exact I]].
  destruct (q (w s i)) as [|[x r|] q'] eqn:Hq.
  - (* nothing queued: EOF if the process is gone *)
    destruct (alive (w s i)) eqn:Ha; [split; [discriminate|exact I]|].
    destruct (closed (w s i)) eqn:Hc.
    + match goal with |- context [setw s i ?V] => set (v := V) end.
      assert (Wv : WInv c v).
      { destruct Wi as [Wc Wo Wk Ww Wn We Wp]. rewrite ?Hq, ?Ha, ?Hc in *.
        unfold v. constructor; cbn [ppw closed qpres inbox q alive ended failed]; auto. }
      split; [discriminate|]. apply setw_inv_flags; auto.
    + match goal with |- context [setw s i ?V] => set (v := V) end.
      assert (Wv : WInv c v).
      { destruct Wi as [Wc Wo Wk Ww Wn We Wp]. rewrite ?Hq, ?Ha, ?Hc in *.
        unfold v. constructor; cbn [ppw closed qpres inbox q alive ended failed]; auto. }
      assert (I1 : Inv c inputs [] (setw s i v)) by (apply setw_inv_flags; auto).
      assert (Hc1 : closed (w (setw s i v) i) = false) by (unfold setw; cbn [w]; upd_simpl; reflexivity).
      assert (Hd1 : alive (w (setw s i v) i) = false \/ ended (w (setw s i v) i) = true).
      { left. unfold setw; cbn [w]; upd_simpl. reflexivity. }
      pose proof (hd_inv c inputs fuel _ i [] Hi I1 Hc1 Hd1) as H.
      destruct (hd_ c fuel (setw s i v) i); cbn [okR] in *; split; auto; try discriminate.
      intros E. inversion E. subst. discriminate.
  - (* a result *)
    unfold handle_new_result.
    destruct (closed (w s i)) eqn:Hc.
    { destruct (wi_closed _ _ Wi Hc) as [_ [Hqi _]]. rewrite Hq in Hqi. discriminate. }
    destruct (take_result_inv c inputs [] s i x r q' Hi I Hq Hc) as [s1 [E [I1 [_ [Hc1 _]]]]].
    rewrite E, Hc1.
    pose proof (te_inv c inputs fuel s1 i [] Hi I1) as H.
    destruct (te c fuel s1 i) as [[s2|o] b]; cbn [fst okR] in *; split; auto; try discriminate.
    intros E'. inversion E'. subst. discriminate.
  - (* the end marker *)
    destruct (drop_end_inv c inputs [] s i q' I Hq) as [I1 ->].
    rewrite set_q_w_same. cbn [closed].
    destruct (closed (w s i)) eqn:Hc; [split; [discriminate|exact I1]|].
    assert (Hc1 : closed (w (set_q s i []) i) = false) by (rewrite set_q_w_same; exact Hc).
    assert (Hd1 : alive (w (set_q s i []) i) = false \/ ended (w (set_q s i []) i) = true).
    { right. rewrite set_q_w_same. cbn [ended]. apply (wi_end _ _ Wi). rewrite Hq. now left. }
    pose proof (hd_inv c inputs fuel _ i [] Hi I1 Hc1 Hd1) as H.
    destruct (hd_ c fuel (set_q s i []) i); cbn [okR] in *; split; auto; try discriminate.
    intros E. inversion E. subst. discriminate.
Qed.

Lemma poll_inv c inputs fuel order : forall s,
  Inv c inputs [] s -> poll c fuel s order <> Stop (Internal EIndex) /\ okR' c inputs (poll c fuel s order).
Proof.
  induction order as [|i r IH]; intros s I; [split; [discriminate|exact I]|].
  simpl poll. destruct (recv_one_inv c inputs fuel s i I) as [N H].
  destruct (recv_one c fuel s i) as [s'|o]; [apply IH; exact H|].
  split; [exact N|exact H].
Qed.

(* ---------- environment steps ---------- *)
Lemma env_step_inv c inputs h s o : Inv c inputs h s -> Inv c inputs h (env_step c s o).
Proof.
  intros I. unfold env_step.
  destruct (Nat.leb_spec (n c) (op_wid o)) as [_|Hi]; [exact I|].
  destruct o as [i|i|i|ord]; cbn [op_wid] in Hi; [| | |exact I];
    pose proof (inv_w _ _ _ _ I i) as Wi; destruct Wi as [Wc Wo Wk Ww Wn We Wp].
  - (* Ans *)
    destruct (alive (w s i) && negb (ended (w s i))) eqn:Hg; [|exact I].
    apply andb_prop in Hg. destruct Hg as [Ha He]. apply negb_true_iff in He.
    destruct (inbox (w s i)) as [|x ib] eqn:Hib; [exact I|].
    destruct (Wn He) as [Wr Wf].
    apply setw_inv_flags; auto.
    constructor; cbn [ppw closed qpres inbox q alive ended failed].
    + intros Hc. destruct (Wc Hc) as [_ [_ [A|[A|A]]]]; congruence.
    + intros Hc. rewrite (Wo Hc), Wf, qinputs_app. simpl. now rewrite <- app_assoc.
    + apply Forall_app. split; [exact Wk|]. constructor; [reflexivity|constructor].
    + now apply wf_q_app_res.
    + intros _. split; [|exact Wf]. apply Forall_app. split; [exact Wr|]. constructor; [exact Logic.I|constructor].
    + intros Hin. apply in_app_or in Hin. destruct Hin as [Hin|[Hin|[]]]; [|discriminate].
      rewrite Forall_forall in Wr. elim (Wr _ Hin).
    + intros Hqp. destruct (Wp Hqp). congruence.
  - (* Fail *)
    destruct (alive (w s i) && negb (ended (w s i))) eqn:Hg; [|exact I].
    apply andb_prop in Hg. destruct Hg as [Ha He]. apply negb_true_iff in He.
    destruct (inbox (w s i)) as [|x ib] eqn:Hib; [exact I|].
    destruct (Wn He) as [Wr Wf].
    apply setw_inv_flags; auto.
    constructor; cbn [ppw closed qpres inbox q alive ended failed].
    + intros Hc. destruct (Wc Hc) as [_ [_ [A|[A|A]]]]; congruence.
    + intros Hc. rewrite (Wo Hc), Wf, qinputs_app. simpl. now rewrite app_nil_r.
    + apply Forall_app. split; [exact Wk|]. constructor; [exact Logic.I|constructor].
    + now apply wf_q_app_end.
    + discriminate.
    + reflexivity.
    + intros Hqp. destruct (Wp Hqp). congruence.
  - (* Exit *)
    apply setw_inv_flags; auto.
    constructor; cbn [ppw closed qpres inbox q alive ended failed]; auto.
    + intros Hc. destruct (Wc Hc) as [A [B _]]. auto.
    + intros Hqp. destruct (Wp Hqp). auto.
Qed.

(* ---------- the event loop ---------- *)
Definition good_end (c : cfg) (s : St) (o : outcome) : Prop :=
  o = Blocked \/ o = Livelock \/ o = Internal EOracle \/ o = finish c s.

Lemma main_loop_inv c inputs fuel script : forall s,
  Inv c inputs [] s ->
  let '(o, s') := main_loop c fuel s script in Inv c inputs [] s' /\ good_end c s' o.
Proof.
  induction script as [|o script IH]; intros s I; simpl main_loop.
  - destruct (negb (pending s =? 0) && any_open c s); (split; [exact I|]); unfold good_end; auto.
  - destruct (negb (pending s =? 0) && any_open c s); [|split; [exact I|unfold good_end; auto]].
    destruct o as [i|i|i|order]; try (apply IH; now apply env_step_inv).
    destruct (strict c && negb (exact_ready c s order)); [split; [exact I|unfold good_end; auto]|].
    destruct (existsb (ready s) order); [|split; [exact I|unfold good_end; auto]].
    destruct (poll_inv c inputs fuel order s I) as [N H].
    destruct (poll c fuel s order) as [s'|o']; [apply IH; exact H|].
    split; [exact I|]. cbn [okR' okR] in H. unfold good_end. auto.
Qed.

(* ---------- first_enqueue ---------- *)
Lemma fe_row_inv c inputs fuel ids : forall s,
  (forall i, In i ids -> (i < n c)%nat) -> Inv c inputs [] s ->
  okR' c inputs (fst (fe_row c fuel s ids)).
Proof.
  induction ids as [|i r IH]; intros s Hids I; [exact I|].
  simpl fe_row. destruct (closed (w s i)); [apply IH; auto; intros; apply Hids; now right|].
  pose proof (te_inv c inputs fuel s i [] (Hids i (or_introl eq_refl)) I) as H.
  destruct (te c fuel s i) as [[s'|o] b]; cbn [fst okR] in H.
  - destruct b; [apply IH; auto; intros; apply Hids; now right|exact H].
  - exact H.
Qed.

Lemma first_enqueue_inv c inputs fuel rounds : forall s,
  Inv c inputs [] s -> okR' c inputs (first_enqueue c fuel s rounds).
Proof.
  induction rounds as [|k IH]; intros s I; [exact I|].
  simpl first_enqueue.
  pose proof (fe_row_inv c inputs fuel (seq 0 (n c)) s) as H.
  assert (Hids : forall i, In i (seq 0 (n c)) -> (i < n c)%nat) by (intros i Hi; apply in_seq in Hi; lia).
  specialize (H Hids I).
  destruct (fe_row c fuel s (seq 0 (n c))) as [[s'|o] b]; cbn [fst okR' okR] in H.
  - destruct b; [apply IH; exact H|exact H].
  - exact H.
Qed.

(* ---------- initial states ---------- *)
Definition Clean (v : W) : Prop :=
  ppw v = [] /\ q v = [] /\ inbox v = [] /\ failed v = [] /\ ended v = false /\ (qpres v = false -> alive v = false).

Lemma clean_winv c v : Clean v -> WInv c v.
Proof.
  intros [A [B [C [D [E F]]]]]. constructor; rewrite ?A, ?B, ?C, ?D; simpl; auto;
    try constructor; try (intros []); auto.
Qed.

Lemma env_step_clean c s o : (forall i, Clean (w s i)) -> forall i, Clean (w (env_step c s o) i).
Proof.
  intros H. unfold env_step. destruct (n c <=? op_wid o)%nat; [exact H|].
  destruct o as [j|j|j|ord]; try exact H; intros i.
  - destruct (H j) as [_ [_ [C _]]]. rewrite C. destruct (alive (w s j) && negb (ended (w s j))); apply H.
  - destruct (H j) as [_ [_ [C _]]]. rewrite C. destruct (alive (w s j) && negb (ended (w s j))); apply H.
  - unfold setw. cbn [w]. destruct (Nat.eq_dec i j) as [->|Hne]; upd_simpl; [|apply H].
    destruct (H j) as [A [B [C [D [E F]]]]]. unfold Clean. cbn. repeat split; auto.
Qed.

Lemma pre_clean c pre : forall s, (forall i, Clean (w s i)) -> forall i, Clean (w (fold_left (env_step c) pre s) i).
Proof. induction pre as [|o pre IH]; intros s H; simpl; [exact H|]. apply IH. now apply env_step_clean. Qed.

Lemma reset_inv c s inputs : (forall i, Clean (w s i)) -> Inv c inputs [] (reset c s inputs).
Proof.
  intros H. unfold reset. constructor; cbn [w src depleted pending retries ret nenq ret_in consumed lost].
  - intros i. apply clean_winv. destruct (H i) as [A [B [C [D [E F]]]]]. unfold Clean. cbn. repeat split; auto.
  - rewrite sumf_zero; [reflexivity|]. intros. reflexivity.
  - intros z. rewrite sumf_zero; [reflexivity|]. intros. reflexivity.
  - reflexivity.
  - reflexivity.
  - reflexivity.
  - reflexivity.
  - discriminate.
Qed.

(* ---------- what a run can end with ---------- *)
Lemma run_from_inv c s0 inputs script :
  (forall i, Clean (w s0 i)) ->
  let '(o, s') := run_from c s0 inputs script in
  Inv c inputs [] s' /\ good_end c s' o.
Proof.
  intros Hc. unfold run_from.
  pose proof (first_enqueue_inv c inputs (fuel_of c) (S (extra c)) _ (reset_inv c s0 inputs Hc)) as H.
  destruct (first_enqueue c (fuel_of c) (reset c s0 inputs) (S (extra c))) as [s1|o]; cbn [okR' okR] in H.
  - pose proof (main_loop_inv c inputs (fuel_of c) script s1 H) as M.
    destruct (main_loop c (fuel_of c) s1 script) as [o s']. exact M.
  - split; [now apply reset_inv|]. unfold good_end. auto.
Qed.

Lemma fresh_clean pc i : Clean (w (fresh pc) i).
Proof. unfold fresh, Clean. cbn. repeat split; auto; discriminate. Qed.

(* all pending lists empty when the counter is zero *)
Lemma pending_zero c inputs h s :
  Inv c inputs h s -> pending s = 0 -> forall x, sumf (pcnt x s) (n c) = O.
Proof.
  intros I Hp x. rewrite (inv_pending _ _ _ _ I) in Hp.
  assert (Hz : sumf (plen s) (n c) = O) by lia.
  apply sumf_zero. intros i Hi. pose proof (sumf_zero_inv _ _ Hz i Hi) as Hl.
  unfold plen in Hl. unfold pcnt. destruct (ppw (w s i)); [reflexivity|discriminate].
Qed.

Lemma finish_return c inputs s r :
  Inv c inputs [] s -> finish c s = Return r ->
  return_results c = true /\ r = map (f c) (ret_in s) /\
  forall x, cnt inputs x = (cnt (ret_in s) x + cnt (lost s) x)%nat.
Proof.
  intros I. unfold finish.
  destruct (depleted s) eqn:Hd; [|discriminate].
  destruct (pending s =? 0) eqn:Hp; [|discriminate].
  destruct (retries s) eqn:Hr; [|discriminate]. cbn [andb].
  destruct (return_results c) eqn:Hrr; [|discriminate].
  intros E. inversion E. subst. split; [reflexivity|]. split; [apply (inv_ret _ _ _ _ I Hrr)|].
  intros x. pose proof (inv_cons _ _ _ _ I x) as C. rewrite Hr in C.
  rewrite (pending_zero c inputs [] s I) in C by lia.
  rewrite <- (inv_src _ _ _ _ I), (inv_dep _ _ _ _ I Hd), app_nil_r. simpl in C. lia.
Qed.

(* ---------- the theorems about [run] ---------- *)
Lemma run_cases c pc pre inputs script :
  let o := run c pc pre inputs script in
  exists s', Inv c inputs [] s' /\ good_end c s' o.
Proof.
  cbn zeta. unfold run.
  pose proof (run_from_inv c (fold_left (env_step c) pre (fresh pc)) inputs script
                (pre_clean c pre _ (fresh_clean pc))) as H.
  destruct (run_from c (fold_left (env_step c) pre (fresh pc)) inputs script) as [o s'].
  cbn [fst]. eauto.
Qed.

Lemma finish_cases c s :
  (exists r, finish c s = Return r) \/ finish c s = ReturnUnit \/ (exists p, finish c s = PoolErr p).
Proof. unfold finish. destruct (_ && _ && _); [destruct (return_results c)|]; eauto. Qed.

Theorem run_no_internal_error c pc pre inputs script :
  run c pc pre inputs script <> Internal EIndex.
Proof.
  destruct (run_cases c pc pre inputs script) as [s' [I [E|[E|[E|E]]]]]; rewrite E; try discriminate.
  destruct (finish_cases c s') as [[r ->]|[->|[p ->]]]; discriminate.
Qed.

(* the oracle-mismatch outcome exists only in the strict (correspondence) mode *)
Lemma te_hd_no_oracle c fuel : forall s i,
  fst (te c fuel s i) <> Stop (Internal EOracle) /\ hd_ c fuel s i <> Stop (Internal EOracle).
Proof.
  induction fuel as [|fuel IHf]; intros s i; [split; discriminate|]. split.
  - rewrite te_S. destruct (next_inputs s) as [[[x fr]|] sx]; [|discriminate].
    destruct (closed (w sx i)); [discriminate|]. destruct (refuse c i x); [discriminate|].
    destruct (alive (w sx i)); [discriminate|].
    destruct (IHf (bump sx) i) as [_ H]. destruct (hd_ c fuel (bump sx) i); [discriminate|].
    cbn [fst]. congruence.
  - rewrite hd_S. generalize (bury c (drain c (S (length (q (w s i)))) s i) i) as sb.
    generalize fuel at 2 as k. induction k as [|k IHk]; intros sb; [discriminate|].
    rewrite redispatch_S. destruct (retries sb); [discriminate|].
    destruct (idle_list c sb) as [|j0 cs]; [discriminate|].
    destruct (IHf sb (choose c sb (j0 :: cs))) as [H _].
    destruct (te c fuel sb (choose c sb (j0 :: cs))) as [[sg|og] b]; [apply IHk|].
    cbn [fst] in H. congruence.
Qed.

Lemma recv_one_no_oracle c fuel s i : recv_one c fuel s i <> Stop (Internal EOracle).
Proof.
  unfold recv_one.
  destruct (n c <=? i)%nat; [discriminate|]. destruct (negb (qpres (w s i))); [discriminate|].
  destruct (q (w s i)) as [|[x r0|] q'].
  - destruct (alive (w s i)); [discriminate|]. destruct (closed (w s i)); [discriminate|].
    apply (proj2 (te_hd_no_oracle c fuel _ _)).
  - unfold handle_new_result. destruct (take_result c (set_q s i q') i r0) as [sr|]; [|discriminate].
    destruct (closed (w sr i)); [discriminate|]. apply (proj1 (te_hd_no_oracle c fuel _ _)).
  - destruct (closed (w (set_q s i q') i)); [discriminate|]. apply (proj2 (te_hd_no_oracle c fuel _ _)).
Qed.

Lemma poll_no_oracle c fuel order : forall s, poll c fuel s order <> Stop (Internal EOracle).
Proof.
  induction order as [|i r IH]; intros s; [discriminate|]. simpl.
  pose proof (recv_one_no_oracle c fuel s i) as H.
  destruct (recv_one c fuel s i); [apply IH|exact H].
Qed.

Lemma finish_no_internal c s e : finish c s <> Internal e.
Proof. destruct (finish_cases c s) as [[r ->]|[->|[p ->]]]; discriminate. Qed.

Lemma main_loop_no_oracle c fuel script : forall s,
  strict c = false -> fst (main_loop c fuel s script) <> Internal EOracle.
Proof.
  induction script as [|o script IH]; intros s Hs; simpl main_loop.
  - destruct (_ && _); cbn [fst]; [discriminate|apply finish_no_internal].
  - destruct (negb (pending s =? 0) && any_open c s); [|cbn [fst]; apply finish_no_internal].
    destruct o as [i|i|i|order]; try (apply IH; exact Hs).
    rewrite Hs. cbn [andb].
    destruct (existsb (ready s) order); [|discriminate].
    pose proof (poll_no_oracle c fuel order s) as H.
    destruct (poll c fuel s order) as [s'|o']; [apply IH; exact Hs|].
    cbn [fst]. congruence.
Qed.

Theorem run_oracle_only_when_strict c pc pre inputs script :
  strict c = false -> run c pc pre inputs script <> Internal EOracle.
Proof.
  intros Hs. unfold run, run_from.
  destruct (first_enqueue c (fuel_of c) _ (S (extra c))) as [s1|o] eqn:E.
  - now apply main_loop_no_oracle.
  - cbn [fst]. intros ->.
    pose proof (first_enqueue_inv c inputs (fuel_of c) (S (extra c)) _
                  (reset_inv c _ inputs (pre_clean c pre _ (fresh_clean pc)))) as H.
    rewrite E in H. cbn [okR' okR] in H. discriminate.
Qed.

Theorem run_return_exactly_once c pc pre inputs script r :
  retry c = true -> run c pc pre inputs script = Return r -> Permutation r (map (f c) inputs).
Proof.
  intros Hr E.
  destruct (run_cases c pc pre inputs script) as [s' [I [E'|[E'|[E'|E']]]]]; rewrite E in E'; try discriminate.
  symmetry in E'. destruct (finish_return c inputs s' r I E') as [_ [-> C]].
  apply Permutation_map. apply Permutation_sym. rewrite (Permutation_count_occ Z.eq_dec).
  intros x. rewrite (C x), (inv_lost _ _ _ _ I Hr). simpl. lia.
Qed.

(* C08: whatever is reported is genuine *)
Theorem run_partial_genuine c pc pre inputs script p :
  run c pc pre inputs script = PoolErr p ->
  exists l, p = (if return_results c then map (f c) l else []) /\ forall x, (cnt l x <= cnt inputs x)%nat.
Proof.
  intros E.
  destruct (run_cases c pc pre inputs script) as [s' [I [E'|[E'|[E'|E']]]]]; rewrite E in E'; try discriminate.
  unfold finish in E'. destruct (_ && _ && _); [destruct (return_results c); discriminate|].
  inversion E'. subst. exists (ret_in s'). split.
  - destruct (return_results c) eqn:Hr; [apply (inv_ret _ _ _ _ I Hr)|apply (inv_ret_off _ _ _ _ I Hr)].
  - intros x. pose proof (inv_cons _ _ _ _ I x) as C. rewrite <- (inv_src _ _ _ _ I), cnt_app. lia.
Qed.

Theorem run_return_no_retry c pc pre inputs script r :
  run c pc pre inputs script = Return r ->
  exists l lost_, r = map (f c) l /\ forall x, cnt inputs x = (cnt l x + cnt lost_ x)%nat.
Proof.
  intros E.
  destruct (run_cases c pc pre inputs script) as [s' [I [E'|[E'|[E'|E']]]]]; rewrite E in E'; try discriminate.
  symmetry in E'. destruct (finish_return c inputs s' r I E') as [_ [-> C]]. eauto.
Qed.
