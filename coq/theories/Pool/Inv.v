From PW Require Import Pool.Model.
