(* C08: PoolError is raised only when no worker is left.  Invariant J of the event loop: while there is still work
   to hand out (a retry is queued or the source is not known to be depleted) no open worker sits idle.  *)
From PW Require Import Pool.Model Pool.Inv Pool.Rounds.
Open Scope Z_scope.
Notation Rounds_main_loop_exit := main_loop_exit.

Definition Busy (s : St) (j : wid) : Prop := closed (w s j) = true \/ ppw (w s j) <> [].
Definition Work (s : St) : Prop := retries s <> [] \/ depleted s = false.
Definition D (s : St) : Prop := depleted s = true -> src s = [].
Definition J (c : cfg) (s : St) : Prop := Work s -> forall j, (j < n c)%nat -> Busy s j.
Definition Quiescent (s : St) : Prop := depleted s = true /\ retries s = [].
Definition norefuse (c : cfg) : Prop := forall i x, refuse c i x = false.

Record Mono (s s' : St) : Prop := {
  m_busy : forall j, Busy s j -> Busy s' j;
  m_closed : forall j, closed (w s j) = true -> closed (w s' j) = true;
  m_dep : depleted s = true -> depleted s' = true;
  m_D : D s -> D s'
}.

Lemma mono_refl s : Mono s s.
Proof. constructor; auto. Qed.

Lemma mono_trans a b c : Mono a b -> Mono b c -> Mono a c.
Proof. intros [A1 A2 A3 A4] [B1 B2 B3 B4]. constructor; auto. Qed.

Lemma quiescent_J c s : Quiescent s -> J c s.
Proof. intros [A B] [W|W]; congruence. Qed.

(* ---------- primitives ---------- *)
Lemma next_inputs_cases s :
  match next_inputs s with
  | (None, s1) => Quiescent s1 /\ w s1 = w s /\ (D s -> D s1)
  | (Some _, s1) => w s1 = w s /\ depleted s1 = depleted s /\ (D s -> D s1) /\ (D s -> Work s)
  end.
Proof.
  unfold next_inputs. destruct (retries s) as [|x r] eqn:Er.
  - destruct (depleted s) eqn:Ed.
    + repeat split; auto.
    + destruct (src s) as [|x r] eqn:Es; cbn.
      * repeat split; auto.
      * repeat split; auto. { intros Dd X. cbn in *. congruence. } intros _. right. exact Ed.
  - cbn. repeat split; auto. intros _. left. rewrite Er. discriminate.
Qed.

Lemma handle_unused_mono c s x fr : Mono s (handle_unused c s x fr).
Proof. unfold handle_unused. destruct (retry c); constructor; cbn; auto. Qed.

Lemma bump_mono s : Mono s (bump s).
Proof. constructor; cbn; auto. Qed.

Lemma handle_enqueue_mono s i x : Mono s (handle_enqueue s i x).
Proof.
  constructor; cbn; auto.
  - intros j [Hc|Hp]; unfold Busy; cbn; destruct (Nat.eq_dec j i) as [->|Hne]; upd_simpl; cbn; auto.
    right. destruct (ppw (w s i)); discriminate.
  - intros j Hc. destruct (Nat.eq_dec j i) as [->|Hne]; upd_simpl; cbn; auto.
Qed.

Lemma handle_enqueue_busy s i x : Busy (handle_enqueue s i x) i.
Proof. right. cbn. upd_simpl. cbn. destruct (ppw (w s i)); discriminate. Qed.

(* drain only touches worker i and never closes or opens anybody *)
Lemma drain_frame c k : forall s i,
  let s' := drain c k s i in
  (forall j, j <> i -> w s' j = w s j) /\ closed (w s' i) = closed (w s i)
  /\ retries s' = retries s /\ depleted s' = depleted s /\ src s' = src s.
Proof.
  induction k as [|k IH]; intros s i; cbn zeta; simpl drain; [repeat split; auto|].
  destruct (negb (qpres (w s i))); [repeat split; auto|].
  destruct (ppw (w s i)) as [|p0 pr] eqn:Hp; [repeat split; auto|].
  destruct (q (w s i)) as [|[x r|] q'] eqn:Hq; [repeat split; auto| |].
  - unfold take_result. rewrite set_q_w_same. cbn [ppw]. rewrite Hp.
    match goal with |- context [drain c k ?S i] => set (s1 := S) end.
    destruct (IH s1 i) as [A [B [C [E F]]]]. cbn zeta in *.
    assert (W1 : forall j, j <> i -> w s1 j = w s j).
    { intros j Hj. unfold s1. cbn [w]. upd_simpl. now apply set_q_w_other. }
    repeat split.
    + intros j Hj. rewrite A, W1 by auto. reflexivity.
    + rewrite B. unfold s1. cbn [w]. upd_simpl. cbn. reflexivity.
    + rewrite C. reflexivity.
    + rewrite E. reflexivity.
    + rewrite F. reflexivity.
  - repeat split; auto.
    + intros j Hj. now apply set_q_w_other.
    + rewrite set_q_w_same. reflexivity.
Qed.

Lemma bury_facts c s i :
  let s' := bury c s i in
  (forall j, j <> i -> w s' j = w s j) /\ closed (w s' i) = true /\ depleted s' = depleted s /\ src s' = src s
  /\ (retries s <> [] -> retries s' <> []).
Proof.
  cbn zeta. unfold bury. cbn. repeat split; auto.
  - intros j Hj. upd_simpl. reflexivity.
  - upd_simpl. reflexivity.
  - destruct (retry c); auto. intros H X. apply app_eq_nil in X. tauto.
Qed.

Lemma drain_bury_mono c k s i :
  let s' := bury c (drain c k s i) i in Mono s s' /\ closed (w s' i) = true.
Proof.
  cbn zeta. destruct (drain_frame c k s i) as [A [B [C [E F]]]]. cbn zeta in *.
  destruct (bury_facts c (drain c k s i) i) as [A' [B' [E' [F' _]]]]. cbn zeta in *.
  split; [|exact B']. constructor.
  - intros j Hb. destruct (Nat.eq_dec j i) as [->|Hne]; [left; exact B'|].
    unfold Busy in *. rewrite A', A by auto. exact Hb.
  - intros j Hc. destruct (Nat.eq_dec j i) as [->|Hne]; [exact B'|]. rewrite A', A by auto. exact Hc.
  - congruence.
  - unfold D. rewrite E', F', E, F. auto.
Qed.

(* ---------- te / hd_ : monotone, and what their results tell ---------- *)
Definition okM (s : St) (r : R) : Prop := match r with Go s' => Mono s s' | Stop _ => True end.

Lemma redispatch_mono c fuel
  (IHte : forall s i, okM s (fst (te c fuel s i))) : forall k s, okM s (redispatch c fuel k s).
Proof.
  induction k as [|k IH]; intros s; [exact I|]. rewrite redispatch_S.
  destruct (retries s); [apply mono_refl|]. destruct (idle_list c s) as [|j0 cands]; [apply mono_refl|].
  pose proof (IHte s (choose c s (j0 :: cands))) as H.
  destruct (te c fuel s (choose c s (j0 :: cands))) as [[s'|o] b]; cbn [fst okM] in *; [|exact I].
  specialize (IH s'). destruct (redispatch c fuel k s'); cbn [okM] in *; [|exact I]. eapply mono_trans; eauto.
Qed.

Lemma te_hd_mono c fuel :
  (forall s i, okM s (fst (te c fuel s i))) /\ (forall s i, okM s (hd_ c fuel s i)).
Proof.
  induction fuel as [|fuel [IHte IHhd]]; [split; intros; exact I|]. split.
  - intros s i. rewrite te_S. pose proof (next_inputs_cases s) as N.
    destruct (next_inputs s) as [[[x fr]|] s1].
    2:{ cbn. destruct N as [[Q1 Q2] [Hw Hd]]. constructor; unfold Busy; rewrite ?Hw; auto. }
    destruct N as [Hw [Hdep [HD _]]].
    assert (M1 : Mono s s1) by (constructor; unfold Busy; rewrite ?Hw; auto; congruence).
    destruct (closed (w s1 i)); [cbn; eapply mono_trans; [exact M1|apply handle_unused_mono]|].
    destruct (refuse c i x); [cbn; eapply mono_trans; [exact M1|]; eapply mono_trans; [apply bump_mono|apply handle_unused_mono]|].
    destruct (alive (w s1 i)); [cbn; eapply mono_trans; [exact M1|apply handle_enqueue_mono]|].
    pose proof (IHhd (bump s1) i) as H. destruct (hd_ c fuel (bump s1) i) as [s2|o]; cbn [fst okM] in *; [|exact I].
    eapply mono_trans; [exact M1|]. eapply mono_trans; [apply bump_mono|]. eapply mono_trans; [exact H|apply handle_unused_mono].
  - intros s i. rewrite hd_S.
    destruct (drain_bury_mono c (S (length (q (w s i)))) s i) as [M _]. cbn zeta in M.
    pose proof (redispatch_mono c fuel IHte fuel (bury c (drain c (S (length (q (w s i)))) s i) i)) as H.
    destruct (redispatch c fuel fuel _); cbn [okM] in *; [|exact I]. eapply mono_trans; eauto.
Qed.

Lemma idle_list_nil c s : idle_list c s = [] -> forall j, (j < n c)%nat -> Busy s j.
Proof.
  unfold idle_list. intros H j Hj.
  assert (X : ~ In j (filter (fun j => match ppw (w s j) with [] => negb (closed (w s j)) | _ => false end) (seq 0 (n c)))) by (rewrite H; auto).
  rewrite filter_In in X. unfold Busy.
  destruct (ppw (w s j)) eqn:Hp; [|right; discriminate].
  destruct (closed (w s j)) eqn:Hc; [left; reflexivity|]. exfalso. apply X. split; [apply in_seq; lia|reflexivity].
Qed.

(* the re-dispatch loop ends only when nothing is queued for retry any more or nobody is idle *)
Lemma redispatch_exit c fuel : forall k s s', redispatch c fuel k s = Go s' ->
  retries s' = [] \/ idle_list c s' = [].
Proof.
  induction k as [|k IH]; intros s s' E; [discriminate|]. rewrite redispatch_S in E.
  destruct (retries s) eqn:Er; [inversion E; subst; auto|].
  destruct (idle_list c s) as [|j0 cands] eqn:Ei; [inversion E; subst; auto|].
  destruct (te c fuel s (choose c s (j0 :: cands))) as [[s1|o] b]; [eauto|discriminate].
Qed.

(* handle_death at the top level of the event loop keeps J *)
Lemma hd_J c fuel s i s' :
  J c s -> hd_ c fuel s i = Go s' -> J c s' /\ Mono s s'.
Proof.
  intros Jn E. destruct fuel as [|fuel]; [discriminate|]. rewrite hd_S in E.
  destruct (drain_bury_mono c (S (length (q (w s i)))) s i) as [M Hc]. cbn zeta in *.
  set (s2 := bury c (drain c (S (length (q (w s i)))) s i) i) in *.
  pose proof (redispatch_mono c fuel (proj1 (te_hd_mono c fuel)) fuel s2) as M2. rewrite E in M2. cbn [okM] in M2.
  split; [|eapply mono_trans; eauto].
  destruct (redispatch_exit c fuel fuel s2 s' E) as [Hr|Hi].
  - intros [W|W]; [congruence|]. intros j Hj.
    assert (Hd : depleted s = false).
    { destruct (depleted s) eqn:X; [|reflexivity]. rewrite (m_dep _ _ M2 (m_dep _ _ M X)) in W. discriminate. }
    apply (m_busy _ _ M2), (m_busy _ _ M). apply Jn; [right; exact Hd|exact Hj].
  - intros _. now apply idle_list_nil.
Qed.

(* try_enqueue at the top level: everybody but i is busy whenever there is work; afterwards J holds *)
Lemma te_J c fuel s i s' b :
  norefuse c -> D s -> (Work s -> forall j, (j < n c)%nat -> j <> i -> Busy s j) -> (i < n c)%nat ->
  te c fuel s i = (Go s', b) ->
  J c s' /\ Mono s s' /\ (b = true -> Busy s' i) /\ (b = false -> Quiescent s').
Proof.
  intros NR Dd Jn Hi E. pose proof (proj1 (te_hd_mono c fuel) s i) as M. rewrite E in M. cbn [fst okM] in M.
  destruct fuel as [|fuel]; [discriminate|]. rewrite te_S in E.
  pose proof (next_inputs_cases s) as N. destruct (next_inputs s) as [[[x fr]|] s1].
  2:{ inversion E; subst. destruct N as [Q _]. split; [now apply quiescent_J|]. split; [exact M|]. split; [discriminate|]. intros _. exact Q. }
  destruct N as [Hw [Hdep [HD HW]]]. specialize (HW Dd). specialize (Jn HW).
  assert (B1 : forall j, (j < n c)%nat -> j <> i -> Busy s1 j) by (intros; unfold Busy; rewrite Hw; now apply Jn).
  assert (AllJ : forall t, (forall j, (j < n c)%nat -> Busy t j) -> J c t) by (intros t H _; exact H).
  destruct (closed (w s1 i)) eqn:Hc.
  { inversion E; subst. split; [|split; [exact M|split; [|discriminate]]].
    - apply AllJ. intros j Hj. apply (m_busy _ _ (handle_unused_mono c s1 x fr)).
      destruct (Nat.eq_dec j i) as [->|Hne]; [left; exact Hc|now apply B1].
    - intros _. apply (m_busy _ _ (handle_unused_mono c s1 x fr)). left; exact Hc. }
  rewrite NR in E.
  destruct (alive (w s1 i)).
  { inversion E; subst. split; [|split; [exact M|split; [|discriminate]]].
    - apply AllJ. intros j Hj. destruct (Nat.eq_dec j i) as [->|Hne]; [apply handle_enqueue_busy|].
      apply (m_busy _ _ (handle_enqueue_mono s1 i x)). now apply B1.
    - intros _. apply handle_enqueue_busy. }
  destruct (hd_ c fuel (bump s1) i) as [s2|o] eqn:Eh; [|discriminate]. inversion E; subst.
  pose proof (proj2 (te_hd_mono c fuel) (bump s1) i) as M2. rewrite Eh in M2. cbn [okM] in M2.
  assert (Hci : closed (w s2 i) = true).
  { destruct fuel as [|f2]; [discriminate|]. rewrite hd_S in Eh.
    destruct (drain_bury_mono c (S (length (q (w (bump s1) i)))) (bump s1) i) as [_ Hcl]. cbn zeta in Hcl.
    pose proof (redispatch_mono c f2 (proj1 (te_hd_mono c f2)) f2
                  (bury c (drain c (S (length (q (w (bump s1) i)))) (bump s1) i) i)) as M3.
    rewrite Eh in M3. cbn [okM] in M3. exact (m_closed _ _ M3 i Hcl). }
  split; [|split; [exact M|split; [|discriminate]]].
  - apply AllJ. intros j Hj. apply (m_busy _ _ (handle_unused_mono c s2 x fr)).
    destruct (Nat.eq_dec j i) as [->|Hne]; [left; exact Hci|].
    apply (m_busy _ _ M2), (m_busy _ _ (bump_mono s1)). now apply B1.
  - intros _. apply (m_busy _ _ (handle_unused_mono c s2 x fr)). left; exact Hci.
Qed.

(* ---------- the event loop keeps J ---------- *)
Definition okJ (c : cfg) (r : R) : Prop :=
  match r with Go s' => J c s' /\ D s' | Stop _ => True end.

Lemma handle_new_result_J c fuel s i r :
  norefuse c -> D s -> J c s -> (i < n c)%nat -> okJ c (handle_new_result c fuel s i r).
Proof.
  intros NR Dd Jn Hi. unfold handle_new_result, take_result.
  destruct (ppw (w s i)) as [|x p'] eqn:Hp; [exact I|].
  match goal with |- context [closed (w ?S i)] => set (s1 := S) end.
  assert (Hw : forall j, j <> i -> w s1 j = w s j) by (intros j Hj; unfold s1; cbn [w]; upd_simpl; reflexivity).
  assert (Hci : closed (w s1 i) = closed (w s i)) by (unfold s1; cbn [w]; upd_simpl; reflexivity).
  assert (D1 : D s1) by exact Dd.
  assert (O1 : Work s1 -> forall j, (j < n c)%nat -> j <> i -> Busy s1 j).
  { intros W j Hj Hne. unfold Busy. rewrite Hw by auto. apply Jn; [exact W|exact Hj]. }
  destruct (closed (w s1 i)) eqn:Hc.
  - cbn. split; [|exact D1]. intros W j Hj. destruct (Nat.eq_dec j i) as [->|Hne]; [left; exact Hc|now apply O1].
  - destruct (te c fuel s1 i) as [[s2|o] b] eqn:E; cbn [fst okJ]; [|exact I].
    destruct (te_J c fuel s1 i s2 b NR D1 O1 Hi E) as [J2 [M2 _]]. split; [exact J2|exact (m_D _ _ M2 D1)].
Qed.

Lemma hd_okJ c fuel s i : D s -> J c s -> okJ c (hd_ c fuel s i).
Proof.
  intros Dd Jn. destruct (hd_ c fuel s i) as [s'|o] eqn:E; cbn [okJ]; [|exact I].
  destruct (hd_J c fuel s i s' Jn E) as [J' M]. split; [exact J'|exact (m_D _ _ M Dd)].
Qed.

Lemma same_pool_fields_J c s s' :
  (forall j, ppw (w s' j) = ppw (w s j)) -> (forall j, closed (w s' j) = closed (w s j)) ->
  retries s' = retries s -> depleted s' = depleted s -> src s' = src s ->
  (J c s -> J c s') /\ (D s -> D s').
Proof.
  intros Hp Hc Hr Hd Hs. split.
  - intros Jn [W|W] j Hj; unfold Busy; rewrite Hp, Hc; apply Jn; auto; [left|right]; congruence.
  - unfold D. rewrite Hd, Hs. auto.
Qed.

Lemma set_q_J c s i q' : (J c s -> J c (set_q s i q')) /\ (D s -> D (set_q s i q')).
Proof.
  apply same_pool_fields_J; auto; intros j; destruct (Nat.eq_dec j i) as [->|Hne];
    rewrite ?set_q_w_same, ?set_q_w_other by auto; reflexivity.
Qed.

Lemma setw_J c s i v :
  ppw v = ppw (w s i) -> closed v = closed (w s i) -> (J c s -> J c (setw s i v)) /\ (D s -> D (setw s i v)).
Proof.
  intros Hp Hc. apply same_pool_fields_J; auto; intros j; unfold setw; cbn [w];
    destruct (Nat.eq_dec j i) as [->|Hne]; upd_simpl; auto.
Qed.

Lemma recv_one_J c fuel s i : norefuse c -> D s -> J c s -> okJ c (recv_one c fuel s i).
Proof.
  intros NR Dd Jn. unfold recv_one.
  destruct (Nat.leb_spec (n c) i) as [Hge|Hi]; [split; assumption|].
  destruct (qpres (w s i)); cbn [negb]; [|split; assumption].
  destruct (q (w s i)) as [|[x r|] q'] eqn:Hq.
  - destruct (alive (w s i)); [split; assumption|].
    match goal with |- context [setw s i ?V] => set (v := V) end.
    destruct (setw_J c s i v eq_refl eq_refl) as [A B].
    destruct (closed (w s i)); [split; auto|]. apply hd_okJ; auto.
  - destruct (set_q_J c s i q') as [A B]. apply handle_new_result_J; auto.
  - destruct (set_q_J c s i q') as [A B].
    destruct (closed (w (set_q s i q') i)); [split; auto|]. apply hd_okJ; auto.
Qed.

Lemma poll_J c fuel order : forall s, norefuse c -> D s -> J c s -> okJ c (poll c fuel s order).
Proof.
  induction order as [|i r IH]; intros s NR Dd Jn; [split; assumption|]. simpl poll.
  pose proof (recv_one_J c fuel s i NR Dd Jn) as H.
  destruct (recv_one c fuel s i) as [s'|o]; cbn [okJ] in *; [|exact I]. destruct H. now apply IH.
Qed.

Lemma env_step_J c s o : (J c s -> J c (env_step c s o)) /\ (D s -> D (env_step c s o)).
Proof.
  unfold env_step. destruct (n c <=? op_wid o)%nat; [auto|].
  destruct o as [j|j|j|ord]; try (split; auto; fail).
  - destruct (alive (w s j) && negb (ended (w s j))); [|auto]. destruct (inbox (w s j)); [auto|].
    apply setw_J; reflexivity.
  - destruct (alive (w s j) && negb (ended (w s j))); [|auto]. destruct (inbox (w s j)); [auto|].
    apply setw_J; reflexivity.
  - apply setw_J; reflexivity.
Qed.

Lemma main_loop_J c fuel script : forall s, norefuse c -> D s -> J c s ->
  J c (snd (main_loop c fuel s script)).
Proof.
  induction script as [|o script IH]; intros s NR Dd Jn; simpl main_loop.
  - destruct (negb (pending s =? 0) && any_open c s); exact Jn.
  - destruct (negb (pending s =? 0) && any_open c s); [|exact Jn].
    destruct o as [i|i|i|order]; try (destruct (env_step_J c s (Ans i)), (env_step_J c s (Fail i)), (env_step_J c s (Exit i)); apply IH; auto; fail).
    destruct (strict c && negb (exact_ready c s order)); [exact Jn|].
    destruct (existsb (ready s) order); [|exact Jn].
    pose proof (poll_J c fuel order s NR Dd Jn) as H.
    destruct (poll c fuel s order) as [s'|o']; cbn [okJ snd] in *; [|exact Jn]. destruct H. now apply IH.
Qed.

(* ---------- first_enqueue establishes J ---------- *)
Lemma fe_row_J c fuel : forall ids s s' b,
  norefuse c -> D s -> (forall j, In j ids -> (j < n c)%nat) ->
  fe_row c fuel s ids = (Go s', b) ->
  Mono s s' /\ (b = true -> forall j, In j ids -> Busy s' j) /\ (b = false -> Quiescent s').
Proof.
  induction ids as [|i r IH]; intros s s' b NR Dd Hids E; simpl fe_row in E.
  - inversion E; subst. split; [apply mono_refl|]. split; [intros _ j []|discriminate].
  - destruct (closed (w s i)) eqn:Hc.
    + destruct (IH s s' b NR Dd (fun j H => Hids j (or_intror H)) E) as [M [B Q]].
      split; [exact M|]. split; [|exact Q]. intros Hb j [<-|Hj]; [apply (m_busy _ _ M); left; exact Hc|now apply B].
    + destruct (te c fuel s i) as [[s1|o] b1] eqn:Et; [|discriminate].
      (* inside first_enqueue nobody has been served a result yet: te is used through its monotonicity only *)
      pose proof (proj1 (te_hd_mono c fuel) s i) as M1. rewrite Et in M1. cbn [fst okM] in M1.
      assert (T : (b1 = true -> Busy s1 i) /\ (b1 = false -> Quiescent s1)).
      { clear IH E. destruct fuel as [|f]; [discriminate|]. rewrite te_S in Et.
        pose proof (next_inputs_cases s) as N. destruct (next_inputs s) as [[[x fr]|] s0].
        2:{ inversion Et; subst. split; [discriminate|]. intros _. apply N. }
        destruct N as [Hw _].
        destruct (closed (w s0 i)) eqn:Hc0.
        { inversion Et; subst. split; [|discriminate]. intros _. apply (m_busy _ _ (handle_unused_mono c s0 x fr)). left; exact Hc0. }
        rewrite NR in Et. destruct (alive (w s0 i)).
        { inversion Et; subst. split; [|discriminate]. intros _. apply handle_enqueue_busy. }
        destruct (hd_ c f (bump s0) i) as [s2|o] eqn:Eh; [|discriminate]. inversion Et; subst.
        split; [|discriminate]. intros _. apply (m_busy _ _ (handle_unused_mono c s2 x fr)). left.
        destruct f as [|f2]; [discriminate|]. rewrite hd_S in Eh.
        destruct (drain_bury_mono c (S (length (q (w (bump s0) i)))) (bump s0) i) as [_ Hcl]. cbn zeta in Hcl.
        pose proof (redispatch_mono c f2 (proj1 (te_hd_mono c f2)) f2
                      (bury c (drain c (S (length (q (w (bump s0) i)))) (bump s0) i) i)) as M3.
        rewrite Eh in M3. cbn [okM] in M3. exact (m_closed _ _ M3 i Hcl). }
      destruct b1.
      * destruct (IH s1 s' b NR (m_D _ _ M1 Dd) (fun j H => Hids j (or_intror H)) E) as [M [B Q]].
        split; [eapply mono_trans; eauto|]. split; [|exact Q].
        intros Hb j [<-|Hj]; [apply (m_busy _ _ M); apply T; reflexivity|now apply B].
      * inversion E; subst. split; [exact M1|]. split; [discriminate|]. intros _. apply T. reflexivity.
Qed.

Lemma first_enqueue_J c fuel : forall rounds s s',
  norefuse c -> D s -> (rounds <> O \/ J c s) ->
  first_enqueue c fuel s rounds = Go s' -> J c s' /\ D s'.
Proof.
  induction rounds as [|k IH]; intros s s' NR Dd Hr E; simpl first_enqueue in E.
  - inversion E; subst. destruct Hr as [H|H]; [congruence|auto].
  - destruct (fe_row c fuel s (seq 0 (n c))) as [[s1|o] b] eqn:Er; [|discriminate].
    assert (Hids : forall j, In j (seq 0 (n c)) -> (j < n c)%nat) by (intros j Hj; apply in_seq in Hj; lia).
    destruct (fe_row_J c fuel (seq 0 (n c)) s s1 b NR Dd Hids Er) as [M [B Q]].
    destruct b.
    + apply (IH s1 s' NR (m_D _ _ M Dd)); [|exact E]. right. intros _ j Hj. apply B; [reflexivity|apply in_seq; lia].
    + inversion E; subst. split; [apply quiescent_J; now apply Q|exact (m_D _ _ M Dd)].
Qed.

(* ---------- the theorem ---------- *)
Lemma reset_D c s inputs : D (reset c s inputs).
Proof. unfold D, reset. cbn. discriminate. Qed.

Theorem run_from_poolerr_no_open_worker c s0 inputs script p s' :
  norefuse c -> (forall i, Clean (w s0 i)) ->
  run_from c s0 inputs script = (PoolErr p, s') -> any_open c s' = false.
Proof.
  intros NR Hc E. pose proof (run_from_inv c s0 inputs script Hc) as RI. rewrite E in RI.
  destruct RI as [Iv G].
  unfold run_from in E.
  destruct (first_enqueue c (fuel_of c) (reset c s0 inputs) (S (extra c))) as [s1|o] eqn:Ef.
  2:{ pose proof (first_enqueue_inv c inputs (fuel_of c) (S (extra c)) _ (reset_inv c s0 inputs Hc)) as H.
      rewrite Ef in H. cbn in H. inversion E; subst. discriminate. }
  destruct (first_enqueue_J c (fuel_of c) (S (extra c)) _ s1 NR (reset_D c s0 inputs) (or_introl (Nat.neq_succ_0 _)) Ef) as [J1 D1].
  pose proof (main_loop_J c (fuel_of c) script s1 NR D1 J1) as J2. rewrite E in J2. cbn [snd] in J2.
  pose proof (first_enqueue_inv c inputs (fuel_of c) (S (extra c)) _ (reset_inv c s0 inputs Hc)) as I1.
  rewrite Ef in I1. cbn [okR' okR] in I1.
  pose proof (Rounds_main_loop_exit c inputs (fuel_of c) script s1 I1) as X. rewrite E in X. specialize (X eq_refl).
  destruct (any_open c s') eqn:Ao; [|reflexivity]. exfalso.
  rewrite Bool.andb_true_r in X. apply Bool.negb_false_iff in X. apply Z.eqb_eq in X.
  (* some worker is open and nothing is pending: it is idle, so by J there is no work left - run would have returned *)
  destruct G as [G|[G|[G|G]]]; try discriminate.
  unfold finish in G. rewrite X in G. cbn in G.
  assert (W : Work s').
  { destruct (depleted s') eqn:Hd; [|right; exact Hd]. left. destruct (retries s'); [|discriminate].
    cbn in G. destruct (return_results c); discriminate. }
  unfold any_open in Ao. apply existsb_exists in Ao. destruct Ao as [j [Hj Ho]]. apply in_seq in Hj.
  apply Bool.negb_true_iff in Ho.
  destruct (J2 W j ltac:(lia)) as [B|B]; [congruence|].
  pose proof (inv_pending _ _ _ _ Iv) as P. rewrite X in P.
  assert (Hz : sumf (plen s') (n c) = O) by lia.
  pose proof (sumf_zero_inv _ _ Hz j ltac:(lia)) as Hl. unfold plen in Hl.
  destruct (ppw (w s' j)); [congruence|discriminate].
Qed.

Theorem poolerr_all_closed c pc pre inputs script p s' :
  norefuse c ->
  run_from c (fold_left (env_step c) pre (fresh pc)) inputs script = (PoolErr p, s') ->
  forall j, (j < n c)%nat -> closed (w s' j) = true.
Proof.
  intros NR E. apply any_open_false.
  apply (run_from_poolerr_no_open_worker c _ inputs script p s' NR (pre_clean c pre _ (fresh_clean pc)) E).
Qed.
