(* M5 - executable model of pyworkers.pool.Pool.run (as of the fix: commit for R4):
   first_enqueue / try_enqueue / handle_death (with the drain of already
   delivered results) / handle_new_result / the event loop, over an explicit
   environment (per-worker inbox, result queue, liveness) driven by a script.
   Hand-written; tied to the code by harness/props/c07.py (T-B). *)
From Coq Require Export ZArith List Bool Lia.
Export ListNotations.
Open Scope Z_scope.

Definition inp := Z.
Definition res := Z.
Definition wid := nat.

Inductive msg := MRes (x : inp) (r : res)   (* x is ghost: which input it answers *)
               | MEnd.

Inductive exn := EIndex | EOracle.
Inductive outcome :=
| Return (ret : list res)        (* run() returned the list *)
| ReturnUnit                     (* return_results=False: returned None by design *)
| PoolErr (partial : list res)
| Internal (e : exn)
| Livelock                       (* fuel of the nested re-dispatch exhausted *)
| Blocked.                       (* the pool waits; the script has nothing more for it *)

(* pool-side and environment-side state of one worker *)
Record W := mkW {
  ppw : list inp;        (* _pending_per_worker[id] *)
  closed : bool;         (* id in _closed *)
  qpres : bool;          (* id in _queues *)
  inbox : list inp;      (* env: enqueued, not yet taken by the target *)
  q : list msg;          (* env: written to the results pipe, not yet read *)
  alive : bool;          (* env: process exists (is_alive, enqueue works); false => pipe EOF after q *)
  ended : bool;          (* env: end marker written, no further answers *)
  failed : list inp      (* ghost: inputs consumed by a failing call *)
}.

Record St := mkSt {
  w : wid -> W;
  src : list inp;
  depleted : bool;
  pending : Z;
  retries : list inp;
  ret : list res;
  nenq : nat;            (* number of enqueue attempts so far (indexes the pick oracle) *)
  ret_in : list inp;     (* ghost: inputs whose results are in ret *)
  consumed : list inp;   (* ghost: inputs taken from the source *)
  lost : list inp        (* ghost: inputs dropped because retry is off *)
}.

Record cfg := mkCfg {
  n : nat;                         (* number of workers, ids 0..n-1 *)
  f : inp -> res;
  retry : bool;
  extra : nat;
  return_results : bool;
  refuse : wid -> inp -> bool;     (* user enqueue_fn returning False *)
  pick : nat -> wid;               (* which idle worker the set yields, per enqueue attempt *)
  strict : bool                    (* correspondence runs only: Poll orders must be exactly the ready set *)
}.

Inductive op := Ans (i : wid) | Fail (i : wid) | Exit (i : wid) | Poll (order : list wid).

Inductive R := Go (s : St) | Stop (o : outcome).

Definition upd (g : wid -> W) (i : wid) (v : W) : wid -> W :=
  fun j => if Nat.eqb j i then v else g j.

Definition setw (s : St) (i : wid) (v : W) : St :=
  mkSt (upd (w s) i v) (src s) (depleted s) (pending s) (retries s) (ret s) (nenq s) (ret_in s) (consumed s) (lost s).

(* ---------- next_inputs ---------- *)
Definition next_inputs (s : St) : option (inp * bool) * St :=
  match retries s with
  | x :: r => (Some (x, true),
               mkSt (w s) (src s) (depleted s) (pending s) r (ret s) (nenq s) (ret_in s) (consumed s) (lost s))
  | [] =>
      if depleted s then (None, s) else
      match src s with
      | x :: r => (Some (x, false),
                   mkSt (w s) r (depleted s) (pending s) (retries s) (ret s) (nenq s) (ret_in s) (consumed s ++ [x]) (lost s))
      | [] => (None,
               mkSt (w s) [] true (pending s) (retries s) (ret s) (nenq s) (ret_in s) (consumed s) (lost s))
      end
  end.

Definition handle_unused (c : cfg) (s : St) (x : inp) (from_retries : bool) : St :=
  if retry c then
    mkSt (w s) (src s) (depleted s) (pending s)
        (if from_retries then x :: retries s else retries s ++ [x])
        (ret s) (nenq s) (ret_in s) (consumed s) (lost s)
  else
    mkSt (w s) (src s) (depleted s) (pending s) (retries s) (ret s) (nenq s) (ret_in s) (consumed s) (lost s ++ [x]).

(* successful worker.enqueue: bookkeeping + the input lands in the worker's inbox *)
Definition handle_enqueue (s : St) (i : wid) (x : inp) : St :=
  let wi := w s i in
  mkSt (upd (w s) i (mkW (ppw wi ++ [x]) (closed wi) (qpres wi) (inbox wi ++ [x]) (q wi) (alive wi) (ended wi) (failed wi)))
      (src s) (depleted s) (pending s + 1) (retries s) (ret s) (S (nenq s)) (ret_in s) (consumed s) (lost s).

Definition bump (s : St) : St :=
  mkSt (w s) (src s) (depleted s) (pending s) (retries s) (ret s) (S (nenq s)) (ret_in s) (consumed s) (lost s).

(* one accepted result: pending -= 1; pop(0); ret.append *)
Definition take_result (c : cfg) (s : St) (i : wid) (r : res) : option St :=
  let wi := w s i in
  match ppw wi with
  | [] => None
  | x :: p' =>
      Some (mkSt (upd (w s) i (mkW p' (closed wi) (qpres wi) (inbox wi) (q wi) (alive wi) (ended wi) (failed wi)))
                (src s) (depleted s) (pending s - 1) (retries s)
                (if return_results c then ret s ++ [r] else ret s) (nenq s)
                (ret_in s ++ [x]) (consumed s) (lost s))
  end.

Definition set_q (s : St) (i : wid) (q' : list msg) : St :=
  let wi := w s i in
  setw s i (mkW (ppw wi) (closed wi) (qpres wi) (inbox wi) q' (alive wi) (ended wi) (failed wi)).

(* the drain at the start of handle_death; [k] bounds the iterations by |q| *)
Fixpoint drain (c : cfg) (k : nat) (s : St) (i : wid) : St :=
  match k with
  | O => s
  | S k' =>
      let wi := w s i in
      if negb (qpres wi) then s else
      match ppw wi with
      | [] => s
      | _ :: _ =>
          match q wi with
          | [] => s                              (* poll() false, or EOFError *)
          | MEnd :: q' => set_q s i q'           (* consumed, then break *)
          | MRes x r :: q' =>
              match take_result c (set_q s i q') i r with
              | Some s' => drain c k' s' i
              | None => s
              end
          end
      end
  end.

Definition idle_list (c : cfg) (s : St) : list wid :=
  filter (fun j => match ppw (w s j) with [] => negb (closed (w s j)) | _ => false end) (seq 0 (n c)).

Definition choose (c : cfg) (s : St) (cands : list wid) : wid :=
  let p := pick c (nenq s) in
  if existsb (Nat.eqb p) cands then p else hd O cands.

(* bookkeeping part of handle_death, after the drain *)
Definition bury (c : cfg) (s : St) (i : wid) : St :=
  let wi := w s i in
  mkSt (upd (w s) i (mkW [] true (qpres wi) (inbox wi) (q wi) (alive wi) (ended wi) (failed wi)))
      (src s) (depleted s) (pending s - Z.of_nat (length (ppw wi)))
      (if retry c then retries s ++ ppw wi else retries s)
      (ret s) (nenq s) (ret_in s) (consumed s)
      (if retry c then lost s else lost s ++ ppw wi).

(* try_enqueue / handle_death / the re-dispatch loop, on one fuel *)
Fixpoint te (c : cfg) (fuel : nat) (s : St) (i : wid) : R * bool :=
  match fuel with
  | O => (Stop Livelock, true)
  | S fuel' =>
      match next_inputs s with
      | (None, s1) => (Go s1, false)
      | (Some (x, fr), s1) =>
          if closed (w s1 i) then (Go (handle_unused c s1 x fr), true)
          else if refuse c i x then (Go (handle_unused c (bump s1) x fr), true)
          else if alive (w s1 i) then (Go (handle_enqueue s1 i x), true)
          else
            match hd_ c fuel' (bump s1) i with
            | Go s2 => (Go (handle_unused c s2 x fr), true)
            | Stop o => (Stop o, true)
            end
      end
  end
with hd_ (c : cfg) (fuel : nat) (s : St) (i : wid) : R :=
  match fuel with
  | O => Stop Livelock
  | S fuel' =>
      let s1 := drain c (S (length (q (w s i)))) s i in
      let s2 := bury c s1 i in
      (fix redispatch (k : nat) (s : St) : R :=
         match k with
         | O => Stop Livelock
         | S k' =>
             match retries s with
             | [] => Go s
             | _ :: _ =>
                 match idle_list c s with
                 | [] => Go s
                 | cands =>
                     match te c fuel' s (choose c s cands) with
                     | (Go s', _) => redispatch k' s'
                     | (Stop o, _) => Stop o
                     end
                 end
             end
         end) fuel' s2
  end.

Definition handle_new_result (c : cfg) (fuel : nat) (s : St) (i : wid) (r : res) : R :=
  match take_result c s i r with
  | None => Stop (Internal EIndex)
  | Some s1 => if closed (w s1 i) then Go s1 else fst (te c fuel s1 i)
  end.

(* the pool reads one message (or EOF) from the pipe of worker i *)
Definition recv_one (c : cfg) (fuel : nat) (s : St) (i : wid) : R :=
  let wi := w s i in
  if (n c <=? i)%nat then Go s else
  if negb (qpres wi) then Go s else
  match q wi with
  | MRes x r :: q' => handle_new_result c fuel (set_q s i q') i r
  | MEnd :: q' =>
      let s1 := set_q s i q' in
      if closed (w s1 i) then Go s1 else hd_ c fuel s1 i
  | [] =>
      if alive wi then Go s      (* not ready: nothing to read *)
      else
        let s1 := setw s i (mkW (ppw wi) (closed wi) false (inbox wi) (q wi) (alive wi) (ended wi) (failed wi)) in
        if closed wi then Go s1 else hd_ c fuel s1 i
  end.

Fixpoint poll (c : cfg) (fuel : nat) (s : St) (order : list wid) : R :=
  match order with
  | [] => Go s
  | i :: r => match recv_one c fuel s i with
              | Go s' => poll c fuel s' r
              | Stop o => Stop o
              end
  end.

Fixpoint NoDup_b (l : list wid) : bool :=
  match l with [] => true | x :: r => negb (existsb (Nat.eqb x) r) && NoDup_b r end.

Definition ready (s : St) (i : wid) : bool :=
  qpres (w s i) && (match q (w s i) with [] => negb (alive (w s i)) | _ => true end).

Definition exact_ready (c : cfg) (s : St) (order : list wid) : bool :=
  forallb (ready s) order && NoDup_b order &&
  Nat.eqb (length order) (length (filter (ready s) (seq 0 (n c)))).

(* environment steps *)
Definition op_wid (o : op) : wid := match o with Ans i | Fail i | Exit i => i | Poll _ => O end.

Definition env_step (c : cfg) (s : St) (o : op) : St :=
  if (n c <=? op_wid o)%nat then s else
  match o with
  | Ans i =>
      let wi := w s i in
      if alive wi && negb (ended wi) then
        match inbox wi with
        | x :: ib => setw s i (mkW (ppw wi) (closed wi) (qpres wi) ib (q wi ++ [MRes x (f c x)]) true false (failed wi))
        | [] => s
        end
      else s
  | Fail i =>
      let wi := w s i in
      if alive wi && negb (ended wi) then
        match inbox wi with
        | x :: ib => setw s i (mkW (ppw wi) (closed wi) (qpres wi) ib (q wi ++ [MEnd]) true true (failed wi ++ [x]))
        | [] => s
        end
      else s
  | Exit i =>
      let wi := w s i in
      setw s i (mkW (ppw wi) (closed wi) (qpres wi) (inbox wi) (q wi) false (ended wi) (failed wi))
  | Poll _ => s
  end.

Definition any_open (c : cfg) (s : St) : bool :=
  existsb (fun j => negb (closed (w s j))) (seq 0 (n c)).

Definition finish (c : cfg) (s : St) : outcome :=
  if depleted s && (pending s =? 0) && (match retries s with [] => true | _ => false end)
  then (if return_results c then Return (ret s) else ReturnUnit)
  else PoolErr (ret s).

(* while self._pending and <some worker not closed>: ... *)
Fixpoint main_loop (c : cfg) (fuel : nat) (s : St) (script : list op) : outcome * St :=
  if negb (pending s =? 0) && any_open c s then
    match script with
    | [] => (Blocked, s)
    | Poll order :: rest =>
        if strict c && negb (exact_ready c s order) then (Internal EOracle, s) else
        if existsb (ready s) order then
          match poll c fuel s order with
          | Go s' => main_loop c fuel s' rest
          | Stop o => (o, s)
          end
        else (Blocked, s)
    | o :: rest => main_loop c fuel (env_step c s o) rest
    end
  else (finish c s, s).

(* for _ in range(extra+1): for worker in workers: if not closed: if not try_enqueue: return *)
Fixpoint fe_row (c : cfg) (fuel : nat) (s : St) (ids : list wid) : R * bool :=
  match ids with
  | [] => (Go s, true)
  | i :: r =>
      if closed (w s i) then fe_row c fuel s r else
      match te c fuel s i with
      | (Go s', true) => fe_row c fuel s' r
      | (Go s', false) => (Go s', false)
      | (Stop o, b) => (Stop o, b)
      end
  end.

Fixpoint first_enqueue (c : cfg) (fuel : nat) (s : St) (rounds : nat) : R :=
  match rounds with
  | O => Go s
  | S k =>
      match fe_row c fuel s (seq 0 (n c)) with
      | (Go s', true) => first_enqueue c fuel s' k
      | (Go s', false) => Go s'
      | (Stop o, _) => Stop o
      end
  end.

(* per-run initialisation: _closed, _queues and the environment persist *)
Definition reset (c : cfg) (s : St) (inputs : list inp) : St :=
  mkSt (fun j => let wj := w s j in mkW [] (closed wj) (qpres wj) (inbox wj) (q wj) (alive wj) (ended wj) (failed wj))
      inputs false 0 [] [] (nenq s) [] [] [].

Definition fuel_of (c : cfg) : nat := S (S (S (n c + n c))).

Definition run_from (c : cfg) (s0 : St) (inputs : list inp) (script : list op) : outcome * St :=
  let s := reset c s0 inputs in
  match first_enqueue c (fuel_of c) s (S (extra c)) with
  | Stop o => (o, s)
  | Go s1 => main_loop c (fuel_of c) s1 script
  end.

Definition fresh_w : W := mkW [] false true [] [] true false [].
Definition fresh (pre_closed : wid -> bool) : St :=
  mkSt (fun j => mkW [] (pre_closed j) true [] [] true false []) [] false 0 [] [] 0 [] [] [].

(* environment steps on the idle pool (before run() is entered), then the run *)
Definition run (c : cfg) (pre_closed : wid -> bool) (pre : list op) (inputs : list inp) (script : list op) : outcome :=
  fst (run_from c (fold_left (env_step c) pre (fresh pre_closed)) inputs script).

(* ---------- several runs of one pool (C09): what happens between two runs ---------- *)
Inductive between :=
| BEnv (o : op)             (* the environment moves while the pool is idle (a worker is killed, ...) *)
| BRestartAll               (* restart_workers() succeeded: every worker is a fresh incarnation under a new id *)
| BRestartFail (k : nat).   (* restart_workers() raised at the k-th worker: the first k are fresh and, having been
                               re-inserted, now come last in the registry's order *)

Definition with_w (s : St) (g : wid -> W) : St :=
  mkSt g (src s) (depleted s) (pending s) (retries s) (ret s) (nenq s) (ret_in s) (consumed s) (lost s).

(* slots outside 0..n-1 do not exist *)
Definition trim (c : cfg) (s : St) : St :=
  with_w s (fun i => if (i <? n c)%nat then w s i else fresh_w).

Definition between_step (c : cfg) (s : St) (b : between) : St :=
  match b with
  | BEnv o => env_step c s o
  | BRestartAll => with_w s (fun _ => fresh_w)
  | BRestartFail k => with_w s (fun i => if (i + k <? n c)%nat then w s (i + k)%nat else fresh_w)
  end.

Definition is_fin (o : outcome) : bool :=
  match o with Return _ | ReturnUnit | PoolErr _ => true | _ => false end.

(* one round = what happens while idle, then run(inputs) under a script; a run which does not end
   (Blocked: the script is exhausted; Livelock; internal error) ends the history *)
Fixpoint rounds (c : cfg) (s : St) (rs : list (list between * list inp * list op)) : list outcome :=
  match rs with
  | [] => []
  | (bs, inputs, script) :: rest =>
      let '(o, s') := run_from c (trim c (fold_left (between_step c) bs s)) inputs script in
      o :: (if is_fin o then rounds c s' rest else [])
  end.
