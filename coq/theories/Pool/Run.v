(* Entry points for the correspondence check of Pool.run (harness/props/c07.py). *)
From PW Require Import Pool.Model.
Open Scope Z_scope.

Inductive eout := EReturn (r : list Z) | EUnit | ENone | EPoolErr (p : list Z) | EInternal | ELivelock | EBlocked.

Fixpoint zlist_eqb (a b : list Z) : bool :=
  match a, b with
  | [], [] => true
  | x :: a', y :: b' => (x =? y) && zlist_eqb a' b'
  | _, _ => false
  end.

Definition out_eqb (o : outcome) (e : eout) : bool :=
  match o, e with
  | Return r, EReturn r' => zlist_eqb r r'
  | ReturnUnit, EUnit => true
  | PoolErr p, EPoolErr p' => zlist_eqb p p'
  | Internal EIndex, EInternal => true
  | Livelock, ELivelock => true
  | Blocked, EBlocked => true
  | _, _ => false
  end.

Definition sq (x : Z) : Z := x * x.

(* refusal oracle as a finite table of (worker, input) pairs *)
Definition refuse_of (t : list (nat * Z)) : nat -> Z -> bool :=
  fun i x => existsb (fun p => Nat.eqb (fst p) i && (snd p =? x)) t.

Definition check (nw : nat) (retry_ : bool) (extra_ : nat) (rr : bool) (refs : list (nat * Z))
                 (picks : list nat) (pre_closed : list nat) (pre : list op)
                 (inputs : list Z) (script : list op)
                 (expect : eout) (closed_after : list bool) : bool :=
  let c := mkCfg nw sq retry_ extra_ rr (refuse_of refs) (fun k => nth k picks 0%nat) true in
  let s0 := fold_left (env_step c) pre (fresh (fun j => existsb (Nat.eqb j) pre_closed)) in
  let '(o, s) := run_from c s0 inputs script in
  out_eqb o expect.

(* several runs of one pool (harness/props/c09.py) *)
Definition check_rounds (nw : nat) (retry_ : bool) (extra_ : nat) (rr : bool) (picks : list nat)
                        (rs : list (list between * list Z * list op)) (expect : list eout) : bool :=
  let c := mkCfg nw sq retry_ extra_ rr (fun _ _ => false) (fun k => nth k picks 0%nat) true in
  let os := rounds c (fresh (fun _ => false)) rs in
  Nat.eqb (length os) (length expect) && forallb (fun p => out_eqb (fst p) (snd p)) (combine os expect).
