From PW Require Import Pickle.Desc Gen.MroScan.
Arguments py_scan_step : simpl never.
Arguments py_scan_result : simpl never.

(* What the metaclass decides for a class whose MRO (without object) is [mro]:
   None = raise Warning, Some true = registered as opt-in, Some false = not opt-in. *)
Definition check (mro : list desc) : option bool :=
  option_map py_scan_result (scan py_scan_step mro py_scan_init).

Definition is_reducer (b : desc) : bool := d_reduce_ex b || d_reduce b.
Definition remote_gs (b : desc) : bool := d_getstate b && negb (sig_unavailable b) && takes_remote b.
Definition plain_gs (b : desc) : bool :=
  d_getstate b && (sig_unavailable b || (negb (takes_remote b) && negb (has_varkw b))).

(* the classes that are looked at: those before the first one defining a reducer *)
Fixpoint scanned (mro : list desc) : list desc :=
  match mro with
  | [] => []
  | b :: r => if is_reducer b then [] else b :: scanned r
  end.

(* an inconsistent chain: a __getstate__ that neither takes `remote` nor passes **kwargs
   precedes one that takes `remote` *)
Definition inconsistent (l : list desc) : Prop :=
  exists l1 b1 l2 b2 l3, l = l1 ++ b1 :: l2 ++ b2 :: l3 /\ plain_gs b1 = true /\ remote_gs b2 = true.

Lemma step_cases b allow has :
  py_scan_step b (allow, has) =
  if is_reducer b then SBreak (allow, false)
  else if remote_gs b then (if allow then SNext (allow, true) else SRaise)
  else if plain_gs b then SNext (false, has)
  else SNext (allow, has).
Proof.
  unfold py_scan_step, is_reducer, remote_gs, plain_gs.
  destruct b as [rx r g t v u]; simpl. destruct rx, r, g, t, v, u, allow; reflexivity.
Qed.

(* scanning with allow_remote already false: Warning iff a remote-aware __getstate__ is met *)
Lemma scan_disallowed l : forall has,
  scan py_scan_step l (false, has) = None <-> exists b, In b (scanned l) /\ remote_gs b = true.
Proof.
  induction l as [|b r IH]; intros has; simpl.
  - split; [discriminate|intros [b [[] _]]].
  - rewrite step_cases. destruct (is_reducer b) eqn:Er.
    + split; [discriminate|intros [x [[] _]]].
    + destruct (remote_gs b) eqn:Eg.
      * split; [intros _; exists b; split; [now left|assumption]|reflexivity].
      * destruct (plain_gs b); rewrite IH; (split; intros [x [Hx Hg]];
          [exists x; split; [now right|assumption]
          |destruct Hx as [->|Hx]; [congruence|exists x; split; assumption]]).
Qed.

Lemma scan_allowed l : forall has,
  scan py_scan_step l (true, has) = None <-> inconsistent (scanned l).
Proof.
  induction l as [|b r IH]; intros has; simpl.
  - split; [discriminate|]. intros [l1 [b1 [l2 [b2 [l3 [E _]]]]]]. destruct l1; discriminate.
  - rewrite step_cases. destruct (is_reducer b) eqn:Er.
    + split; [discriminate|]. intros [l1 [b1 [l2 [b2 [l3 [E _]]]]]]. destruct l1; discriminate.
    + destruct (remote_gs b) eqn:Eg.
      * rewrite IH. split.
        -- intros [l1 [b1 [l2 [b2 [l3 [E [H1 H2]]]]]]]. exists (b :: l1), b1, l2, b2, l3. rewrite E. auto.
        -- intros [l1 [b1 [l2 [b2 [l3 [E [H1 H2]]]]]]]. destruct l1 as [|x l1]; simpl in E; inversion E; subst.
           ++ unfold plain_gs, remote_gs in *. destruct (d_getstate b1), (takes_remote b1), (sig_unavailable b1); discriminate.
           ++ exists l1, b1, l2, b2, l3. auto.
      * destruct (plain_gs b) eqn:Ep.
        -- rewrite scan_disallowed. split.
           ++ intros [x [Hx Hg]]. apply in_split in Hx. destruct Hx as [l2 [l3 E]].
              exists [], b, l2, x, l3. simpl. rewrite E. auto.
           ++ intros [l1 [b1 [l2 [b2 [l3 [E [H1 H2]]]]]]]. exists b2. split; [|assumption].
              destruct l1 as [|x l1]; simpl in E; inversion E as [[Hb Hs]]; rewrite Hs.
              ** apply in_or_app. right. now left.
              ** apply in_or_app. right. right. apply in_or_app. right. now left.
        -- rewrite IH. split.
           ++ intros [l1 [b1 [l2 [b2 [l3 [E [H1 H2]]]]]]]. exists (b :: l1), b1, l2, b2, l3. rewrite E. auto.
           ++ intros [l1 [b1 [l2 [b2 [l3 [E [H1 H2]]]]]]]. destruct l1 as [|x l1]; simpl in E; inversion E; subst.
              ** congruence.
              ** exists l1, b1, l2, b2, l3. auto.
Qed.

Theorem check_warning mro : check mro = None <-> inconsistent (scanned mro).
Proof.
  unfold check, py_scan_init. destruct (scan py_scan_step mro (true, false)) eqn:E.
  - split; [discriminate|]. intros H. apply (scan_allowed mro false) in H. congruence.
  - split; [intros _; now apply (scan_allowed mro false)|reflexivity].
Qed.

(* when no Warning is raised, the result of the scan *)
Lemma scan_result l : forall allow has st,
  scan py_scan_step l (allow, has) = Some st ->
  py_scan_result st = (if existsb is_reducer l then false else has || existsb remote_gs l).
Proof.
  induction l as [|b r IH]; intros allow has st; simpl.
  - intros E; inversion E; subst. simpl. now rewrite orb_false_r.
  - rewrite step_cases. destruct (is_reducer b) eqn:Er; simpl.
    + intros E; inversion E; subst. reflexivity.
    + destruct (remote_gs b) eqn:Eg; simpl.
      * destruct allow; [|discriminate]. intros E. rewrite (IH _ _ _ E).
        destruct (existsb is_reducer r); [reflexivity|]. now rewrite orb_true_r.
      * destruct (plain_gs b); intros E; rewrite (IH _ _ _ E); reflexivity.
Qed.

Theorem check_registered mro :
  check mro = Some true <->
  ~ inconsistent (scanned mro) /\ existsb is_reducer mro = false /\ existsb remote_gs mro = true.
Proof.
  unfold check, py_scan_init. destruct (scan py_scan_step mro (true, false)) as [st|] eqn:E; simpl.
  - rewrite (scan_result mro true false st E). simpl. split.
    + intros H. split.
      * intros Hi. apply (scan_allowed mro false) in Hi. congruence.
      * destruct (existsb is_reducer mro); [discriminate|]. inversion H. auto.
    + intros [_ [H1 H2]]. now rewrite H1, H2.
  - split; [discriminate|]. intros [Hn _]. elim Hn. now apply (scan_allowed mro false).
Qed.

(* in particular: a class without any remote-aware __getstate__ is never registered *)
Corollary never_registered_without_opt_in mro :
  existsb remote_gs mro = false -> check mro <> Some true.
Proof. intros H E. apply check_registered in E. destruct E as [_ [_ E]]. congruence. Qed.
