From PW Require Import Pickle.Desc Gen.MroScan Pickle.MroProofs Pickle.Dispatch.

Definition ob_eqb (a b : option bool) : bool :=
  match a, b with
  | None, None => true
  | Some x, Some y => Bool.eqb x y
  | _, _ => false
  end.
Definition check_mro (mro : list desc) (expected : option bool) : bool := ob_eqb (check mro) expected.

Definition route_eqb (a b : route) : bool :=
  match a, b with
  | RBuiltin, RBuiltin | RRemote, RRemote | RGlobal, RGlobal | RReduceEx, RReduceEx | RWarning, RWarning => true
  | RTable _, RTable _ => true
  | _, _ => false
  end.
Definition check_route (remote : bool) (c : cls) (expected : route) : bool := route_eqb (remote_select remote c) expected.
