(* Which reducer a pickler selects for an object of a given class: the standard
   pickler versus RemotePickler(remote=b).  Hand-written from
   _remote_pickle/remote_pickler_3_6.py (dyn_dispatch_table, RemotePickler36.__init__)
   and CPython's save() order; pinned to the source by tools/pin.py and compared with
   the real table look-ups by harness/props/c13.py. *)
From PW Require Import Pickle.Desc Gen.MroScan Pickle.MroProofs.

Inductive route :=
| RBuiltin            (* exact built-in type: handled before any table look-up *)
| RTable (k : nat)    (* reducer registered in copyreg.dispatch_table *)
| RRemote             (* remote_reduce: __getstate__(remote=...) *)
| RGlobal             (* classes and functions: pickled by reference *)
| RReduceEx           (* object.__reduce_ex__ -> __getstate__() without the flag *)
| RWarning.           (* the opt-in check raised Warning *)

Record cls := mkCls {
  builtin : bool;
  in_copyreg : option nat;
  is_type : bool;          (* the object being pickled is itself a class *)
  via_meta : bool;         (* the class is already in supported_classes when the pickler is created: created through the metaclass, or checked earlier *)
  mro : list desc
}.

Definition std_select (c : cls) : route :=
  if builtin c then RBuiltin else
  match in_copyreg c with
  | Some k => RTable k
  | None => if is_type c then RGlobal else RReduceEx
  end.

(* explicit entry of the private table: classes in supported_classes, i.e. those for which the
   opt-in check has already succeeded when the pickler is created *)
Definition registered (c : cls) : bool :=
  via_meta c && match check (mro c) with Some true => true | _ => false end.

Definition remote_select (remote : bool) (c : cls) : route :=
  if builtin c then RBuiltin else
  if registered c then RRemote else
  match in_copyreg c with
  | Some k => RTable k
  | None =>
      if remote && negb (is_type c) then
        (* dyn_dispatch_table.__getitem__ on a missing key: issubclass(key, SupportRemoteGetState) *)
        match check (mro c) with
        | Some true => RRemote
        | Some false => RReduceEx
        | None => RWarning
        end
      else if is_type c then RGlobal else RReduceEx
  end.

(* a class that does not opt in is treated exactly as the standard pickler treats it *)
Theorem not_opt_in_same_route remote c :
  check (mro c) = Some false -> remote_select remote c = std_select c.
Proof.
  intros H. unfold remote_select, std_select, registered. rewrite H.
  destruct (builtin c); [reflexivity|]. rewrite andb_false_r.
  destruct (in_copyreg c); [reflexivity|].
  destruct remote, (is_type c); reflexivity.
Qed.

(* remote=False: also opt-in classes not yet known to the metaclass *)
Theorem remote_false_duck_typed_same_route c :
  via_meta c = false -> remote_select false c = std_select c.
Proof.
  intros H. unfold remote_select, std_select, registered. rewrite H. simpl.
  destruct (builtin c); [reflexivity|]. destruct (in_copyreg c); reflexivity.
Qed.

(* classes whose chain has no __getstate__ at all pass the check with `false` *)
Lemma no_getstate_not_opt_in l :
  forallb (fun b => negb (d_getstate b)) l = true -> check l = Some false.
Proof.
  intros H. destruct (check l) as [[|]|] eqn:E; [| reflexivity |].
  - apply check_registered in E. destruct E as [_ [_ E]]. apply existsb_exists in E.
    destruct E as [b [Hb Hr]]. rewrite forallb_forall in H. specialize (H b Hb).
    unfold remote_gs in Hr. destruct (d_getstate b); discriminate.
  - apply check_warning in E. destruct E as [l1 [b1 [l2 [b2 [l3 [E [H1 _]]]]]]].
    rewrite forallb_forall in H.
    assert (Hin : In b1 l).
    { clear -E. revert l1 E. induction l as [|x l IH]; intros l1 E; simpl in E.
      - destruct l1; discriminate.
      - destruct (is_reducer x); [destruct l1; discriminate|].
        destruct l1 as [|y l1]; simpl in E; inversion E; subst; [now left|right; eapply IH; eauto]. }
    specialize (H b1 Hin). unfold plain_gs in H1. destruct (d_getstate b1); discriminate.
Qed.
