(* M6 - the load-time machinery of remote_pickle: RemoteState (state.py) transliterated as a stack machine, driven by
   the events that unpickling a graph produces, and the pickler-side bookkeeping of remote_reduce that decides which
   objects are ANNOUNCED by the object holding them (remote_pickler_3_6.py).
   Hand-written from pyworkers/_remote_pickle/state.py and remote_reduce; pinned by tools/pin.py and compared with the
   implementation by harness/props/c14.py (restored states, errors, AND the reduce callable / children_names chosen
   for every instance on the dump side). *)
From Coq Require Export ZArith List Bool Lia.
Export ListNotations.
Open Scope Z_scope.

(* ---------- object graphs ---------- *)
Inductive node :=
| Atom (z : Z)
| Lst (items : list node)                          (* list / tuple / dict / set *)
| PObj (fields : list (Z * node))                  (* instance of a class that does not opt in *)
| Opt (id : nat) (has_setstate : bool) (fields : list (Z * node))   (* opt-in instance, first occurrence *)
| Ref (id : nat).                                  (* later occurrence of an opt-in instance (memo hit), also back edges of cycles *)

(* ---------- patches: nested dictionaries, by value ----------
   (state.py copies every nested dictionary when it creates the entry for it, the context copies the top-level one:
   the machine never writes into a dictionary of the caller; that no caller-owned dictionary is touched is checked on
   the implementation directly) *)
Inductive pv := PVal (z : Z) | PDict (d : list (Z * pv)) | PObjRef (id : nat).
Definition pdict := list (Z * pv).

(* restored field values *)
Inductive rval := RAtom (z : Z) | RObj (id : nat) | RCont | RDictV (d : pdict).

Inductive ev :=
| ERecreate (id : nat) (names : list Z) (has_setstate : bool) (announced : bool)
| EBuild (id : nat) (state : list (Z * rval)).

Definition rval_of (n : node) : rval :=
  match n with Atom z => RAtom z | Opt id _ _ | Ref id => RObj id | _ => RCont end.

Definition state_of (fields : list (Z * node)) : list (Z * rval) := map (fun p => (fst p, rval_of (snd p))) fields.

(* ---------- the pickler side: who is announced (remote_reduce, RemotePickler36.dump) ---------- *)
Record pst := mkP { seen : list nat; ann : list nat }.
Definition memb (x : nat) (l : list nat) : bool := existsb (Nat.eqb x) l.
Definition remove_nat (x : nat) (l : list nat) : list nat := filter (fun y => negb (Nat.eqb x y)) l.

(* the scan of the state in remote_reduce: a directly held opt-in value met for the first time is announced *)
Fixpoint scan (fields : list (Z * node)) (s : pst) : list Z * pst :=
  match fields with
  | [] => ([], s)
  | (k, v) :: r =>
      match v with
      | Opt j _ _ | Ref j =>
          if memb j (seen s) then scan r s
          else let '(ns, s') := scan r (mkP (j :: seen s) (j :: ann s)) in (k :: ns, s')
      | _ => scan r s
      end
  end.

(* the order in which pickle saves (and pickle.loads rebuilds) objects: reduce callable first, then the state, then BUILD *)
Fixpoint events (n : node) (s : pst) : list ev * pst :=
  match n with
  | Atom _ | Ref _ => ([], s)
  | Lst items =>
      (fix go (l : list node) (s : pst) : list ev * pst :=
         match l with [] => ([], s) | x :: r => let '(e1, s1) := events x s in let '(e2, s2) := go r s1 in (e1 ++ e2, s2) end) items s
  | PObj fields =>
      (fix go (l : list (Z * node)) (s : pst) : list ev * pst :=
         match l with [] => ([], s) | (_, x) :: r => let '(e1, s1) := events x s in let '(e2, s2) := go r s1 in (e1 ++ e2, s2) end) fields s
  | Opt id hs fields =>
      let announced := memb id (ann s) in
      let s1 := mkP (id :: seen s) (remove_nat id (ann s)) in
      let '(names, s2) := scan fields s1 in
      let '(es, s3) :=
        (fix go (l : list (Z * node)) (s : pst) : list ev * pst :=
           match l with [] => ([], s) | (_, x) :: r => let '(e1, s1) := events x s in let '(e2, s2) := go r s1 in (e1 ++ e2, s2) end) fields s2 in
      (ERecreate id names hs announced :: es ++ [EBuild id (state_of fields)], s3)
  end.

(* RemotePickler36.dump: the top-level object counts as announced *)
Definition dump_events (g : node) : list ev :=
  fst (events g (match g with Opt id _ _ => mkP [id] [id] | _ => mkP [] [] end)).

(* ---------- the structural reading of "announced": the top-level object and every directly held first occurrence ---------- *)
Definition direct_names (fields : list (Z * node)) : list Z :=
  map fst (filter (fun p => match snd p with Opt _ _ _ => true | _ => false end) fields).

Fixpoint events_s (n : node) (announced : bool) : list ev :=
  match n with
  | Atom _ | Ref _ => []
  | Lst items => (fix go (l : list node) := match l with [] => [] | x :: r => events_s x false ++ go r end) items
  | PObj fields => (fix go (l : list (Z * node)) := match l with [] => [] | (_, x) :: r => events_s x false ++ go r end) fields
  | Opt id hs fields =>
      ERecreate id (direct_names fields) hs announced
      :: (fix go (l : list (Z * node)) := match l with [] => [] | (_, x) :: r => events_s x true ++ go r end) fields
      ++ [EBuild id (state_of fields)]
  end.

(* ---------- dictionaries ---------- *)
Fixpoint dget (d : pdict) (k : Z) : option pv :=
  match d with [] => None | (k', v) :: r => if k' =? k then Some v else dget r k end.
Fixpoint dset (d : pdict) (k : Z) (v : pv) : pdict :=
  match d with [] => [(k, v)] | (k', v') :: r => if k' =? k then (k, v) :: r else (k', v') :: dset r k v end.
Fixpoint sget (st : list (Z * rval)) (k : Z) : option rval :=
  match st with [] => None | (k', v) :: r => if k' =? k then Some v else sget r k end.
Fixpoint sset (st : list (Z * rval)) (k : Z) (v : rval) : list (Z * rval) :=
  match st with [] => [(k, v)] | (k', v') :: r => if k' =? k then (k, v) :: r else (k', v') :: sset r k v end.

(* ---------- the machine ---------- *)
Record frame := mkFr { parent_i : Z; fname : option Z; fpat : pdict }.
Definition dummy : frame := mkFr (-1) None [].

Inductive merr := EAssert | EAttribute | EIndex | ETypeErr.

Record mst := mkM {
  stack : list frame; iter : Z; unused : bool;
  restored : list (nat * list (Z * rval))      (* final state handed to each object's __setstate__ *)
}.

Definition nthZ {A} (l : list A) (i : Z) : option A := if i <? 0 then None else nth_error l (Z.to_nat i).

(* get_current_patches_info *)
Definition cur_frame (s : mst) : option frame :=
  if iter s <? 0 then Some dummy else nthZ (stack s) (iter s).

(* RemoteState.context.__init__ + __enter__ *)
Definition enter (p : pdict) : mst :=
  match p with
  | [] => mkM [] (-1) true []
  | _ => mkM [mkFr (-1) None p] 0 true []
  end.

Definition sub_frame (it : Z) (patches : pdict) (n : Z) : frame :=
  match dget patches n with
  | Some (PDict d) => mkFr it (Some n) d
  | _ => dummy
  end.

Definition insert_at {A} (l : list A) (pos : nat) (x : list A) : list A := firstn pos l ++ x ++ skipn pos l.

(* break_patches(names): the entries of the children, the one restored next on top *)
Definition break_patches (s : mst) (names : list Z) : option mst :=
  match cur_frame s with
  | None => None
  | Some f =>
      let sub := map (sub_frame (iter s) (fpat f)) names in
      match sub with
      | [] => Some s
      | _ => Some (mkM (insert_at (stack s) (Z.to_nat (iter s + 1)) (rev sub)) (iter s + Z.of_nat (length sub)) (unused s) (restored s))
      end
  end.

(* recreate_unannounced_obj_and_patch_setstate: an empty entry of its own *)
Definition push_empty (s : mst) : mst :=
  mkM (stack s ++ [dummy]) (Z.of_nat (length (stack s))) (unused s) (restored s).

Definition val_of_pv (p : pv) : rval :=
  match p with PVal z => RAtom z | PDict d => RDictV d | PObjRef id => RObj id end.

Definition is_robj (o : option rval) : bool := match o with Some (RObj _) => true | _ => false end.

(* patched_setstate: dictionary patches naming an opt-in entry of the state are not applied from here *)
Definition apply_dict (st : list (Z * rval)) (d : pdict) : list (Z * rval) :=
  fold_left (fun acc p => match snd p with
                          | PDict _ => if is_robj (sget st (fst p)) then acc else sset acc (fst p) (val_of_pv (snd p))
                          | v => sset acc (fst p) (val_of_pv v)
                          end) d st.

Fixpoint remove_nth {A} (l : list A) (i : nat) : list A :=
  match l, i with
  | [], _ => []
  | _ :: r, O => r
  | x :: r, S i' => x :: remove_nth r i'
  end.

Fixpoint update_nth {A} (l : list A) (i : nat) (x : A) : list A :=
  match l, i with
  | [], _ => []
  | _ :: r, O => x :: r
  | y :: r, S i' => y :: update_nth r i' x
  end.

Definition is_nil {A} (l : list A) : bool := match l with [] => true | _ => false end.

(* child_restored(obj) *)
Definition child_restored (s : mst) (id : nat) : merr + mst :=
  if negb (iter s =? Z.of_nat (length (stack s)) - 1) then inl EAssert else
  match cur_frame s with
  | None => inl EIndex
  | Some f =>
      let pp := if parent_i f <? 0 then Some None
                else match nthZ (stack s) (parent_i f) with Some pf => Some (Some pf) | None => None end in
      match pp with
      | None => inl EIndex
      | Some pfo =>
          let ppat := match pfo with Some pf => fpat pf | None => [] end in
          let nonempty := negb (is_nil ppat) in
          let named := match fname f with Some _ => true | None => false end in
          if negb (Bool.eqb nonempty named) then inl EAssert else
          let st' := match pfo, fname f with
                     | Some pf, Some n =>
                         if nonempty then update_nth (stack s) (Z.to_nat (parent_i f)) (mkFr (parent_i pf) (fname pf) (dset ppat n (PObjRef id)))
                         else stack s
                     | _, _ => stack s
                     end in
          (* close_current_ctx *)
          if iter s <? 0 then inr (mkM st' (iter s) false (restored s))
          else inr (mkM (remove_nth st' (Z.to_nat (iter s))) (iter s - 1) false (restored s))
      end
  end.

Definition mstep (s : mst) (e : ev) : merr + mst :=
  match e with
  | ERecreate id names hs announced =>
      match break_patches (if announced then s else push_empty s) names with
      | Some s' => inr s'
      | None => inl EIndex
      end
  | EBuild id state =>
      match cur_frame s with
      | None => inl EIndex
      | Some f =>
          let st' := apply_dict state (fpat f) in
          child_restored (mkM (stack s) (iter s) (unused s) (restored s ++ [(id, st')])) id
      end
  end.

Fixpoint mrun (s : mst) (es : list ev) : merr + mst :=
  match es with
  | [] => inr s
  | e :: r => match mstep s e with inr s' => mrun s' r | inl x => inl x end
  end.

(* context.__exit__ without exception: everything consumed, or the patches of a top-level object that takes none are
   still where __enter__ put them *)
Definition mexit (s : mst) : merr + mst :=
  if unused s then inr s
  else match stack s with
       | [f] => if (iter s =? 0) && (parent_i f =? -1) && negb (match fname f with Some _ => true | None => false end)
                then inr s else inl EAssert
       | [] => if iter s =? -1 then inr s else inl EAssert
       | _ => inl EAssert
       end.

Definition load_events (es : list ev) (p : pdict) : merr + mst :=
  match mrun (enter p) es with
  | inr s => mexit s
  | inl e => inl e
  end.

(* dumps followed by loads with patches p *)
Definition load (g : node) (p : pdict) : merr + mst := load_events (dump_events g) p.

(* ---------- the specification (C14 + C15): what every opt-in object is restored with, in restoration order ----------
   Patches address the object they are given for; a dictionary under k addresses the direct child stored under k (its
   first occurrence), a non-dictionary value under k replaces that entry; nothing else is touched. *)
Definition sub_patches (p : pdict) (k : Z) : pdict :=
  match dget p k with Some (PDict d) => d | _ => [] end.

(* the patches of an object once its directly held children are restored: a dictionary that addressed a child stands
   for that child *)
Definition rebind (p : pdict) (fields : list (Z * node)) : pdict :=
  fold_left (fun acc f => match snd f with
                          | Opt j _ _ => match dget p (fst f) with
                                         | Some (PDict _) => dset acc (fst f) (PObjRef j)
                                         | _ => acc
                                         end
                          | _ => acc
                          end) fields p.

Fixpoint spec (n : node) (p : pdict) : list (nat * list (Z * rval)) :=
  match n with
  | Atom _ | Ref _ => []
  | Lst items => (fix go (l : list node) := match l with [] => [] | x :: r => spec x [] ++ go r end) items
  | PObj fields => (fix go (l : list (Z * node)) := match l with [] => [] | (_, x) :: r => spec x [] ++ go r end) fields
  | Opt id hs fields =>
      (fix go (l : list (Z * node)) := match l with
                                       | [] => []
                                       | (k, x) :: r => spec x (match x with Opt _ _ _ => sub_patches p k | _ => [] end) ++ go r
                                       end) fields
      ++ [(id, apply_dict (state_of fields) (rebind p fields))]
  end.

Definition top_patches (g : node) (p : pdict) : pdict := match g with Opt _ _ _ => p | _ => [] end.
