(* M6 - the load-time machinery of remote_pickle: RemoteState (state.py) transliterated
   as a stack machine, driven by the events that unpickling a graph produces.
   Hand-written from pyworkers/_remote_pickle/state.py and remote_reduce; pinned by
   tools/pin.py and compared with the implementation by harness/props/c14.py. *)
From Coq Require Export ZArith List Bool Lia.
Export ListNotations.
Open Scope Z_scope.

(* ---------- object graphs ---------- *)
Inductive node :=
| Atom (z : Z)
| Lst (items : list node)                          (* list / tuple / dict / set *)
| PObj (fields : list (Z * node))                  (* instance of a class that does not opt in *)
| Opt (id : nat) (has_setstate : bool) (fields : list (Z * node))   (* opt-in instance, first occurrence *)
| Ref (id : nat).                                  (* later occurrence of an opt-in instance (memo hit), also back edges of cycles *)

(* restored field values *)
Inductive rval := RAtom (z : Z) | RObj (id : nat) | RCont | RDict (addr : nat).

Inductive ev :=
| ERecreate (id : nat) (names : list Z) (has_setstate : bool)
| EBuild (id : nat) (state : list (Z * rval)).

Definition is_opt (n : node) : bool := match n with Opt _ _ _ | Ref _ => true | _ => false end.
Definition rval_of (n : node) : rval :=
  match n with Atom z => RAtom z | Opt id _ _ | Ref id => RObj id | _ => RCont end.

(* the order in which pickle.loads recreates objects and calls __setstate__ *)
Fixpoint events (n : node) : list ev :=
  match n with
  | Atom _ | Ref _ => []
  | Lst items => (fix go (l : list node) := match l with [] => [] | x :: r => events x ++ go r end) items
  | PObj fields => (fix go (l : list (Z * node)) := match l with [] => [] | (_, x) :: r => events x ++ go r end) fields
  | Opt id hs fields =>
      ERecreate id (map fst (filter (fun p => is_opt (snd p)) fields)) hs
      :: (fix go (l : list (Z * node)) := match l with [] => [] | (_, x) :: r => events x ++ go r end) fields
      ++ [EBuild id (map (fun p => (fst p, rval_of (snd p))) fields)]
  end.

(* ---------- patch dictionaries as a heap of dict objects ---------- *)
Inductive pv := PVal (z : Z) | PDictRef (addr : nat) | PObjRef (id : nat).
Definition pdict := list (Z * pv).
Definition heap := list (nat * pdict).

Fixpoint hget (h : heap) (a : nat) : pdict :=
  match h with [] => [] | (a', d) :: r => if Nat.eqb a' a then d else hget r a end.
Fixpoint hset (h : heap) (a : nat) (d : pdict) : heap :=
  match h with [] => [(a, d)] | (a', d') :: r => if Nat.eqb a' a then (a, d) :: r else (a', d') :: hset r a d end.
Fixpoint dget (d : pdict) (k : Z) : option pv :=
  match d with [] => None | (k', v) :: r => if k' =? k then Some v else dget r k end.
Fixpoint dset (d : pdict) (k : Z) (v : pv) : pdict :=
  match d with [] => [(k, v)] | (k', v') :: r => if k' =? k then (k, v) :: r else (k', v') :: dset r k v end.

(* ---------- the machine ---------- *)
Record frame := mkFr { parent_i : Z; fname : option Z; faddr : option nat }.
Definition dummy : frame := mkFr (-1) None None.

Inductive merr := EAssert | EAttribute | EIndex | ETypeErr.

Record mst := mkM {
  stack : list frame; iter : Z; unused : bool; hp : heap;
  restored : list (nat * list (Z * rval))      (* final state handed to each object's __setstate__ *)
}.

Definition nthZ {A} (l : list A) (i : Z) : option A := if i <? 0 then None else nth_error l (Z.to_nat i).

(* get_current_patches_info *)
Definition cur_frame (s : mst) : option frame :=
  if iter s <? 0 then Some dummy else nthZ (stack s) (iter s).

Definition patches_of (s : mst) (f : frame) : pdict :=
  match faddr f with Some a => hget (hp s) a | None => [] end.

(* RemoteState.context.__init__ + __enter__ *)
Definition enter (h : heap) (top : option nat) : mst :=
  match top with
  | Some a => match hget h a with
              | [] => mkM [] (-1) true h []
              | _ => mkM [mkFr (-1) None (Some a)] 0 true h []
              end
  | None => mkM [] (-1) true h []
  end.

Fixpoint sub_frames (it : Z) (k : Z) (patches : pdict) (names : list Z) : list frame :=
  match names with
  | [] => []
  | n :: r =>
      match dget patches n with
      | Some (PDictRef a) => mkFr (it + k) (Some n) (Some a) :: sub_frames it (k + 1) patches r
      | _ => dummy :: sub_frames it (k + 1) patches r
      end
  end.

Definition insert_at {A} (l : list A) (pos : nat) (x : list A) : list A := firstn pos l ++ x ++ skipn pos l.

(* break_patches(names) *)
Definition break_patches (s : mst) (names : list Z) : option mst :=
  match cur_frame s with
  | None => None
  | Some f =>
      let sub := sub_frames (iter s) 0 (patches_of s f) names in
      match sub with
      | [] => Some s
      | _ => Some (mkM (insert_at (stack s) (Z.to_nat (iter s + 1)) sub) (iter s + 1) (unused s) (hp s) (restored s))
      end
  end.

Definition val_of_pv (p : pv) : rval :=
  match p with PVal z => RAtom z | PDictRef a => RDict a | PObjRef id => RObj id end.

Fixpoint sset (st : list (Z * rval)) (k : Z) (v : rval) : list (Z * rval) :=
  match st with [] => [(k, v)] | (k', v') :: r => if k' =? k then (k, v) :: r else (k', v') :: sset r k v end.

Definition apply_dict (st : list (Z * rval)) (d : pdict) : list (Z * rval) :=
  fold_left (fun acc p => sset acc (fst p) (val_of_pv (snd p))) d st.

Fixpoint remove_nth {A} (l : list A) (i : nat) : list A :=
  match l, i with
  | [], _ => []
  | _ :: r, O => r
  | x :: r, S i' => x :: remove_nth r i'
  end.

(* child_restored(obj) *)
Definition child_restored (s : mst) (id : nat) : merr + mst :=
  if negb (iter s =? Z.of_nat (length (stack s)) - 1) then inl EAssert else
  match cur_frame s with
  | None => inl EIndex
  | Some f =>
      let pp := if parent_i f <? 0 then Some None
                else match nthZ (stack s) (parent_i f) with Some pf => Some (faddr pf) | None => None end in
      match pp with
      | None => inl EIndex
      | Some paddr =>
          let pdict_ := match paddr with Some a => hget (hp s) a | None => [] end in
          let nonempty := match pdict_ with [] => false | _ => true end in
          let named := match fname f with Some _ => true | None => false end in
          if negb (Bool.eqb nonempty named) then inl EAssert else
          let h' := match paddr, fname f with
                    | Some a, Some n => if nonempty then hset (hp s) a (dset pdict_ n (PObjRef id)) else hp s
                    | _, _ => hp s
                    end in
          (* close_current_ctx *)
          if iter s <? 0 then inr (mkM (stack s) (iter s) false h' (restored s))
          else inr (mkM (remove_nth (stack s) (Z.to_nat (iter s))) (iter s - 1) false h' (restored s))
      end
  end.

Definition mstep (s : mst) (e : ev) : merr + mst :=
  match e with
  | ERecreate id names hs =>
      if negb hs then inl EAttribute else
      match break_patches s names with
      | Some s' => inr s'
      | None => inl EIndex
      end
  | EBuild id state =>
      match cur_frame s with
      | None => inl EIndex
      | Some f =>
          let st' := apply_dict state (patches_of s f) in
          child_restored (mkM (stack s) (iter s) (unused s) (hp s) (restored s ++ [(id, st')])) id
      end
  end.

Fixpoint mrun (s : mst) (es : list ev) : merr + mst :=
  match es with
  | [] => inr s
  | e :: r => match mstep s e with inr s' => mrun s' r | inl x => inl x end
  end.

(* context.__exit__ without exception *)
Definition mexit (s : mst) : merr + mst :=
  if unused s then inr s
  else if negb (iter s =? -1) then inl EAssert
  else match stack s with [] => inr s | _ => inl EAssert end.

Definition load (g : node) (h : heap) (top : option nat) : merr + mst :=
  match mrun (enter h top) (events g) with
  | inr s => mexit s
  | inl e => inl e
  end.
