From PW Require Import Pickle.State.
From Coq Require Import ZifyBool ZifyNat.
Open Scope Z_scope.

(* ---------- chains: every opt-in object has at most one direct opt-in child ---------- *)
Inductive chain :=
| CEnd (id : nat) (atoms : list (Z * Z))
| CLink (id : nat) (pre : list (Z * Z)) (k : Z) (child : chain) (post : list (Z * Z)).

Definition atomf (p : Z * Z) : Z * node := (fst p, Atom (snd p)).

Fixpoint to_node (c : chain) : node :=
  match c with
  | CEnd id atoms => Opt id true (map atomf atoms)
  | CLink id pre k ch post => Opt id true (map atomf pre ++ (k, to_node ch) :: map atomf post)
  end.

Definition cid (c : chain) : nat := match c with CEnd id _ | CLink id _ _ _ _ => id end.

Definition ratom (p : Z * Z) : Z * rval := (fst p, RAtom (snd p)).

(* what each object must be restored with, in the order of the __setstate__ calls (children first) *)
Fixpoint expected (c : chain) : list (nat * list (Z * rval)) :=
  match c with
  | CEnd id atoms => [(id, map ratom atoms)]
  | CLink id pre k ch post => expected ch ++ [(id, map ratom pre ++ (k, RObj (cid ch)) :: map ratom post)]
  end.

Definition go_fields := (fix go (l : list (Z * node)) := match l with [] => [] | (_, x) :: r => events x ++ go r end).

Lemma go_atoms l : go_fields (map atomf l) = [].
Proof. induction l as [|[k z] l IH]; simpl; [reflexivity|exact IH]. Qed.

Lemma go_app l1 l2 : go_fields (l1 ++ l2) = go_fields l1 ++ go_fields l2.
Proof. induction l1 as [|[k x] l1 IH]; simpl; [reflexivity|]. now rewrite IH, app_assoc. Qed.

Lemma filter_atoms l : filter (fun p : Z * node => is_opt (snd p)) (map atomf l) = [].
Proof. induction l as [|[k z] l IH]; simpl; [reflexivity|exact IH]. Qed.

Lemma rvals_atoms l : map (fun p : Z * node => (fst p, rval_of (snd p))) (map atomf l) = map ratom l.
Proof. induction l as [|[k z] l IH]; simpl; [reflexivity|now rewrite IH]. Qed.

Lemma to_node_opt c : exists f, to_node c = Opt (cid c) true f.
Proof. destruct c; simpl; eauto. Qed.

Lemma events_end id atoms :
  events (to_node (CEnd id atoms)) = [ERecreate id [] true; EBuild id (map ratom atoms)].
Proof.
  simpl. rewrite filter_atoms. fold go_fields. rewrite go_atoms, rvals_atoms. reflexivity.
Qed.

Lemma events_link id pre k ch post :
  events (to_node (CLink id pre k ch post)) =
  ERecreate id [k] true :: events (to_node ch)
  ++ [EBuild id (map ratom pre ++ (k, RObj (cid ch)) :: map ratom post)].
Proof.
  simpl. fold go_fields. rewrite filter_app, filter_atoms. simpl.
  destruct (to_node_opt ch) as [f Hf]. rewrite Hf. simpl. rewrite filter_atoms. simpl.
  rewrite go_app, go_atoms. simpl. fold go_fields. rewrite go_atoms, app_nil_r.
  rewrite map_app, rvals_atoms. simpl. rewrite rvals_atoms. reflexivity.
Qed.

Definition all_dummy (st : list frame) : Prop := Forall (fun f => f = dummy) st.

Lemma mrun_app s es1 es2 :
  mrun s (es1 ++ es2) = match mrun s es1 with inr s' => mrun s' es2 | inl e => inl e end.
Proof. revert s; induction es1 as [|e es1 IH]; intros s; simpl; [reflexivity|]. destruct (mstep s e); [reflexivity|apply IH]. Qed.

Definition after_pop (st : list frame) : list frame := removelast st.
Definition top_iter (st : list frame) : Z := Z.of_nat (length st) - 1.

Lemma nth_last_dummy (st : list frame) :
  all_dummy st -> st <> [] -> nth_error st (Z.to_nat (top_iter st)) = Some dummy.
Proof.
  intros Ha Hne. unfold top_iter.
  assert (H : (Z.to_nat (Z.of_nat (length st) - 1) < length st)%nat) by (destruct st; [congruence|cbn [length]; lia]).
  destruct (nth_error st (Z.to_nat (Z.of_nat (length st) - 1))) as [f|] eqn:E.
  - apply nth_error_In in E. unfold all_dummy in Ha. rewrite Forall_forall in Ha. now rewrite (Ha f E).
  - apply nth_error_None in E. lia.
Qed.

Lemma cur_frame_dummy st u h r :
  all_dummy st -> cur_frame (mkM st (top_iter st) u h r) = Some dummy.
Proof.
  intros Ha. unfold cur_frame. cbn [iter stack].
  destruct st as [|f st'] eqn:E.
  - reflexivity.
  - assert (top_iter (f :: st') <? 0 = false) as -> by (unfold top_iter; cbn [length]; lia).
    unfold nthZ. assert (top_iter (f :: st') <? 0 = false) as -> by (unfold top_iter; cbn [length]; lia).
    apply nth_last_dummy; [exact Ha|discriminate].
Qed.

Lemma remove_nth_last {A} (l : list A) : l <> [] -> remove_nth l (length l - 1) = removelast l.
Proof.
  induction l as [|x l IH]; intros H; [congruence|].
  destruct l as [|y l]; [reflexivity|].
  replace (length (x :: y :: l) - 1)%nat with (S (length (y :: l) - 1)) by (cbn [length]; lia).
  simpl remove_nth. simpl removelast. f_equal. apply IH. discriminate.
Qed.

(* restoring one object on top of a stack of placeholder frames *)
Lemma build_on_dummies st u h r id state :
  all_dummy st ->
  mstep (mkM st (top_iter st) u h r) (EBuild id state) =
  inr (mkM (after_pop st) (match st with [] => -1 | _ => top_iter st - 1 end) false h (r ++ [(id, state)])).
Proof.
  intros Ha. unfold mstep. rewrite (cur_frame_dummy st u h r Ha).
  unfold patches_of. cbn [faddr dummy]. cbn [apply_dict fold_left].
  unfold child_restored. cbn [iter stack unused hp restored].
  assert (top_iter st =? Z.of_nat (length st) - 1 = true) as -> by (unfold top_iter; lia). cbn [negb].
  rewrite (cur_frame_dummy st u h (r ++ [(id, state)]) Ha). cbn [parent_i dummy fname faddr].
  assert (-1 <? 0 = true) as -> by reflexivity. cbn.
  destruct st as [|f st'].
  - reflexivity.
  - assert (top_iter (f :: st') <? 0 = false) as -> by (unfold top_iter; cbn [length]; lia).
    unfold after_pop. rewrite <- remove_nth_last by discriminate.
    f_equal. f_equal. unfold top_iter. f_equal. simpl length. lia.
Qed.

Lemma recreate_leaf st u h r id :
  all_dummy st ->
  mstep (mkM st (top_iter st) u h r) (ERecreate id [] true) = inr (mkM st (top_iter st) u h r).
Proof.
  intros Ha. unfold mstep. cbn [negb]. unfold break_patches. rewrite (cur_frame_dummy st u h r Ha). reflexivity.
Qed.

Lemma recreate_link st u h r id k :
  all_dummy st ->
  mstep (mkM st (top_iter st) u h r) (ERecreate id [k] true) =
  inr (mkM (st ++ [dummy]) (top_iter (st ++ [dummy])) u h r).
Proof.
  intros Ha. unfold mstep. cbn [negb]. unfold break_patches. rewrite (cur_frame_dummy st u h r Ha).
  unfold patches_of. cbn [faddr dummy sub_frames dget iter stack unused hp restored].
  unfold insert_at.
  assert (Z.to_nat (top_iter st + 1) = length st) as -> by (unfold top_iter; lia).
  rewrite firstn_all, skipn_all. rewrite app_nil_r.
  f_equal. f_equal. unfold top_iter. rewrite app_length. simpl. lia.
Qed.

Lemma all_dummy_snoc st : all_dummy st -> all_dummy (st ++ [dummy]).
Proof. intros H. apply Forall_app. split; [exact H|constructor; [reflexivity|constructor]]. Qed.

Lemma removelast_snoc {A} (l : list A) x : removelast (l ++ [x]) = l.
Proof. apply removelast_last. Qed.

(* the heart of C14 on chains: any depth, on top of any stack of placeholder frames *)
Lemma chain_restored c : forall st u h r,
  all_dummy st ->
  mrun (mkM st (top_iter st) u h r) (events (to_node c)) =
  inr (mkM (after_pop st) (match st with [] => -1 | _ => top_iter st - 1 end) false h (r ++ expected c)).
Proof.
  induction c as [id atoms|id pre k ch IH post]; intros st u h r Ha.
  - rewrite events_end. cbn [mrun]. rewrite recreate_leaf by exact Ha.
    rewrite build_on_dummies by exact Ha. reflexivity.
  - rewrite events_link. cbn [mrun]. rewrite recreate_link by exact Ha.
    rewrite mrun_app. rewrite IH by (now apply all_dummy_snoc).
    unfold after_pop at 1. rewrite removelast_snoc.
    assert (Hi : match st ++ [dummy] with [] => -1 | _ => top_iter (st ++ [dummy]) - 1 end = top_iter st).
    { destruct st as [|f0 st0]; [reflexivity|]. cbn [app]. unfold top_iter. cbn [length]. rewrite app_length. cbn [length]. lia. }
    rewrite Hi. cbn [mrun]. rewrite build_on_dummies by exact Ha. cbn [expected].
    rewrite <- app_assoc. reflexivity.
Qed.

Theorem chain_loads c :
  load (to_node c) [] None = inr (mkM [] (-1) false [] (expected c)).
Proof.
  unfold load, enter.
  pose proof (chain_restored c [] true [] [] (Forall_nil _)) as H. cbn in H. rewrite H. reflexivity.
Qed.
