(* Proofs about Pickle/State.v, part 3: running the events of a whole graph, by induction on its size; the load theorem. *)
From PW Require Import Pickle.State.
From Coq Require Import ZifyBool ZifyNat.
From PW Require Import Pickle.StateLoops Pickle.StateSteps.
Open Scope Z_scope.

(* ---------- size of a graph term (the induction measure) ---------- *)
Fixpoint nsize (n : node) : nat :=
  match n with
  | Atom _ | Ref _ => 1
  | Lst items => S ((fix go (l : list node) := match l with [] => O | x :: r => (nsize x + go r)%nat end) items)
  | PObj fields => S ((fix go (l : list (Z * node)) := match l with [] => O | (_, x) :: r => (nsize x + go r)%nat end) fields)
  | Opt _ _ fields => S ((fix go (l : list (Z * node)) := match l with [] => O | (_, x) :: r => (nsize x + go r)%nat end) fields)
  end.
Fixpoint isize (l : list node) : nat := match l with [] => O | x :: r => (nsize x + isize r)%nat end.
Fixpoint fsize (l : list (Z * node)) : nat := match l with [] => O | (_, x) :: r => (nsize x + fsize r)%nat end.
Lemma nsize_lst items : nsize (Lst items) = S (isize items).
Proof. reflexivity. Qed.
Lemma nsize_pobj f : nsize (PObj f) = S (fsize f).
Proof. reflexivity. Qed.
Lemma nsize_opt i h f : nsize (Opt i h f) = S (fsize f).
Proof. reflexivity. Qed.

(* ---------- what running the events of one node does to the machine ---------- *)
Definition P_ann (x : node) : Prop :=
  forall id hs f, x = Opt id hs f -> forall c u rs, link_ok c ->
    exists u', mrun (mkM (cstack c) (citer c) u rs) (events_s x true)
               = inr (mkM (after c id) (Z.of_nat (length (after c id)) - 1) u' (rs ++ spec x (cpat c))).
Definition P_un (x : node) : Prop :=
  forall S u rs, exists u', mrun (mkM S (Z.of_nat (length S) - 1) u rs) (events_s x false)
                            = inr (mkM S (Z.of_nat (length S) - 1) u' (rs ++ spec x [])).

Definition rebind_step (p : pdict) (acc : pdict) (f : Z * node) : pdict :=
  match snd f with
  | Opt j _ _ => match dget p (fst f) with Some (PDict _) => dset acc (fst f) (PObjRef j) | _ => acc end
  | _ => acc
  end.
Lemma rebind_fold p fields : rebind p fields = fold_left (rebind_step p) fields p.
Proof. reflexivity. Qed.

Definition patinv (c : ctx) (p : pdict) : Prop :=
  match c with Virtual => p = [] | Real _ F => p <> [] -> fpat F <> [] end.

Lemma direct_names_cons_opt k j h f r : direct_names ((k, Opt j h f) :: r) = k :: direct_names r.
Proof. reflexivity. Qed.
Lemma direct_names_cons_other k x r : (forall j h f, x <> Opt j h f) -> direct_names ((k, x) :: r) = direct_names r.
Proof. intros H. destruct x; try reflexivity. exfalso. eapply H. reflexivity. Qed.

Lemma citer_real B F : citer (Real B F) = Z.of_nat (length B).
Proof. unfold citer. cbn [cstack]. rewrite app_length. cbn [length]. lia. Qed.

Lemma set_pat_stack_same c : cstack (set_pat c (cpat c)) = cstack c.
Proof. destruct c as [|B [pi fn fp]]; reflexivity. Qed.
Lemma set_pat_twice c q q' : set_pat (set_pat c q) q' = set_pat c q'.
Proof. destruct c; reflexivity. Qed.
Lemma citer_set_pat c q : citer (set_pat c q) = citer c.
Proof. destruct c as [|B F]; [reflexivity|]. cbn [set_pat]. rewrite !citer_real. reflexivity. Qed.
Lemma cpat_set_pat_real B F q : cpat (set_pat (Real B F) q) = q.
Proof. reflexivity. Qed.
Lemma set_pat_cpat c : set_pat c (cpat c) = c.
Proof. destruct c as [|B [pi fn fp]]; reflexivity. Qed.

Lemma stack_len c q (names : list Z) :
  citer c + Z.of_nat (length names) = Z.of_nat (length (cstack c ++ rev (map (sub_frame (citer c) q) names))) - 1.
Proof. unfold citer at 1. rewrite app_length, rev_length, map_length. lia. Qed.

(* the loop over the fields of an announced object: the entries of its directly held children are consumed one by
   one, each child leaves itself behind in the patches of its holder *)
Lemma run_fields p fs :
  (forall k x, In (k, x) fs -> P_ann x /\ P_un x) ->
  forall c u rs, patinv c p ->
    exists u',
      mrun (mkM (cstack c ++ rev (map (sub_frame (citer c) p) (direct_names fs))) (citer c + Z.of_nat (length (direct_names fs))) u rs)
           (evs_ofields fs)
      = inr (mkM (cstack (set_pat c (fold_left (rebind_step p) fs (cpat c)))) (citer c) u' (rs ++ spec_ofields p fs)).
Proof.
  induction fs as [|[k x] r IH]; intros HP c u rs PI.
  - exists u. cbn [direct_names filter map rev length evs_ofields mrun fold_left spec_ofields].
    rewrite !app_nil_r, set_pat_cpat. f_equal. f_equal. lia.
  - assert (HPr : forall k0 x0, In (k0, x0) r -> P_ann x0 /\ P_un x0) by (intros k0 x0 Hin; apply (HP k0 x0); right; exact Hin).
    destruct (HP k x (or_introl eq_refl)) as [HA HU].
    cbn [evs_ofields fold_left spec_ofields]. rewrite mrun_app.
    assert (OTHER : (forall j h f, x <> Opt j h f) ->
      exists u', match mrun (mkM (cstack c ++ rev (map (sub_frame (citer c) p) (direct_names ((k, x) :: r)))) (citer c + Z.of_nat (length (direct_names ((k, x) :: r)))) u rs) (events_s x true)
                 with inr s' => mrun s' (evs_ofields r) | inl e => inl e end
      = inr (mkM (cstack (set_pat c (fold_left (rebind_step p) r (rebind_step p (cpat c) (k, x))))) (citer c) u'
                 (rs ++ spec x (match x with Opt _ _ _ => sub_patches p k | _ => [] end) ++ spec_ofields p r))).
    { intros NO. rewrite (direct_names_cons_other k x r NO), (events_s_flag x NO).
      rewrite (stack_len c p).
      destruct (HU (cstack c ++ rev (map (sub_frame (citer c) p) (direct_names r))) u rs) as [u1 E1].
      rewrite E1. rewrite <- (stack_len c p).
      destruct (IH HPr c u1 (rs ++ spec x []) PI) as [u2 E2]. exists u2. rewrite E2.
      assert (RS : rebind_step p (cpat c) (k, x) = cpat c) by (unfold rebind_step; cbn [snd]; destruct x; try reflexivity; exfalso; eapply NO; reflexivity).
      rewrite RS. rewrite <- app_assoc.
      destruct x; try reflexivity. exfalso. eapply NO. reflexivity. }
    destruct x as [z|items|pf|j h f|j]; try (apply OTHER; intros; discriminate).
    clear OTHER.
    rewrite direct_names_cons_opt. cbn [map rev length].
    set (subs := map (sub_frame (citer c) p) (direct_names r)).
    set (fk := sub_frame (citer c) p k).
    set (Bk := cstack c ++ rev subs).
    assert (ST : cstack c ++ rev subs ++ [fk] = cstack (Real Bk fk)) by (unfold Bk; cbn [cstack]; now rewrite app_assoc).
    assert (IT : citer c + Z.of_nat (S (length (direct_names r))) = citer (Real Bk fk)).
    { rewrite citer_real. unfold Bk. rewrite app_length, rev_length. unfold subs. rewrite map_length. unfold citer. lia. }
    rewrite ST, IT.
    assert (LK : link_ok (Real Bk fk)).
    { cbn [link_ok]. unfold fk, sub_frame. destruct (dget p k) as [[z|d|o]|] eqn:EG; cbn [fname parent_i dummy]; try reflexivity.
      destruct c as [|B F]; [cbn [patinv] in PI; subst p; discriminate|].
      exists F. rewrite citer_real. split; [lia|]. split.
      - rewrite Nat2Z.id. unfold Bk. cbn [cstack]. rewrite <- app_assoc. cbn [app]. apply nth_error_mid.
      - apply PI. intros ->. discriminate. }
    destruct (HA j h f eq_refl (Real Bk fk) u rs LK) as [u1 E1]. rewrite E1.
    (* where the child leaves the machine *)
    assert (AF : after (Real Bk fk) j = cstack (set_pat c (rebind_step p (cpat c) (k, Opt j h f))) ++ rev subs
                 /\ cpat (Real Bk fk) = sub_patches p k
                 /\ patinv (set_pat c (rebind_step p (cpat c) (k, Opt j h f))) p
                 /\ cpat (set_pat c (rebind_step p (cpat c) (k, Opt j h f))) = rebind_step p (cpat c) (k, Opt j h f)).
    { cbn [after]. unfold cpat at 1. cbn [cframe]. unfold fk, sub_frame, sub_patches, rebind_step. cbn [snd fst].
      destruct (dget p k) as [[z|d|o]|] eqn:EG; cbn [fname parent_i fpat dummy].
      1,3,4: (split; [unfold Bk; now rewrite set_pat_stack_same|split; [reflexivity|split; [now rewrite set_pat_cpat|now rewrite set_pat_cpat]]]).
      destruct c as [|B F]; [cbn [patinv] in PI; subst p; discriminate|].
      rewrite citer_real, Nat2Z.id. unfold Bk. cbn [cstack set_pat]. rewrite <- !app_assoc. cbn [app].
      rewrite nth_error_mid, update_nth_mid. split; [reflexivity|]. split; [reflexivity|]. split; [|reflexivity].
      cbn [patinv]. intros _. cbn [fpat]. apply dset_nonempty. }
    destruct AF as [AF1 [AF2 [AF3 AF4]]].
    rewrite AF1, AF2.
    set (c2 := set_pat c (rebind_step p (cpat c) (k, Opt j h f))) in *.
    assert (CI0 : citer c2 = citer c) by (unfold c2; apply citer_set_pat).
    assert (IT2 : Z.of_nat (length (cstack c2 ++ rev subs)) - 1 = citer c2 + Z.of_nat (length (direct_names r))).
    { unfold subs. rewrite <- CI0. symmetry. apply stack_len. }
    rewrite IT2.
    assert (CI : citer c2 = citer c) by (unfold c2; apply citer_set_pat).
    unfold subs. rewrite <- CI.
    destruct (IH HPr c2 u1 (rs ++ spec (Opt j h f) (sub_patches p k)) AF3) as [u2 E2].
    exists u2. rewrite E2, AF4. unfold c2. rewrite set_pat_twice, citer_set_pat, <- app_assoc. reflexivity.
Qed.

Lemma run_items items :
  (forall x, In x items -> P_un x) ->
  forall S u rs, exists u', mrun (mkM S (Z.of_nat (length S) - 1) u rs) (evs_items items)
                            = inr (mkM S (Z.of_nat (length S) - 1) u' (rs ++ spec_items items)).
Proof.
  induction items as [|x r IH]; intros HP S u rs.
  - exists u. cbn. now rewrite app_nil_r.
  - cbn [evs_items spec_items]. rewrite mrun_app.
    destruct (HP x (or_introl eq_refl) S u rs) as [u1 E1]. rewrite E1.
    destruct (IH (fun y Hy => HP y (or_intror Hy)) S u1 (rs ++ spec x [])) as [u2 E2].
    exists u2. rewrite E2. now rewrite <- app_assoc.
Qed.

Lemma run_pfields fields :
  (forall k x, In (k, x) fields -> P_un x) ->
  forall S u rs, exists u', mrun (mkM S (Z.of_nat (length S) - 1) u rs) (evs_pfields fields)
                            = inr (mkM S (Z.of_nat (length S) - 1) u' (rs ++ spec_pfields fields)).
Proof.
  induction fields as [|[k x] r IH]; intros HP S u rs.
  - exists u. cbn. now rewrite app_nil_r.
  - cbn [evs_pfields spec_pfields]. rewrite mrun_app.
    destruct (HP k x (or_introl eq_refl) S u rs) as [u1 E1]. rewrite E1.
    destruct (IH (fun k0 y Hy => HP k0 y (or_intror Hy)) S u1 (rs ++ spec x [])) as [u2 E2].
    exists u2. rewrite E2. now rewrite <- app_assoc.
Qed.

Lemma in_isize x items : In x items -> (nsize x <= isize items)%nat.
Proof. induction items as [|y r IH]; intros H; [destruct H|]. destruct H as [->|H]; cbn [isize]; [lia|]. specialize (IH H). lia. Qed.
Lemma in_fsize k x fields : In (k, x) fields -> (nsize x <= fsize fields)%nat.
Proof. induction fields as [|[k' y] r IH]; intros H; [destruct H|]. destruct H as [E|H]; cbn [fsize]; [inversion E; subst; lia|]. specialize (IH H). lia. Qed.

Lemma rebind_nil fs : fold_left (rebind_step []) fs [] = [].
Proof. induction fs as [|[k x] r IH]; [reflexivity|]. cbn [fold_left]. unfold rebind_step at 2. cbn [snd fst dget]. destruct x; exact IH. Qed.

Lemma after_set_pat c q id : after (set_pat c q) id = after c id.
Proof. destruct c as [|B F]; reflexivity. Qed.
Lemma link_ok_set_pat c q : link_ok c -> link_ok (set_pat c q).
Proof. destruct c as [|B F]; [trivial|]. cbn [set_pat link_ok fname parent_i]. trivial. Qed.
Lemma patinv_self c : patinv c (cpat c).
Proof. destruct c as [|B F]; [reflexivity|]. cbn. trivial. Qed.

Lemma run_node_sz m : forall x, (nsize x < m)%nat -> P_ann x /\ P_un x.
Proof.
  induction m as [|m IHm]; intros x Hs; [lia|].
  destruct x as [z|items|pf|id hs f|j].
  - split; [intros ? ? ? E; discriminate|]. intros S u rs. exists u. cbn. now rewrite app_nil_r.
  - split; [intros ? ? ? E; discriminate|]. intros S u rs. rewrite events_s_lst, spec_lst.
    apply run_items. intros y Hy. apply IHm. rewrite nsize_lst in Hs. pose proof (in_isize y items Hy). lia.
  - split; [intros ? ? ? E; discriminate|]. intros S u rs. rewrite events_s_pobj, spec_pobj.
    apply run_pfields. intros k y Hy. apply IHm. rewrite nsize_pobj in Hs. pose proof (in_fsize k y pf Hy). lia.
  - assert (HF : forall k y, In (k, y) f -> P_ann y /\ P_un y).
    { intros k y Hy. apply IHm. rewrite nsize_opt in Hs. pose proof (in_fsize k y f Hy). lia. }
    assert (CORE : forall c u rs, link_ok c ->
      exists u', mrun (mkM (cstack c) (citer c) u rs) (ERecreate id (direct_names f) hs true :: evs_ofields f ++ [EBuild id (state_of f)])
                 = inr (mkM (after c id) (Z.of_nat (length (after c id)) - 1) u' (rs ++ spec (Opt id hs f) (cpat c)))).
    { intros c u rs LK. cbn [mrun]. rewrite step_recreate. rewrite mrun_app.
      destruct (run_fields (cpat c) f HF c u rs (patinv_self c)) as [u1 E1]. rewrite E1.
      set (c3 := set_pat c (fold_left (rebind_step (cpat c)) f (cpat c))).
      rewrite <- (citer_set_pat c (fold_left (rebind_step (cpat c)) f (cpat c))). fold c3.
      cbn [mrun]. rewrite (step_build c3 u1 _ id (state_of f) (link_ok_set_pat c _ LK)).
      exists false. unfold c3. rewrite after_set_pat. rewrite spec_opt, rebind_fold.
      rewrite <- app_assoc.
      destruct c as [|B F]; [cbn [set_pat]; unfold cpat; cbn [cframe dummy fpat]; now rewrite rebind_nil|reflexivity]. }
    split.
    + intros id' hs' f' E. inversion E; subst id' hs' f'. intros c u rs LK. rewrite events_s_opt. apply CORE. exact LK.
    + intros S u rs. rewrite events_s_opt. cbn [mrun]. rewrite step_recreate_un.
      destruct (CORE (Real S dummy) u rs eq_refl) as [u' E']. cbn [mrun] in E'. exists u'. exact E'.
  - split; [intros ? ? ? E; discriminate|]. intros S u rs. exists u. cbn. now rewrite app_nil_r.
Qed.

Theorem run_node x : P_ann x /\ P_un x.
Proof. apply (run_node_sz (S (nsize x))). lia. Qed.

(* ---------- a whole load ---------- *)
Definition clean_end (g : node) (p : pdict) (s : mst) : Prop :=
  (stack s = [] /\ iter s = -1)
  \/ ((forall id hs f, g <> Opt id hs f) /\ p <> [] /\ stack s = [mkFr (-1) None p] /\ iter s = 0).

Lemma mexit_clean g p s : clean_end g p s -> mexit s = inr s.
Proof.
  unfold mexit. intros [[H1 H2]|[_ [_ [H1 H2]]]]; destruct (unused s); try reflexivity; rewrite H1, H2; reflexivity.
Qed.

Theorem load_events_spec g p :
  exists s, load_events (events_s g true) p = inr s /\ restored s = spec g (top_patches g p) /\ clean_end g p s.
Proof.
  destruct (run_node g) as [HA HU]. unfold load_events.
  assert (NONOPT : (forall id hs f, g <> Opt id hs f) ->
    exists s, match mrun (enter p) (events_s g true) with inr s => mexit s | inl e => inl e end = inr s
              /\ restored s = spec g (top_patches g p) /\ clean_end g p s).
  { intros NO. rewrite (events_s_flag g NO).
    assert (TP : top_patches g p = []) by (destruct g; try reflexivity; exfalso; eapply NO; reflexivity).
    rewrite TP.
    destruct p as [|e p'].
    - destruct (HU [] true []) as [u' E]. cbn [enter]. cbn [length] in E. cbn [Z.of_nat] in E.
      replace (0 - 1) with (-1) in E by lia. rewrite E.
      eexists. split; [apply (mexit_clean g []); left; split; reflexivity|]. split; [reflexivity|left; split; reflexivity].
    - destruct (HU [mkFr (-1) None (e :: p')] true []) as [u' E]. cbn [enter]. cbn [length] in E.
      replace (Z.of_nat 1 - 1) with 0 in E by lia. rewrite E.
      eexists. split; [apply (mexit_clean g (e :: p')); right; repeat split; try assumption; discriminate|].
      split; [reflexivity|right; repeat split; try assumption; discriminate]. }
  destruct g as [z|items|pf|id hs f|j]; try (apply NONOPT; intros; discriminate).
  clear NONOPT. cbn [top_patches].
  destruct p as [|e p'].
  - destruct (HA id hs f eq_refl Virtual true [] I) as [u' E]. cbn [enter].
    change (cstack Virtual) with (@nil frame) in E. change (citer Virtual) with (-1) in E. rewrite E.
    cbn [after length Z.of_nat]. replace (0 - 1) with (-1) by lia.
    eexists. split; [apply (mexit_clean (Opt id hs f) []); left; split; reflexivity|]. split; [reflexivity|left; split; reflexivity].
  - assert (LK : link_ok (Real [] (mkFr (-1) None (e :: p')))) by reflexivity.
    destruct (HA id hs f eq_refl (Real [] (mkFr (-1) None (e :: p'))) true [] LK) as [u' E]. cbn [enter].
    change (cstack (Real [] (mkFr (-1) None (e :: p')))) with [mkFr (-1) None (e :: p')] in E.
    change (citer (Real [] (mkFr (-1) None (e :: p')))) with 0 in E. rewrite E.
    cbn [after fname length Z.of_nat]. replace (0 - 1) with (-1) by lia.
    eexists. split; [apply (mexit_clean (Opt id hs f) (e :: p')); left; split; reflexivity|]. split; [reflexivity|left; split; reflexivity].
Qed.

(* dumps followed by loads, for the graphs on which the pickler's bookkeeping of announcements coincides with the
   structure of the graph (the top-level object and every directly held first occurrence are announced, nothing else) *)
Definition announced_structurally (g : node) : Prop := dump_events g = events_s g true.

Theorem load_spec g p :
  announced_structurally g ->
  exists s, load g p = inr s /\ restored s = spec g (top_patches g p) /\ clean_end g p s.
Proof. intros H. unfold load. rewrite H. apply load_events_spec. Qed.
