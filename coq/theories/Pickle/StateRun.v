From PW Require Import Pickle.State.
Open Scope Z_scope.

Inductive eres := XOk (restored : list (nat * list (Z * rval))) (final_heap : heap) | XErr (e : merr).

Definition rval_eqb (a b : rval) : bool :=
  match a, b with
  | RAtom x, RAtom y => x =? y
  | RObj i, RObj j => Nat.eqb i j
  | RCont, RCont => true
  | RDict a, RDict b => Nat.eqb a b
  | _, _ => false
  end.
Fixpoint leqb {A} (eq : A -> A -> bool) (a b : list A) : bool :=
  match a, b with [], [] => true | x :: a', y :: b' => eq x y && leqb eq a' b' | _, _ => false end.
Definition field_eqb (a b : Z * rval) := (fst a =? fst b) && rval_eqb (snd a) (snd b).
Definition obj_eqb (a b : nat * list (Z * rval)) := Nat.eqb (fst a) (fst b) && leqb field_eqb (snd a) (snd b).
Definition pv_eqb (a b : pv) : bool :=
  match a, b with
  | PVal x, PVal y => x =? y
  | PDictRef i, PDictRef j => Nat.eqb i j
  | PObjRef i, PObjRef j => Nat.eqb i j
  | _, _ => false
  end.
Definition pd_eqb (a b : pdict) := leqb (fun x y => (fst x =? fst y) && pv_eqb (snd x) (snd y)) a b.
Definition heap_eqb (a b : heap) := leqb (fun x y => Nat.eqb (fst x) (fst y) && pd_eqb (snd x) (snd y)) a b.
Definition merr_eqb (a b : merr) : bool :=
  match a, b with EAssert, EAssert | EAttribute, EAttribute | EIndex, EIndex | ETypeErr, ETypeErr => true | _, _ => false end.

(* heaps are compared on the addresses the harness lists *)
Definition check_load (g : node) (h : heap) (top : option nat) (expected : eres) : bool :=
  match load g h top, expected with
  | inl e, XErr e' => merr_eqb e e'
  | inr s, XOk r fh => leqb obj_eqb (restored s) r && heap_eqb (map (fun p => (fst p, hget (hp s) (fst p))) fh) fh
  | _, _ => false
  end.
