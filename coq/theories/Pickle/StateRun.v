From PW Require Import Pickle.State.
Open Scope Z_scope.

Inductive eres := XOk (restored : list (nat * list (Z * rval))) | XErr (e : merr).

Fixpoint leqb {A} (eq : A -> A -> bool) (a b : list A) : bool :=
  match a, b with [], [] => true | x :: a', y :: b' => eq x y && leqb eq a' b' | _, _ => false end.

(* restored values: a dictionary that replaced an entry is compared as "a dictionary" *)
Definition rval_eqb (a b : rval) : bool :=
  match a, b with
  | RAtom x, RAtom y => x =? y
  | RObj i, RObj j => Nat.eqb i j
  | RCont, RCont => true
  | RDictV _, RDictV _ => true
  | _, _ => false
  end.
Definition field_eqb (a b : Z * rval) := (fst a =? fst b) && rval_eqb (snd a) (snd b).
Definition obj_eqb (a b : nat * list (Z * rval)) := Nat.eqb (fst a) (fst b) && leqb field_eqb (snd a) (snd b).
Definition merr_eqb (a b : merr) : bool :=
  match a, b with EAssert, EAssert | EAttribute, EAttribute | EIndex, EIndex | ETypeErr, ETypeErr => true | _, _ => false end.

Definition check_load (g : node) (p : pdict) (expected : eres) : bool :=
  match load g p, expected with
  | inl e, XErr e' => merr_eqb e e'
  | inr s, XOk r => leqb obj_eqb (restored s) r
  | _, _ => false
  end.

(* the dump side: which reduce callable (announced or not) and which children_names the pickler chose per instance *)
Definition recreates (es : list ev) : list (nat * list Z * bool) :=
  flat_map (fun e => match e with ERecreate id names _ a => [(id, names, a)] | _ => [] end) es.
Definition rec_eqb (a b : nat * list Z * bool) : bool :=
  let '(i, n, x) := a in let '(j, m, y) := b in Nat.eqb i j && leqb Z.eqb n m && Bool.eqb x y.
Definition check_dump (g : node) (expected : list (nat * list Z * bool)) : bool :=
  leqb rec_eqb (recreates (dump_events g)) expected.

(* the implementation's restored states against the SPECIFICATION directly *)
Definition check_spec (g : node) (p : pdict) (observed : list (nat * list (Z * rval))) : bool :=
  leqb obj_eqb (spec g (top_patches g p)) observed.
