(* Proofs about Pickle/State.v, part 4: the pickler-side bookkeeping (scan/events with the sets seen, ann) coincides with the
   structural reading of 'announced' on a syntactic class of graphs (distinct instances; an attribute that is a reference
   points to the object itself or to an object it is nested in; references elsewhere are unrestricted). *)
From PW Require Import Pickle.State Pickle.StateLoops Pickle.StateSteps Pickle.StateProofs.
From Coq Require Import ZifyBool ZifyNat.
Open Scope Z_scope.

(* ---------- a syntactic class of graphs on which the pickler's announcements coincide with the structure ---------- *)
Fixpoint ids (n : node) : list nat :=
  match n with
  | Atom _ | Ref _ => []
  | Lst items => (fix go (l : list node) := match l with [] => [] | x :: r => ids x ++ go r end) items
  | PObj fields => (fix go (l : list (Z * node)) := match l with [] => [] | (_, x) :: r => ids x ++ go r end) fields
  | Opt id _ fields => id :: (fix go (l : list (Z * node)) := match l with [] => [] | (_, x) :: r => ids x ++ go r end) fields
  end.
Fixpoint ids_items (l : list node) : list nat := match l with [] => [] | x :: r => ids x ++ ids_items r end.
Fixpoint ids_fields (l : list (Z * node)) : list nat := match l with [] => [] | (_, x) :: r => ids x ++ ids_fields r end.
Lemma ids_lst items : ids (Lst items) = ids_items items. Proof. reflexivity. Qed.
Lemma ids_pobj f : ids (PObj f) = ids_fields f. Proof. reflexivity. Qed.
Lemma ids_opt i h f : ids (Opt i h f) = i :: ids_fields f. Proof. reflexivity. Qed.

(* direct references (an attribute of an opt-in object that is a Ref) point to the object itself or to one of the
   objects it is nested in (parent pointers, cycles); references anywhere else - in containers, in objects of classes
   which do not opt in - are unrestricted *)
Fixpoint refs_up (E : list nat) (n : node) : Prop :=
  match n with
  | Atom _ | Ref _ => True
  | Lst items => (fix go (l : list node) := match l with [] => True | x :: r => refs_up E x /\ go r end) items
  | PObj fields => (fix go (l : list (Z * node)) := match l with [] => True | (_, x) :: r => refs_up E x /\ go r end) fields
  | Opt id _ fields =>
      (fix go (l : list (Z * node)) :=
         match l with
         | [] => True
         | (_, x) :: r => (match x with Ref j => In j (id :: E) | _ => refs_up (id :: E) x end) /\ go r
         end) fields
  end.
Definition refs_up_items E : list node -> Prop :=
  fix go (l : list node) : Prop := match l with [] => True | x :: r => refs_up E x /\ go r end.
Definition refs_up_pfields E : list (Z * node) -> Prop :=
  fix go (l : list (Z * node)) : Prop := match l with [] => True | (_, x) :: r => refs_up E x /\ go r end.
Definition refs_up_ofields E : list (Z * node) -> Prop :=
  fix go (l : list (Z * node)) : Prop :=
    match l with [] => True | (_, x) :: r => (match x with Ref j => In j E | _ => refs_up E x end) /\ go r end.
Lemma refs_up_lst E items : refs_up E (Lst items) = refs_up_items E items. Proof. reflexivity. Qed.
Lemma refs_up_pobj E f : refs_up E (PObj f) = refs_up_pfields E f. Proof. reflexivity. Qed.
Lemma refs_up_opt E i h f : refs_up E (Opt i h f) = refs_up_ofields (i :: E) f. Proof. reflexivity. Qed.

Definition tidy (g : node) : Prop := NoDup (ids g) /\ refs_up [] g.

(* ---------- events with names for the loops ---------- *)
Fixpoint ev_items (l : list node) (s : pst) : list ev * pst :=
  match l with [] => ([], s) | x :: r => let '(e1, s1) := events x s in let '(e2, s2) := ev_items r s1 in (e1 ++ e2, s2) end.
Fixpoint ev_fields (l : list (Z * node)) (s : pst) : list ev * pst :=
  match l with [] => ([], s) | (_, x) :: r => let '(e1, s1) := events x s in let '(e2, s2) := ev_fields r s1 in (e1 ++ e2, s2) end.
Lemma events_lst items s : events (Lst items) s = ev_items items s. Proof. reflexivity. Qed.
Lemma events_pobj f s : events (PObj f) s = ev_fields f s. Proof. reflexivity. Qed.
Lemma events_opt id hs f s :
  events (Opt id hs f) s =
  let s1 := mkP (id :: seen s) (remove_nat id (ann s)) in
  let '(names, s2) := scan f s1 in
  let '(es, s3) := ev_fields f s2 in
  (ERecreate id names hs (memb id (ann s)) :: es ++ [EBuild id (state_of f)], s3).
Proof. reflexivity. Qed.

Lemma memb_In x l : memb x l = true <-> In x l.
Proof.
  unfold memb. rewrite existsb_exists. split.
  - intros [y [H1 H2]]. apply Nat.eqb_eq in H2. subst. exact H1.
  - intros H. exists x. split; [exact H|apply Nat.eqb_refl].
Qed.
Lemma memb_false x l : memb x l = false <-> ~ In x l.
Proof. rewrite <- memb_In. destruct (memb x l); split; intros H; try congruence; try (exfalso; apply H; reflexivity). Qed.
Lemma In_remove_nat x y l : In y (remove_nat x l) <-> In y l /\ y <> x.
Proof.
  unfold remove_nat. rewrite filter_In. split; intros [A B]; split; auto.
  - intros ->. rewrite Nat.eqb_refl in B. discriminate.
  - destruct (Nat.eqb x y) eqn:E; [apply Nat.eqb_eq in E; congruence|reflexivity].
Qed.

Fixpoint direct_ids (fields : list (Z * node)) : list nat :=
  match fields with
  | [] => []
  | (_, Opt j _ _) :: r => j :: direct_ids r
  | _ :: r => direct_ids r
  end.

Lemma scan_tidy fields : forall s,
  (forall j, In j (direct_ids fields) -> ~ In j (seen s)) -> NoDup (direct_ids fields) ->
  (forall k j, In (k, Ref j) fields -> In j (seen s)) ->
  exists s2, scan fields s = (direct_names fields, s2)
             /\ (forall j, In j (seen s2) <-> In j (seen s) \/ In j (direct_ids fields))
             /\ (forall j, In j (ann s2) <-> In j (ann s) \/ In j (direct_ids fields)).
Proof.
  induction fields as [|[k x] r IH]; intros s HF ND HR.
  - exists s. cbn. split; [reflexivity|]. split; intros j; tauto.
  - assert (HRr : forall k0 j, In (k0, Ref j) r -> In j (seen s)) by (intros k0 j Hin; apply (HR k0 j); right; exact Hin).
    destruct x as [z|items|pf|j h f|j].
    + cbn [scan direct_ids]. rewrite (direct_names_cons_other k (Atom z) r) by (intros; discriminate). apply IH; assumption.
    + cbn [scan direct_ids]. rewrite (direct_names_cons_other k (Lst items) r) by (intros; discriminate). apply IH; assumption.
    + cbn [scan direct_ids]. rewrite (direct_names_cons_other k (PObj pf) r) by (intros; discriminate). apply IH; assumption.
    + cbn [direct_ids] in *. rewrite direct_names_cons_opt. cbn [scan].
      assert (Hj : memb j (seen s) = false) by (apply memb_false; apply HF; left; reflexivity).
      rewrite Hj. inversion ND as [|? ? Hnotin ND']; subst.
      destruct (IH (mkP (j :: seen s) (j :: ann s))) as [s2 [E [S A]]].
      * intros i Hi. cbn [seen]. intros [->|Hs]; [contradiction|]. apply (HF i); [right; exact Hi|exact Hs].
      * exact ND'.
      * intros k0 i Hin. cbn [seen]. right. apply (HRr k0 i Hin).
      * exists s2. rewrite E. split; [reflexivity|]. cbn [seen ann] in S, A.
        split; intros i; [rewrite S|rewrite A]; cbn [In]; intuition.
    + cbn [scan direct_ids]. rewrite (direct_names_cons_other k (Ref j) r) by (intros; discriminate).
      assert (Hj : memb j (seen s) = true) by (apply memb_In; apply (HR k j); left; reflexivity).
      rewrite Hj. apply IH; assumption.
Qed.

Definition fresh (s : pst) (j : nat) : Prop := ~ In j (seen s) /\ ~ In j (ann s).
Definition own_id (n : node) : option nat := match n with Opt id _ _ => Some id | _ => None end.

(* what the pickler's bookkeeping must look like when it reaches a node *)
Definition Pre (E : list nat) (n : node) (a : bool) (s : pst) : Prop :=
  NoDup (ids n) /\ refs_up E n /\ (forall j, In j E -> In j (seen s))
  /\ (forall j, In j (ids n) -> own_id n <> Some j -> fresh s j)
  /\ (forall id, own_id n = Some id -> if a then In id (seen s) /\ In id (ann s) else fresh s id).

Definition Post (n : node) (a : bool) (s : pst) (r : list ev * pst) : Prop :=
  fst r = events_s n a
  /\ (forall j, In j (seen (snd r)) <-> In j (seen s) \/ In j (ids n))
  /\ (forall j, In j (ann (snd r)) <-> In j (ann s) /\ ~ In j (ids n)).

Definition Good (n : node) : Prop := forall E a s, Pre E n a s -> Post n a s (events n s).

Lemma direct_ids_incl fs j : In j (direct_ids fs) -> In j (ids_fields fs).
Proof.
  induction fs as [|[k x] r IH]; [intros []|]. cbn [ids_fields]. destruct x; cbn [direct_ids]; intros H;
    try (apply in_or_app; right; apply IH; exact H).
  rewrite ids_opt. destruct H as [->|H]; [left; reflexivity|]. apply in_or_app. right. apply IH. exact H.
Qed.

Lemma NoDup_app_l {A} (l1 l2 : list A) : NoDup (l1 ++ l2) -> NoDup l1.
Proof. induction l1 as [|a l1 IH]; intros H; [constructor|]. inversion H as [|? ? Hn Hd]; subst. constructor; [intros Hin; apply Hn; apply in_or_app; left; exact Hin|apply IH; exact Hd]. Qed.
Lemma NoDup_app_r {A} (l1 l2 : list A) : NoDup (l1 ++ l2) -> NoDup l2.
Proof. induction l1 as [|a l1 IH]; intros H; [exact H|]. inversion H as [|? ? Hn Hd]; subst. apply IH. exact Hd. Qed.
Lemma NoDup_app_disj {A} (l1 l2 : list A) x : NoDup (l1 ++ l2) -> In x l1 -> In x l2 -> False.
Proof.
  induction l1 as [|a l1 IH]; intros H H1 H2; [destruct H1|]. inversion H as [|? ? Hn Hd]; subst.
  destruct H1 as [->|H1]; [apply Hn; apply in_or_app; right; exact H2|apply IH; assumption].
Qed.

Lemma NoDup_direct fs : NoDup (ids_fields fs) -> NoDup (direct_ids fs).
Proof.
  induction fs as [|[k x] r IH]; intros H; [constructor|]. cbn [ids_fields] in H.
  pose proof (NoDup_app_r _ _ H) as Hr.
  destruct x; cbn [direct_ids]; try (apply IH; exact Hr).
  constructor; [|apply IH; exact Hr].
  intros Hin. apply (NoDup_app_disj _ _ id H); [rewrite ids_opt; left; reflexivity|apply direct_ids_incl; exact Hin].
Qed.

(* the loop over the attribute values of an announced object *)
Lemma loop_ofields E fs :
  (forall k x, In (k, x) fs -> Good x) ->
  forall s, NoDup (ids_fields fs) -> refs_up_ofields E fs -> (forall j, In j E -> In j (seen s)) ->
    (forall j, In j (direct_ids fs) -> In j (seen s) /\ In j (ann s)) ->
    (forall j, In j (ids_fields fs) -> ~ In j (direct_ids fs) -> fresh s j) ->
    fst (ev_fields fs s) = evs_ofields fs
    /\ (forall j, In j (seen (snd (ev_fields fs s))) <-> In j (seen s) \/ In j (ids_fields fs))
    /\ (forall j, In j (ann (snd (ev_fields fs s))) <-> In j (ann s) /\ ~ In j (ids_fields fs)).
Proof.
  induction fs as [|[k x] r IH]; intros HG s ND RU HE HD HFr.
  - cbn. split; [reflexivity|]. split; intros j; tauto.
  - cbn [ev_fields evs_ofields ids_fields] in *.
    assert (HGr : forall k0 x0, In (k0, x0) r -> Good x0) by (intros k0 x0 Hin; apply (HG k0 x0); right; exact Hin).
    destruct RU as [RUx RUr].
    pose proof (NoDup_app_l _ _ ND) as NDx. pose proof (NoDup_app_r _ _ ND) as NDr.
    assert (DISJ : forall j, In j (ids x) -> In j (ids_fields r) -> False) by (intros j; apply NoDup_app_disj; exact ND).
    (* the bookkeeping when x is reached *)
    assert (PX : Pre E x true s).
    { split; [exact NDx|]. split; [destruct x; try exact RUx; exact I|]. split; [exact HE|]. split.
      - intros j Hj Hown. apply HFr; [apply in_or_app; left; exact Hj|].
        intros Hd. destruct x as [z|items|pf|i h f|i]; cbn [direct_ids] in Hd;
          try (apply (DISJ j Hj); apply direct_ids_incl; exact Hd).
        destruct Hd as [<-|Hd]; [apply Hown; reflexivity|apply (DISJ j Hj); apply direct_ids_incl; exact Hd].
      - intros i Hi. destruct x; try discriminate. inversion Hi; subst. apply HD. cbn [direct_ids]. left. reflexivity. }
    destruct (HG k x (or_introl eq_refl) E true s PX) as [P1 [P2 P3]].
    destruct (events x s) as [e1 s1] eqn:EX. cbn [fst snd] in P1, P2, P3.
    assert (IHr := IH HGr s1 NDr RUr).
    assert (A1 : forall j, In j E -> In j (seen s1)) by (intros j Hj; apply P2; left; apply HE; exact Hj).
    assert (A2 : forall j, In j (direct_ids r) -> In j (seen s1) /\ In j (ann s1)).
    { intros j Hj. assert (HDj : In j (seen s) /\ In j (ann s)).
      { apply HD. destruct x; cbn [direct_ids]; try exact Hj. right. exact Hj. }
      split; [apply P2; left; apply HDj|apply P3; split; [apply HDj|]].
      intros Hx. apply (DISJ j Hx). apply direct_ids_incl. exact Hj. }
    assert (A3 : forall j, In j (ids_fields r) -> ~ In j (direct_ids r) -> fresh s1 j).
    { intros j Hj Hnd. assert (F : fresh s j).
      { apply HFr; [apply in_or_app; right; exact Hj|]. intros Hd.
        destruct x as [z|items|pf|i h f|i]; cbn [direct_ids] in Hd; try (apply Hnd; exact Hd).
        destruct Hd as [<-|Hd]; [apply (DISJ i); [rewrite ids_opt; left; reflexivity|exact Hj]|apply Hnd; exact Hd]. }
      destruct F as [F1 F2]. split.
      - intros Hs. apply P2 in Hs. destruct Hs as [Hs|Hs]; [apply F1; exact Hs|apply (DISJ j Hs Hj)].
      - intros Ha. apply P3 in Ha. apply F2. apply Ha. }
    destruct (IHr A1 A2 A3) as [Q1 [Q2 Q3]].
    destruct (ev_fields r s1) as [e2 s2] eqn:ER. cbn [fst snd] in *.
    split; [rewrite P1, Q1; reflexivity|]. split; intros j.
    + rewrite Q2, P2, in_app_iff. tauto.
    + rewrite Q3, P3, in_app_iff. tauto.
Qed.

(* the loops over the members of a container / the attributes of an object which does not opt in: nothing in there is announced *)
Lemma loop_items E items :
  (forall x, In x items -> Good x) ->
  forall s, NoDup (ids_items items) -> refs_up_items E items -> (forall j, In j E -> In j (seen s)) ->
    (forall j, In j (ids_items items) -> fresh s j) ->
    fst (ev_items items s) = evs_items items
    /\ (forall j, In j (seen (snd (ev_items items s))) <-> In j (seen s) \/ In j (ids_items items))
    /\ (forall j, In j (ann (snd (ev_items items s))) <-> In j (ann s) /\ ~ In j (ids_items items)).
Proof.
  induction items as [|x r IH]; intros HG s ND RU HE HFr.
  - cbn. split; [reflexivity|]. split; intros j; tauto.
  - cbn [ev_items evs_items ids_items] in *. destruct RU as [RUx RUr].
    pose proof (NoDup_app_l _ _ ND) as NDx. pose proof (NoDup_app_r _ _ ND) as NDr.
    assert (DISJ : forall j, In j (ids x) -> In j (ids_items r) -> False) by (intros j; apply NoDup_app_disj; exact ND).
    assert (PX : Pre E x false s).
    { split; [exact NDx|]. split; [exact RUx|]. split; [exact HE|]. split.
      - intros j Hj _. apply HFr. apply in_or_app. left. exact Hj.
      - intros i Hi. apply HFr. apply in_or_app. left. destruct x; try discriminate. inversion Hi; subst. rewrite ids_opt. left. reflexivity. }
    destruct (HG x (or_introl eq_refl) E false s PX) as [P1 [P2 P3]].
    destruct (events x s) as [e1 s1] eqn:EX. cbn [fst snd] in P1, P2, P3.
    assert (A1 : forall j, In j E -> In j (seen s1)) by (intros j Hj; apply P2; left; apply HE; exact Hj).
    assert (A3 : forall j, In j (ids_items r) -> fresh s1 j).
    { intros j Hj. destruct (HFr j (in_or_app _ _ _ (or_intror Hj))) as [F1 F2]. split.
      - intros Hs. apply P2 in Hs. destruct Hs as [Hs|Hs]; [apply F1; exact Hs|apply (DISJ j Hs Hj)].
      - intros Ha. apply P3 in Ha. apply F2. apply Ha. }
    destruct (IH (fun y Hy => HG y (or_intror Hy)) s1 NDr RUr A1 A3) as [Q1 [Q2 Q3]].
    destruct (ev_items r s1) as [e2 s2] eqn:ER. cbn [fst snd] in *.
    split; [rewrite P1, Q1; reflexivity|]. split; intros j.
    + rewrite Q2, P2, in_app_iff. tauto.
    + rewrite Q3, P3, in_app_iff. tauto.
Qed.

Lemma loop_pfields E fs :
  (forall k x, In (k, x) fs -> Good x) ->
  forall s, NoDup (ids_fields fs) -> refs_up_pfields E fs -> (forall j, In j E -> In j (seen s)) ->
    (forall j, In j (ids_fields fs) -> fresh s j) ->
    fst (ev_fields fs s) = evs_pfields fs
    /\ (forall j, In j (seen (snd (ev_fields fs s))) <-> In j (seen s) \/ In j (ids_fields fs))
    /\ (forall j, In j (ann (snd (ev_fields fs s))) <-> In j (ann s) /\ ~ In j (ids_fields fs)).
Proof.
  induction fs as [|[k x] r IH]; intros HG s ND RU HE HFr.
  - cbn. split; [reflexivity|]. split; intros j; tauto.
  - cbn [ev_fields evs_pfields ids_fields] in *. destruct RU as [RUx RUr].
    pose proof (NoDup_app_l _ _ ND) as NDx. pose proof (NoDup_app_r _ _ ND) as NDr.
    assert (DISJ : forall j, In j (ids x) -> In j (ids_fields r) -> False) by (intros j; apply NoDup_app_disj; exact ND).
    assert (PX : Pre E x false s).
    { split; [exact NDx|]. split; [exact RUx|]. split; [exact HE|]. split.
      - intros j Hj _. apply HFr. apply in_or_app. left. exact Hj.
      - intros i Hi. apply HFr. apply in_or_app. left. destruct x; try discriminate. inversion Hi; subst. rewrite ids_opt. left. reflexivity. }
    destruct (HG k x (or_introl eq_refl) E false s PX) as [P1 [P2 P3]].
    destruct (events x s) as [e1 s1] eqn:EX. cbn [fst snd] in P1, P2, P3.
    assert (A1 : forall j, In j E -> In j (seen s1)) by (intros j Hj; apply P2; left; apply HE; exact Hj).
    assert (A3 : forall j, In j (ids_fields r) -> fresh s1 j).
    { intros j Hj. destruct (HFr j (in_or_app _ _ _ (or_intror Hj))) as [F1 F2]. split.
      - intros Hs. apply P2 in Hs. destruct Hs as [Hs|Hs]; [apply F1; exact Hs|apply (DISJ j Hs Hj)].
      - intros Ha. apply P3 in Ha. apply F2. apply Ha. }
    destruct (IH (fun k0 y Hy => HG k0 y (or_intror Hy)) s1 NDr RUr A1 A3) as [Q1 [Q2 Q3]].
    destruct (ev_fields r s1) as [e2 s2] eqn:ER. cbn [fst snd] in *.
    split; [rewrite P1, Q1; reflexivity|]. split; intros j.
    + rewrite Q2, P2, in_app_iff. tauto.
    + rewrite Q3, P3, in_app_iff. tauto.
Qed.

Lemma good_sz m : forall x, (nsize x < m)%nat -> Good x.
Proof.
  induction m as [|m IHm]; intros x Hs; [lia|].
  destruct x as [z|items|pf|id hs f|j]; intros E a s [ND [RU [HE [HFr HOwn]]]].
  - unfold Post. cbn. split; [reflexivity|]. split; intros j; tauto.
  - rewrite events_lst. unfold Post. rewrite ids_lst. rewrite ids_lst in ND, HFr. rewrite refs_up_lst in RU.
    replace (events_s (Lst items) a) with (evs_items items) by (symmetry; apply events_s_lst).
    apply (loop_items E items); try assumption.
    + intros y Hy. apply IHm. rewrite nsize_lst in Hs. pose proof (in_isize y items Hy). lia.
    + intros j Hj. apply HFr; [exact Hj|discriminate].
  - rewrite events_pobj. unfold Post. rewrite ids_pobj. rewrite ids_pobj in ND, HFr. rewrite refs_up_pobj in RU.
    replace (events_s (PObj pf) a) with (evs_pfields pf) by (symmetry; apply events_s_pobj).
    apply (loop_pfields E pf); try assumption.
    + intros k y Hy. apply IHm. rewrite nsize_pobj in Hs. pose proof (in_fsize k y pf Hy). lia.
    + intros j Hj. apply HFr; [exact Hj|discriminate].
  - rewrite ids_opt in ND, HFr. rewrite refs_up_opt in RU. cbn [own_id] in HFr, HOwn.
    inversion ND as [|? ? Hid NDf]; subst.
    assert (HG : forall k y, In (k, y) f -> Good y).
    { intros k y Hy. apply IHm. rewrite nsize_opt in Hs. pose proof (in_fsize k y f Hy). lia. }
    specialize (HOwn id eq_refl).
    assert (ANN : memb id (ann s) = a).
    { destruct a; [apply memb_In; apply HOwn|apply memb_false; apply HOwn]. }
    set (s1 := mkP (id :: seen s) (remove_nat id (ann s))).
    (* the scan announces exactly the directly held first occurrences *)
    assert (FRf : forall j, In j (ids_fields f) -> fresh s j).
    { intros j Hj. apply HFr; [right; exact Hj|]. intros Heq. inversion Heq; subst. contradiction. }
    destruct (scan_tidy f s1) as [s2 [ES [S2 A2]]].
    { intros j Hj. cbn [s1 seen]. intros [<-|Hs1]; [apply Hid; apply direct_ids_incl; exact Hj|].
      apply (proj1 (FRf j (direct_ids_incl f j Hj))). exact Hs1. }
    { apply NoDup_direct. exact NDf. }
    { intros k j Hin. cbn [s1 seen].
      assert (HIn : In j (id :: E)).
      { clear -RU Hin. induction f as [|[k' y] r IH]; [destruct Hin|]. destruct RU as [R1 R2].
        destruct Hin as [Heq|Hin]; [inversion Heq; subst; exact R1|apply IH; assumption]. }
      destruct HIn as [<-|HIn]; [left; reflexivity|right; apply HE; exact HIn]. }
    cbn [s1 seen ann] in S2, A2.
    (* the attribute values *)
    destruct (loop_ofields (id :: E) f HG s2 NDf RU) as [Q1 [Q2 Q3]].
    { intros j [<-|Hj]; apply S2; left; [left; reflexivity|right; apply HE; exact Hj]. }
    { intros j Hj. split; [apply S2; right; exact Hj|apply A2; right; exact Hj]. }
    { intros j Hj Hnd. destruct (FRf j Hj) as [F1 F2]. split.
      - intros Hs2. apply S2 in Hs2. destruct Hs2 as [[<-|Hs2]|Hs2]; [apply Hid; exact Hj|apply F1; exact Hs2|apply Hnd; exact Hs2].
      - intros Ha2. apply A2 in Ha2. destruct Ha2 as [Ha2|Ha2]; [apply In_remove_nat in Ha2; apply F2; apply Ha2|apply Hnd; exact Ha2]. }
    rewrite events_opt. cbv zeta. change (mkP (id :: seen s) (remove_nat id (ann s))) with s1. rewrite ES.
    destruct (ev_fields f s2) as [es s3] eqn:EF. cbn [fst snd] in Q1, Q2, Q3.
    unfold Post. cbn [fst snd]. rewrite events_s_opt, ANN, Q1. split; [reflexivity|].
    rewrite ids_opt. split; intros j.
    + rewrite Q2, S2. cbn [In]. split.
      * intros [[[H|H]|H]|H]; auto. right. right. apply direct_ids_incl. exact H.
      * intros [H|[H|H]]; auto.
    + rewrite Q3, A2, In_remove_nat. cbn [In]. split.
      * intros [[[H1 H2]|H1] H3]; [split; [exact H1|intros [H|H]; [apply H2; symmetry; exact H|apply H3; exact H]]|exfalso; apply H3; apply direct_ids_incl; exact H1].
      * intros [H1 H2]. split; [left; split; [exact H1|intros ->; apply H2; left; reflexivity]|intros H; apply H2; right; exact H].
  - unfold Post. cbn. split; [reflexivity|]. split; intros i; tauto.
Qed.

(* ---------- the syntactic class is inside the domain of the load theorem ---------- *)
Theorem tidy_announced_structurally g : tidy g -> announced_structurally g.
Proof.
  intros [ND RU]. unfold announced_structurally, dump_events.
  assert (G : Good g) by (apply (good_sz (S (nsize g))); lia).
  destruct g as [z|items|pf|id hs f|j].
  - reflexivity.
  - destruct (G [] false (mkP [] [])) as [P1 _]; [|rewrite P1; symmetry; apply events_s_flag; intros; discriminate].
    split; [exact ND|]. split; [exact RU|]. split; [intros j []|]. split; [intros j _ _; split; intros []|intros i Hi; discriminate].
  - destruct (G [] false (mkP [] [])) as [P1 _]; [|rewrite P1; symmetry; apply events_s_flag; intros; discriminate].
    split; [exact ND|]. split; [exact RU|]. split; [intros j []|]. split; [intros j _ _; split; intros []|intros i Hi; discriminate].
  - destruct (G [] true (mkP [id] [id])) as [P1 _]; [|exact P1].
    split; [exact ND|]. split; [exact RU|]. split; [intros j []|]. split.
    + intros j Hj Hown. rewrite ids_opt in Hj, ND. inversion ND as [|? ? Hid NDf]; subst. cbn [own_id] in Hown.
      destruct Hj as [<-|Hj]; [exfalso; apply Hown; reflexivity|].
      split; cbn [seen ann]; intros [<-|[]]; apply Hid; exact Hj.
    + intros i Hi. inversion Hi; subst. cbn [seen ann]. split; left; reflexivity.
  - reflexivity.
Qed.
