(* Proofs about Pickle/State.v, part 1: the local loops under names, list plumbing. *)
From PW Require Import Pickle.State.
From Coq Require Import ZifyBool ZifyNat.
Open Scope Z_scope.

(* ---------- named versions of the local loops ---------- *)
Fixpoint evs_items (l : list node) : list ev := match l with [] => [] | x :: r => events_s x false ++ evs_items r end.
Fixpoint evs_pfields (l : list (Z * node)) : list ev := match l with [] => [] | (_, x) :: r => events_s x false ++ evs_pfields r end.
Fixpoint evs_ofields (l : list (Z * node)) : list ev := match l with [] => [] | (_, x) :: r => events_s x true ++ evs_ofields r end.
Fixpoint spec_items (l : list node) := match l with [] => [] | x :: r => spec x [] ++ spec_items r end.
Fixpoint spec_pfields (l : list (Z * node)) := match l with [] => [] | (_, x) :: r => spec x [] ++ spec_pfields r end.
Fixpoint spec_ofields (p : pdict) (l : list (Z * node)) :=
  match l with [] => [] | (k, x) :: r => spec x (match x with Opt _ _ _ => sub_patches p k | _ => [] end) ++ spec_ofields p r end.

Lemma events_s_lst items a : events_s (Lst items) a = evs_items items.
Proof. simpl. induction items as [|x r IH]; [reflexivity|]. simpl. now rewrite IH. Qed.
Lemma events_s_pobj fields a : events_s (PObj fields) a = evs_pfields fields.
Proof. simpl. induction fields as [|[k x] r IH]; [reflexivity|]. simpl. now rewrite IH. Qed.
Lemma events_s_opt id hs fields a :
  events_s (Opt id hs fields) a = ERecreate id (direct_names fields) hs a :: evs_ofields fields ++ [EBuild id (state_of fields)].
Proof.
  assert (H : forall l, (fix go (l : list (Z * node)) := match l with [] => [] | (_, x) :: r => events_s x true ++ go r end) l = evs_ofields l).
  { induction l as [|[k x] r IH]; [reflexivity|]. simpl. now rewrite IH. }
  simpl. now rewrite H.
Qed.
Lemma spec_lst items p : spec (Lst items) p = spec_items items.
Proof. simpl. induction items as [|x r IH]; [reflexivity|]. simpl. now rewrite IH. Qed.
Lemma spec_pobj fields p : spec (PObj fields) p = spec_pfields fields.
Proof. simpl. induction fields as [|[k x] r IH]; [reflexivity|]. simpl. now rewrite IH. Qed.
Lemma spec_opt id hs fields p :
  spec (Opt id hs fields) p = spec_ofields p fields ++ [(id, apply_dict (state_of fields) (rebind p fields))].
Proof.
  assert (H : forall l, (fix go (l : list (Z * node)) := match l with [] => [] | (k, x) :: r => spec x (match x with Opt _ _ _ => sub_patches p k | _ => [] end) ++ go r end) l = spec_ofields p l).
  { induction l as [|[k x] r IH]; [reflexivity|]. simpl. now rewrite IH. }
  simpl. now rewrite H.
Qed.

Lemma events_s_flag x : (forall id hs f, x <> Opt id hs f) -> events_s x true = events_s x false.
Proof. destruct x; intros H; try reflexivity. exfalso. eapply H. reflexivity. Qed.

Lemma mrun_app s a b : mrun s (a ++ b) = match mrun s a with inr s' => mrun s' b | inl e => inl e end.
Proof.
  revert s. induction a as [|e a IH]; intros s; simpl; [reflexivity|].
  destruct (mstep s e) as [x|s1]; [reflexivity|apply IH].
Qed.

(* ---------- list plumbing ---------- *)
Lemma nth_error_mid {A} (B : list A) F R : nth_error (B ++ F :: R) (length B) = Some F.
Proof. induction B as [|b B IH]; simpl; [reflexivity|exact IH]. Qed.

Lemma update_nth_mid {A} (B : list A) F R G : update_nth (B ++ F :: R) (length B) G = B ++ G :: R.
Proof. induction B as [|b B IH]; simpl; [reflexivity|now rewrite IH]. Qed.

Lemma update_nth_app_l {A} (B R : list A) i G : (i < length B)%nat -> update_nth (B ++ R) i G = update_nth B i G ++ R.
Proof.
  revert i. induction B as [|b B IH]; intros i H; simpl in *; [lia|].
  destruct i; simpl; [reflexivity|]. rewrite IH; [reflexivity|lia].
Qed.

Lemma nth_error_app_l {A} (B R : list A) i : (i < length B)%nat -> nth_error (B ++ R) i = nth_error B i.
Proof. intros H. apply nth_error_app1. exact H. Qed.

Lemma update_nth_length {A} (l : list A) i G : length (update_nth l i G) = length l.
Proof. revert i. induction l as [|a l IH]; intros i; destruct i; simpl; auto. Qed.

Lemma remove_nth_last {A} (B : list A) F : remove_nth (B ++ [F]) (length B) = B.
Proof. induction B as [|b B IH]; simpl; [reflexivity|now rewrite IH]. Qed.

Lemma insert_at_end {A} (l x : list A) : insert_at l (length l) x = l ++ x.
Proof. unfold insert_at. rewrite firstn_all, skipn_all. now rewrite app_nil_r. Qed.
