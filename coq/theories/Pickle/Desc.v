(* Class descriptors seen by SupportRemoteGetStateMeta.__check_type_cached:
   what one class of the MRO has in its own __dict__. *)
From Coq Require Export List Bool.
Export ListNotations.

Record desc := mkDesc {
  d_reduce_ex : bool;      (* '__reduce_ex__' in the class dict *)
  d_reduce : bool;         (* '__reduce__' in the class dict *)
  d_getstate : bool;       (* '__getstate__' in the class dict *)
  takes_remote : bool;     (* its signature has a parameter named 'remote' *)
  has_varkw : bool;        (* its signature has a **kwargs parameter *)
  sig_unavailable : bool   (* inspect.signature fails on it (implemented in C) *)
}.

Definition sstate := (bool * bool)%type.          (* (allow_remote, has_remote) *)
Inductive sres := SNext (s : sstate) | SBreak (s : sstate) | SRaise.

(* for base in t.__mro__[:-1]: <step> ; None = raise Warning *)
Fixpoint scan (step : desc -> sstate -> sres) (mro : list desc) (st : sstate) : option sstate :=
  match mro with
  | [] => Some st
  | b :: r => match step b st with
              | SNext s => scan step r s
              | SBreak s => Some s
              | SRaise => None
              end
  end.
