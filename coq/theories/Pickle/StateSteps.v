(* Proofs about Pickle/State.v, part 2: what one event does to the machine when the entry of the object being restored is on top. *)
From PW Require Import Pickle.State.
From Coq Require Import ZifyBool ZifyNat.
From PW Require Import Pickle.StateLoops.
Open Scope Z_scope.

(* ---------- the entry of the object being restored ---------- *)
Inductive ctx := Virtual | Real (B : list frame) (F : frame).
Definition cstack c := match c with Virtual => [] | Real B F => B ++ [F] end.
Definition citer c : Z := Z.of_nat (length (cstack c)) - 1.
Definition cframe c := match c with Virtual => dummy | Real _ F => F end.
Definition cpat c := fpat (cframe c).
Definition set_pat c p := match c with Virtual => Virtual | Real B F => Real B (mkFr (parent_i F) (fname F) p) end.

Definition link_ok c :=
  match c with
  | Virtual => True
  | Real B F =>
      match fname F with
      | None => parent_i F = -1
      | Some k => exists pf, 0 <= parent_i F /\ nth_error B (Z.to_nat (parent_i F)) = Some pf /\ fpat pf <> []
      end
  end.

Definition after c (id : nat) : list frame :=
  match c with
  | Virtual => []
  | Real B F =>
      match fname F with
      | None => B
      | Some k => match nth_error B (Z.to_nat (parent_i F)) with
                  | Some pf => update_nth B (Z.to_nat (parent_i F)) (mkFr (parent_i pf) (fname pf) (dset (fpat pf) k (PObjRef id)))
                  | None => B
                  end
      end
  end.

Lemma cur_frame_ctx c u rs : cur_frame (mkM (cstack c) (citer c) u rs) = Some (cframe c).
Proof.
  unfold cur_frame, citer. destruct c as [|B F]; simpl; [reflexivity|].
  rewrite app_length. simpl.
  replace (Z.of_nat (length B + 1) - 1) with (Z.of_nat (length B)) by lia.
  destruct (Z.of_nat (length B) <? 0) eqn:E; [lia|].
  unfold nthZ. rewrite E. rewrite Nat2Z.id. apply nth_error_mid.
Qed.

Lemma step_recreate c u rs id names hs :
  mstep (mkM (cstack c) (citer c) u rs) (ERecreate id names hs true)
  = inr (mkM (cstack c ++ rev (map (sub_frame (citer c) (cpat c)) names)) (citer c + Z.of_nat (length names)) u rs).
Proof.
  unfold mstep, break_patches. rewrite cur_frame_ctx. cbn [stack iter unused restored].
  fold (cpat c).
  destruct names as [|n names]; [cbn [map rev length]; rewrite app_nil_r; f_equal; f_equal; lia|].
  cbn [map]. set (sub := sub_frame (citer c) (cpat c) n :: map (sub_frame (citer c) (cpat c)) names).
  assert (L : length sub = length (n :: names)) by (unfold sub; simpl; now rewrite map_length).
  f_equal. f_equal.
  - replace (Z.to_nat (citer c + 1)) with (length (cstack c)) by (unfold citer; lia).
    apply insert_at_end.
  - rewrite L. reflexivity.
Qed.

Lemma dset_nonempty d k v : dset d k v <> [].
Proof. destruct d as [|[k' v'] d]; simpl; [discriminate|]. destruct (k' =? k); discriminate. Qed.

Lemma step_build c u rs id st :
  link_ok c ->
  mstep (mkM (cstack c) (citer c) u rs) (EBuild id st)
  = inr (mkM (after c id) (Z.of_nat (length (after c id)) - 1) false (rs ++ [(id, apply_dict st (cpat c))])).
Proof.
  intros L. unfold mstep. rewrite cur_frame_ctx. cbn [stack iter unused restored]. fold (cpat c).
  unfold child_restored. cbn [stack iter unused restored].
  assert (E1 : (citer c =? Z.of_nat (length (cstack c)) - 1) = true) by (unfold citer; lia).
  rewrite E1. cbn [negb]. rewrite cur_frame_ctx.
  destruct c as [|B F].
  - reflexivity.
  - cbn [cframe link_ok after] in *. unfold citer. cbn [cstack]. rewrite app_length. cbn [length].
    replace (Z.of_nat (length B + 1) - 1) with (Z.of_nat (length B)) by lia.
    assert (E2 : (Z.of_nat (length B) <? 0) = false) by lia.
    destruct (fname F) as [k|] eqn:EF.
    + destruct L as [pf [H0 [H1 H2]]].
      assert (E3 : (parent_i F <? 0) = false) by lia. rewrite E3.
      assert (Hlt : (Z.to_nat (parent_i F) < length B)%nat) by (apply nth_error_Some; rewrite H1; discriminate).
      unfold nthZ. rewrite E3. rewrite nth_error_app_l by exact Hlt. rewrite H1.
      destruct (fpat pf) as [|e pr] eqn:EP; [congruence|]. cbn [is_nil negb Bool.eqb].
      rewrite E2. f_equal.
      rewrite update_nth_app_l by exact Hlt.
      rewrite Nat2Z.id.
      rewrite <- (update_nth_length B (Z.to_nat (parent_i F)) {| parent_i := parent_i pf; fname := fname pf; fpat := dset (e :: pr) k (PObjRef id) |}) at 1.
      rewrite remove_nth_last. f_equal; rewrite ?update_nth_length; try lia.
    + assert (E3 : (parent_i F <? 0) = true) by lia. rewrite E3. cbn [is_nil negb Bool.eqb].
      rewrite E2. f_equal. rewrite Nat2Z.id. rewrite remove_nth_last. f_equal; try lia.
Qed.

Lemma step_recreate_un S u rs id names hs :
  mstep (mkM S (Z.of_nat (length S) - 1) u rs) (ERecreate id names hs false)
  = mstep (mkM (cstack (Real S dummy)) (citer (Real S dummy)) u rs) (ERecreate id names hs true).
Proof.
  unfold mstep at 1. unfold push_empty. cbn [stack iter unused restored].
  unfold mstep. cbn [cstack]. unfold citer. cbn [cstack]. rewrite app_length. cbn [length].
  replace (Z.of_nat (length S + 1) - 1) with (Z.of_nat (length S)) by lia. reflexivity.
Qed.
