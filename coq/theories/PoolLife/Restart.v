(* C17, "restart() yields an EQUIVALENT worker": how the constructor stores its options and what _get_restart_args hands to
   the next incarnation.  The tables themselves are GENERATED (Gen/Restart.v) from Worker.__init__ / _get_restart_args and
   RemoteWorker.__init__ / _get_restart_args; this file gives them a meaning. *)
From Coq Require Export List Bool Arith.
Export ListNotations.

Inductive param := PTarget | PArgs | PKwargs | PName | PUserid | PRun | PSetNames | PState | PHost | PContext | PMainPath.
Inductive field := FTarget | FArgs | FKwargs | FName | FUserid | FRun | FSetNames | FState | FHost | FContext | FMainPath.

(* a stored option as an expression over the constructor's parameters *)
Inductive sexpr :=
| EParam (p : param)          (* self._x = x *)
| EOrEmpty (p : param)        (* self._x = x or [] / x or {} *)
| ERunNorm                    (* run, after `if run is None: run = bool(target)` *)
| ENorm (p : param).          (* an idempotent normalisation of x (sanitize_target_host, the default of main_path) *)

(* Python values as far as truthiness and normalisation can tell them apart *)
Inductive pyv := VNone | VFalsy (k : nat) | VTruthy (k : nat) | VEmpty | VTrue | VFalse | VN (v : pyv).

Definition truthy (v : pyv) : bool := match v with VTruthy _ | VTrue | VN _ => true | _ => false end.
Definition norm (v : pyv) : pyv := match v with VN _ => v | _ => VN v end.

Definition env := param -> pyv.

Definition eval (e : sexpr) (a : env) : pyv :=
  match e with
  | EParam p => a p
  | EOrEmpty p => if truthy (a p) then a p else VEmpty
  | ERunNorm => match a PRun with VNone => if truthy (a PTarget) then VTrue else VFalse | v => v end
  | ENorm p => norm (a p)
  end.

Definition param_eqb (x y : param) : bool :=
  match x, y with
  | PTarget, PTarget | PArgs, PArgs | PKwargs, PKwargs | PName, PName | PUserid, PUserid | PRun, PRun | PSetNames, PSetNames
  | PState, PState | PHost, PHost | PContext, PContext | PMainPath, PMainPath => true
  | _, _ => false
  end.
Definition field_eqb (x y : field) : bool :=
  match x, y with
  | FTarget, FTarget | FArgs, FArgs | FKwargs, FKwargs | FName, FName | FUserid, FUserid | FRun, FRun | FSetNames, FSetNames
  | FState, FState | FHost, FHost | FContext, FContext | FMainPath, FMainPath => true
  | _, _ => false
  end.

(* what the object remembers of its construction *)
Definition stored (stores : list (field * sexpr)) (a : env) (f : field) : option pyv :=
  match find (fun x => field_eqb (fst x) f) stores with Some x => Some (eval (snd x) a) | None => None end.

(* the arguments of the next incarnation: every forwarded parameter gets the remembered value, the others their default *)
Definition restart_env (stores : list (field * sexpr)) (forward : list (param * field)) (a : env) : env :=
  fun p => match find (fun x => param_eqb (fst x) p) forward with
           | Some x => match stored stores a (snd x) with Some v => v | None => VNone end
           | None => VNone
           end.

(* the next incarnation remembers the same configuration *)
Definition equivalent_after_restart (stores : list (field * sexpr)) (forward : list (param * field)) : Prop :=
  forall (a : env) (f : field), In f (map fst stores) ->
    stored stores (restart_env stores forward a) f = stored stores a f.
