(* Entry points for the correspondence checks of the pool's life cycle (harness/props/c09.py, c17.py). *)
From PW Require Import Ctrl.Model Ctrl.Run PoolLife.Model.

Definition res_eqb (a b : res) : bool :=
  match a, b with
  | Done, Done | RaisedRuntime, RaisedRuntime | RaisedValue, RaisedValue | RaisedValueNew, RaisedValueNew
  | RaisedCtor, RaisedCtor | RaisedHook, RaisedHook => true
  | _, _ => false
  end.

Fixpoint nlist_eqb (a b : list nat) : bool :=
  match a, b with [], [] => true | x :: a', y :: b' => Nat.eqb x y && nlist_eqb a' b' | _, _ => false end.

(* what is observed of one worker object: id, is the child still there, the blocking calls it has issued *)
Definition wobs_ok (l : list wk) (o : nat * bool * list blk) : bool :=
  let '(i, a, lg) := o in
  match filter (fun w => Nat.eqb (wid w) i) l with
  | [] => false
  | w :: _ => Bool.eqb (alive (ws (last (filter (fun w => Nat.eqb (wid w) i) l) w))) a
              && leqb blk_eqb (log (ws (last (filter (fun w => Nat.eqb (wid w) i) l) w))) lg
  end.

(* a history on an empty pool: results of the operations, registry keys, queue keys, closed flag, every worker object *)
Definition check_life (t : tmo) (f : force3) (ops : list pop)
           (rs : list res) (keys qkeys : list nat) (closed_ : bool) (obs : list (nat * bool * list blk)) : bool :=
  let '(p, xs) := prun (empty_pool t f) ops in
  leqb res_eqb xs rs && nlist_eqb (map wid (workers p)) keys && nlist_eqb (queues p) qkeys
  && Bool.eqb (pclosed p) closed_ && forallb (wobs_ok (gone p ++ workers p)) obs.

(* restart() of one worker: did it return (true) or raise (false); is the old child gone; blocking calls of the old incarnation *)
Definition check_restart (k : kind) (c : cclass) (pre : list op) (t : tmo)
           (returned : bool) (old_alive : bool) (lg : list blk) : bool :=
  let '(s, _) := run k (fresh c) pre in
  let '(old, nw) := restart_w t 1 Coop (mkWk 0 k s) in
  Bool.eqb (match nw with Some _ => true | None => false end) returned
  && Bool.eqb (alive (ws old)) old_alive && leqb blk_eqb (log (ws old)) lg.

(* history of one worker before restart(): control operations and an external kill of the child *)
Inductive pre_op := POp (o : op) | PKillChild.
Definition pre_step (k : kind) (s : pw) (o : pre_op) : pw :=
  match o with POp o' => fst (step k s o') | PKillChild => set_alive s false end.

Definition check_restart_pre (k : kind) (c : cclass) (pre : list pre_op) (t : tmo)
           (returned : bool) (old_alive : bool) (lg : list blk) : bool :=
  let s := fold_left (pre_step k) pre (fresh c) in
  let '(old, nw) := restart_w t 1 Coop (mkWk 0 k s) in
  Bool.eqb (match nw with Some _ => true | None => false end) returned
  && Bool.eqb (alive (ws old)) old_alive && leqb blk_eqb (log (ws old)) lg.
