From PW Require Import Ctrl.Model Ctrl.Proofs PoolLife.Model.

Definition WOK (w : wk) : Prop := started (ws w) = true /\ consistent (ws w).
Definition ProcDead (w : wk) : Prop := is_process_kind (knd w) = true -> alive (ws w) = false.
Definition Dead (w : wk) : Prop := alive (ws w) = false.

Lemma step_ok k s o : started s = true -> consistent s ->
  started (fst (step k s o)) = true /\ consistent (fst (step k s o)).
Proof. intros Hs Hc. destruct (step_truthful k s o Hs Hc) as [A [B _]]. auto. Qed.

Lemma fresh_wok i k c : WOK (mkWk i k (fresh c)).
Proof. unfold WOK. cbn. split; [reflexivity|split; discriminate]. Qed.

Lemma wait_truthful k s t : started s = true -> consistent s ->
  snd (step k s (Wait t)) = negb (alive (fst (step k s (Wait t)))).
Proof. intros Hs Hc. destruct (step_truthful k s (Wait t) Hs Hc) as [_ [_ C]]. exact C. Qed.

Lemma isalive_truthful k s : started s = true -> consistent s ->
  snd (step k s IsAlive) = alive (fst (step k s IsAlive)).
Proof. intros Hs Hc. destruct (step_truthful k s IsAlive Hs Hc) as [_ [_ C]]. exact C. Qed.

(* ---------- cleanup_worker ---------- *)
Lemma cleanup_knd t f g w : knd (cleanup t f g w) = knd w /\ wid (cleanup t f g w) = wid w.
Proof.
  unfold cleanup. destruct (step (knd w) (ws w) IsAlive) as [s1 a]. destruct a; cbn [negb]; [|cbn; auto].
  destruct (step (knd w) s1 Close) as [s2 x]. destruct (step (knd w) s2 (Wait t)) as [s3 r].
  destruct (negb r && (negb (is_off f) || negb g)); cbn; auto.
Qed.

Lemma cleanup_wok t f g w : WOK w -> WOK (cleanup t f g w).
Proof.
  intros [Hs Hc]. unfold cleanup, WOK.
  pose proof (step_ok (knd w) (ws w) IsAlive Hs Hc) as [S1 C1].
  destruct (step (knd w) (ws w) IsAlive) as [s1 a]. cbn [fst] in *.
  destruct a; cbn [negb]; [|cbn; auto].
  pose proof (step_ok (knd w) s1 Close S1 C1) as [S2 C2].
  destruct (step (knd w) s1 Close) as [s2 x]. cbn [fst] in *.
  pose proof (step_ok (knd w) s2 (Wait t) S2 C2) as [S3 C3].
  destruct (step (knd w) s2 (Wait t)) as [s3 r]. cbn [fst] in *.
  destruct (negb r && (negb (is_off f) || negb g)); cbn [on_ws ws]; [|auto].
  apply step_ok; assumption.
Qed.

Lemma cleanup_kills t f g w :
  WOK w -> is_off f = false -> ProcDead (cleanup t f g w).
Proof.
  intros [Hs Hc] Hf Hk. rewrite (proj1 (cleanup_knd t f g w)) in Hk. unfold cleanup in *.
  pose proof (step_ok (knd w) (ws w) IsAlive Hs Hc) as [S1 C1].
  pose proof (isalive_truthful (knd w) (ws w) Hs Hc) as T1.
  destruct (step (knd w) (ws w) IsAlive) as [s1 a]. cbn [fst snd] in *.
  destruct a; cbn [negb]; [|cbn; auto].
  pose proof (step_ok (knd w) s1 Close S1 C1) as [S2 C2].
  destruct (step (knd w) s1 Close) as [s2 x]. cbn [fst] in *.
  pose proof (step_ok (knd w) s2 (Wait t) S2 C2) as [S3 C3].
  pose proof (wait_truthful (knd w) s2 t S2 C2) as T3.
  destruct (step (knd w) s2 (Wait t)) as [s3 r]. cbn [fst snd] in *.
  rewrite Hf. cbn [negb orb]. rewrite Bool.andb_true_r.
  destruct r; cbn [negb].
  - cbn. destruct (alive s3); [discriminate|reflexivity].
  - cbn [on_ws ws knd] in *.
    assert (E : eff_force f (knd w) = true).
    { destruct f; cbn in *; [exact Hk|reflexivity|discriminate]. }
    rewrite E. apply terminate_force_kills; assumption.
Qed.

(* a worker which is dead stays as it is: no call blocks, nothing changes *)
Lemma cleanup_dead t f g w : WOK w -> Dead w -> Dead (cleanup t f g w).
Proof.
  intros [Hs Hc] Hd. unfold cleanup, Dead in *.
  pose proof (isalive_truthful (knd w) (ws w) Hs Hc) as T1.
  destruct (ws w) as [st dd al c cl lg] eqn:E. cbn in Hd. subst al. cbn in Hs. subst st.
  unfold step, is_alive. cbn. destruct dd; cbn; reflexivity.
Qed.

(* ---------- terminate() with the defaults ---------- *)
Lemma terminate_default_wok w : WOK w -> WOK (terminate_default w).
Proof. intros [Hs Hc]. unfold terminate_default, WOK. cbn [on_ws ws]. apply step_ok; assumption. Qed.

Lemma terminate_default_kills w : WOK w -> ProcDead (terminate_default w).
Proof.
  intros [Hs Hc] Hk. unfold terminate_default in *. cbn [on_ws ws knd] in *.
  unfold default_force. rewrite Hk. apply terminate_force_kills; assumption.
Qed.

(* ---------- restart of one worker ---------- *)
Lemma restart_w_spec t i c w :
  WOK w ->
  WOK (fst (restart_w t i c w)) /\
  match snd (restart_w t i c w) with
  | Some nw => Dead (fst (restart_w t i c w)) /\ nw = mkWk i (knd w) (fresh c)
  | None => alive (ws (fst (restart_w t i c w))) = true
  end.
Proof.
  intros [Hs Hc]. unfold restart_w.
  pose proof (step_ok (knd w) (ws w) (Wait t) Hs Hc) as [S1 C1].
  pose proof (wait_truthful (knd w) (ws w) t Hs Hc) as T1.
  destruct (step (knd w) (ws w) (Wait t)) as [s1 r]. cbn [fst snd] in *.
  destruct r.
  - cbn. split; [split; assumption|]. split; [|reflexivity].
    unfold Dead. cbn. destruct (alive s1); [discriminate|reflexivity].
  - pose proof (step_ok (knd w) s1 (Terminate TFin (default_force (knd w))) S1 C1) as [S2 C2].
    destruct (step (knd w) s1 (Terminate TFin (default_force (knd w)))) as [s2 x]. cbn [fst] in *.
    pose proof (step_ok (knd w) s2 IsAlive S2 C2) as [S3 C3].
    pose proof (isalive_truthful (knd w) s2 S2 C2) as T3.
    destruct (step (knd w) s2 IsAlive) as [s3 a]. cbn [fst snd] in *.
    destruct a; cbn; (split; [split; assumption|]).
    + symmetry. exact T3.
    + split; [|reflexivity]. unfold Dead. cbn. symmetry. exact T3.
Qed.

(* ---------- invariant of every history ---------- *)
Record Safe (p : pool) : Prop := {
  safe_wok : Forall WOK (workers p);
  safe_gone_wok : Forall WOK (gone p);
  safe_gone : Forall ProcDead (gone p);
  safe_closed : pclosed p = true -> Forall ProcDead (workers p) /\ queues p = []
}.

Lemma Forall_filter {A} (P : A -> Prop) f l : Forall P l -> Forall P (filter f l).
Proof. induction 1 as [|x l Hx Hl IH]; simpl; [constructor|]. destruct (f x); [constructor|]; auto. Qed.

Lemma Forall_app2 {A} (P : A -> Prop) a b : Forall P a -> Forall P b -> Forall P (a ++ b).
Proof. intros. apply Forall_app. auto. Qed.

Lemma Forall_map_same {A} (P : A -> Prop) (g : A -> A) l :
  (forall x, P x -> P (g x)) -> Forall P l -> Forall P (map g l).
Proof. intros H. induction 1; simpl; constructor; auto. Qed.

Lemma dead_procdead w : Dead w -> ProcDead w.
Proof. intros H _. exact H. Qed.

Lemma empty_safe t f : Safe (empty_pool t f).
Proof. constructor; cbn; try constructor; discriminate. Qed.

Definition forcing (pf : force3) (o : pop) : bool :=
  match o with
  | PClose _ f | PTerminate _ f => negb (is_off (or_else f pf))
  | PExit _ => negb (is_off pf)
  | _ => true
  end.

Lemma pool_close_safe t f g p :
  Safe p -> is_off (or_else f (pforce p)) = false -> Safe (pool_close t f g p) /\ pclosed (pool_close t f g p) = true.
Proof.
  intros S Hf. unfold pool_close. destruct (pclosed p) eqn:Hc; [split; [exact S|exact Hc]|].
  split; [|reflexivity]. destruct S as [A B C D]. constructor; cbn.
  - apply Forall_map_same; [intros; now apply cleanup_wok|exact A].
  - exact B.
  - exact C.
  - intros _. split; [|reflexivity]. clear D.
    induction A as [|w l Hw Hl IH]; simpl; constructor; auto. apply cleanup_kills; assumption.
Qed.

Lemma restart_all_safe t : forall todo news p,
  Safe p -> pclosed p = false -> Forall WOK todo ->
  Safe (fst (restart_all t todo news p)) /\ pclosed (fst (restart_all t todo news p)) = false /\ pforce (fst (restart_all t todo news p)) = pforce p.
Proof.
  induction todo as [|w rest IH]; intros news p S Hc Ht; simpl; [auto|].
  destruct (match news with x :: _ => x | [] => (0, Coop) end) as [i' c'].
  inversion Ht as [|? ? Hw Hrest]; subst.
  pose proof (restart_w_spec t i' c' w Hw) as [W1 W2].
  destruct (restart_w t i' c' w) as [old [nw|]]; cbn [fst snd] in *.
  - destruct W2 as [Dd ->].
    assert (S' : Safe (mkPool (drop_id (wid w) (workers p) ++ [mkWk i' (knd w) (fresh c')])
                       (drop_key (wid w) (queues p) ++ [i']) (pclosed p) (ptmo p) (pforce p) (gone p ++ [old]))).
    { destruct S as [A B C D]. constructor; cbn.
      * apply Forall_app2; [now apply Forall_filter|]. constructor; [apply fresh_wok|constructor].
      * apply Forall_app2; [exact B|]. constructor; [exact W1|constructor].
      * apply Forall_app2; [exact C|]. constructor; [now apply dead_procdead|constructor].
      * intros X; congruence. }
    destruct (IH (tl news) _ S' Hc Hrest) as [A [B C]]. auto.
  - cbn. split; [|auto]. destruct S as [A B C D]. constructor; cbn; auto.
    + apply Forall_map_same; [|exact A]. intros x Hx. destruct (Nat.eqb (wid x) (wid w)); assumption.
    + intros X; congruence.
Qed.

Lemma pstep_safe p o :
  Safe p -> forcing (pforce p) o = true -> snd (pstep p o) <> RaisedValueNew ->
  Safe (fst (pstep p o)) /\ pforce (fst (pstep p o)) = pforce p.
Proof.
  intros S Hf Hn. pose proof S as [A B C D]. destruct o as [i k c h| |i|i k c|i|t news|t f|t f|exc]; cbn [pstep] in *.
  - unfold add_worker in *. destruct (pclosed p) eqn:Hc; [auto|].
    destruct (has_id (wid (mkWk i k (fresh c))) (workers p)); [elim Hn; reflexivity|].
    destruct h; cbn; (split; [|reflexivity]); constructor; cbn; auto.
    + apply Forall_app2; [exact B|]. constructor; [apply terminate_default_wok, fresh_wok|constructor].
    + apply Forall_app2; [exact C|]. constructor; [apply terminate_default_kills, fresh_wok|constructor].
    + apply Forall_app2; [exact A|]. constructor; [apply fresh_wok|constructor].
    + intros X; congruence.
  - unfold add_worker. destruct (pclosed p); auto.
  - unfold add_existing. destruct (pclosed p) eqn:Hc; [auto|].
    destruct (find (fun w => Nat.eqb (wid w) i) (workers p)) as [w|] eqn:Hfind; [|auto].
    cbn. split; [|reflexivity].
    assert (Hw : WOK w). { apply find_some in Hfind. destruct Hfind as [Hin _]. rewrite Forall_forall in A. auto. }
    constructor; cbn.
    + now apply Forall_filter.
    + apply Forall_app2; [exact B|]. constructor; [now apply terminate_default_wok|constructor].
    + apply Forall_app2; [exact C|]. constructor; [now apply terminate_default_kills|constructor].
    + intros X; congruence.
  - unfold attach. destruct (pclosed p) eqn:Hc; [auto|].
    destruct (has_id (wid (mkWk i k (fresh c))) (workers p)); [auto|]. cbn. split; [|reflexivity].
    constructor; cbn; auto.
    + apply Forall_app2; [exact A|]. constructor; [apply fresh_wok|constructor].
    + intros X; congruence.
  - cbn. split; [|reflexivity]. constructor; cbn; auto.
    + apply Forall_map_same; [|exact A]. intros x [Hs Hc]. destruct (Nat.eqb (wid x) i); [|split; assumption].
      unfold WOK. cbn. split; [exact Hs|]. destruct Hc as [H1 H2]. split; intros; reflexivity.
    + intros Hc. destruct (D Hc) as [D1 D2]. split; [|exact D2].
      apply Forall_map_same; [|exact D1]. intros x Hx. destruct (Nat.eqb (wid x) i); [|exact Hx].
      intros _. reflexivity.
  - unfold restart_workers. destruct (pclosed p) eqn:Hc; [auto|].
    destruct (restart_all_safe t (workers p) news p S Hc A) as [X [_ Z]]. auto.
  - cbn. destruct (pool_close_safe t f true p S) as [X _]; [now apply Bool.negb_true_iff|].
    split; [exact X|]. unfold pool_close. destruct (pclosed p); reflexivity.
  - cbn. destruct (pool_close_safe t f false p S) as [X _]; [now apply Bool.negb_true_iff|].
    split; [exact X|]. unfold pool_close. destruct (pclosed p); reflexivity.
  - cbn. destruct (pool_close_safe None FDefault (negb exc) p S) as [X _]; [cbn; now apply Bool.negb_true_iff|].
    split; [exact X|]. unfold pool_close. destruct (pclosed p); reflexivity.
Qed.

Lemma prun_safe ops : forall p,
  Safe p -> forallb (forcing (pforce p)) ops = true -> ~ In RaisedValueNew (snd (prun p ops)) ->
  Safe (fst (prun p ops)).
Proof.
  induction ops as [|o r IH]; intros p S Hf Hn; simpl in *; [exact S|].
  apply Bool.andb_true_iff in Hf. destruct Hf as [Hf1 Hf2].
  pose proof (pstep_safe p o S Hf1) as H.
  destruct (pstep p o) as [p1 x] eqn:E. cbn [fst snd] in *.
  specialize (IH p1). destruct (prun p1 r) as [p2 xs] eqn:E2. cbn [fst snd] in *.
  destruct H as [S1 F1]; [intros ->; apply Hn; now left|].
  apply IH; [exact S1|rewrite F1; exact Hf2|intros Hin; apply Hn; now right].
Qed.

(* the pool is closed after close / terminate / leaving the with-block *)
Lemma close_closes t f g p : pclosed (pool_close t f g p) = true.
Proof. unfold pool_close. destruct (pclosed p) eqn:E; [exact E|reflexivity]. Qed.

(* a closed pool is inert: nothing can be registered with it any more *)
Lemma closed_inert p o : pclosed p = true ->
  workers (fst (pstep p o)) = workers p \/ exists i, o = PKill i.
Proof.
  intros Hc. destruct o; cbn [pstep]; unfold add_worker, add_existing, attach, restart_workers, pool_close;
    rewrite ?Hc; cbn; auto. right. eauto.
Qed.

(* (c) a failed add_worker leaves the registry as it was and the half-built worker terminated *)
Lemma add_worker_failure p w h p' r :
  add_worker p (Some w) h = (p', r) -> r <> Done -> r <> RaisedValueNew -> WOK w ->
  workers p' = workers p /\ queues p' = queues p /\
  (pclosed p = false -> exists w', In w' (gone p') /\ wid w' = wid w /\ ProcDead w').
Proof.
  unfold add_worker. intros E Hr Hn Hw. destruct (pclosed p); [inversion E; subst; repeat split; auto; discriminate|].
  destruct (has_id (wid w) (workers p)); [inversion E; subst; elim Hn; reflexivity|].
  destruct h; inversion E; subst; [|elim Hr; reflexivity]. cbn. repeat split; auto.
  intros _. exists (terminate_default w). split; [apply in_or_app; right; now left|]. split; [reflexivity|].
  now apply terminate_default_kills.
Qed.

