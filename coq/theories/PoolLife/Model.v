(* M8 - life cycle of a Pool's registry of workers: add_worker / attach / restart_workers /
   close / terminate / __exit__, composed with the parent-side control model of the workers
   (Ctrl/Model.v: is_alive / close / wait / terminate against a child of any class).
   Hand-written from pyworkers/pool.py (Pool.add_worker, attach, _close, close, terminate,
   __exit__, restart_workers) and pyworkers/persistent.py (PersistentWorker.restart); pinned by
   tools/pin.py; compared with the real Pool driving real worker objects whose child is scripted
   (harness/props/c09.py, c17.py).
   The cleanup threads of Pool._close touch one worker each, so their interleaving is immaterial
   and the model runs them one after the other. *)
From PW Require Export Ctrl.Model.

Inductive force3 := FDefault | FOn | FOff.     (* force=None / True / False *)

Record wk := mkWk { wid : nat; knd : kind; ws : pw }.

Record pool := mkPool {
  workers : list wk;        (* _workers, in dict order *)
  queues : list nat;        (* keys of _queues, in dict order *)
  pclosed : bool;           (* _pool_closed *)
  ptmo : tmo;               (* close_timeout (finite or None) *)
  pforce : force3;          (* the `force` property *)
  gone : list wk            (* ghost: worker objects the pool has let go of (failed registrations,
                               previous incarnations of restarted workers) *)
}.

Definition empty_pool (t : tmo) (f : force3) : pool := mkPool [] [] false t f [].

Definition default_force (k : kind) : bool := is_process_kind k.
Definition eff_force (f : force3) (k : kind) : bool :=
  match f with FDefault => default_force k | FOn => true | FOff => false end.
Definition is_off (f : force3) : bool := match f with FOff => true | _ => false end.
Definition or_else (a b : force3) : force3 := match a with FDefault => b | _ => a end.

Definition on_ws (w : wk) (s : pw) : wk := mkWk (wid w) (knd w) s.

(* cleanup_worker of Pool._close *)
Definition cleanup (t : tmo) (f : force3) (graceful : bool) (w : wk) : wk :=
  let k := knd w in
  let '(s1, a) := step k (ws w) IsAlive in
  if negb a then on_ws w s1 else
  let '(s2, _) := step k s1 Close in
  let '(s3, r) := step k s2 (Wait t) in
  if negb r && (negb (is_off f) || negb graceful)
  then on_ws w (fst (step k s3 (Terminate t (eff_force f k))))
  else on_ws w s3.

Definition pool_close (t : option tmo) (f : force3) (graceful : bool) (p : pool) : pool :=
  if pclosed p then p else
  let t' := match t with Some x => x | None => ptmo p end in
  let f' := or_else f (pforce p) in
  mkPool (map (cleanup t' f' graceful) (workers p)) [] true (ptmo p) (pforce p) (gone p).

(* worker.terminate() with the defaults of its kind (finite timeout, force for process kinds) *)
Definition terminate_default (w : wk) : wk :=
  on_ws w (fst (step (knd w) (ws w) (Terminate TFin (default_force (knd w))))).

Definition has_id (i : nat) (l : list wk) : bool := existsb (fun w => Nat.eqb (wid w) i) l.
Definition drop_id (i : nat) (l : list wk) : list wk := filter (fun w => negb (Nat.eqb (wid w) i)) l.
Definition drop_key (i : nat) (l : list nat) : list nat := filter (fun j => negb (Nat.eqb j i)) l.

(* RaisedValueNew: a NEW worker object reported an id which is registered already - cannot happen with
   live workers, whose ids (host, pid, tid) are unique; the theorems exclude it by hypothesis *)
Inductive res := Done | RaisedRuntime | RaisedValue | RaisedValueNew | RaisedCtor | RaisedHook.

(* add_worker: the constructor produced [w] (or raised); registration; handle_new_worker hook *)
Definition add_worker (p : pool) (ctor : option wk) (hook_fails : bool) : pool * res :=
  if pclosed p then (p, RaisedRuntime) else
  match ctor with
  | None => (p, RaisedCtor)
  | Some w =>
      if has_id (wid w) (workers p) then
        (* duplicate id: the except branch pops the id (i.e. the registered entry) and terminates [w] *)
        (mkPool (drop_id (wid w) (workers p)) (drop_key (wid w) (queues p)) (pclosed p) (ptmo p) (pforce p)
                (gone p ++ filter (fun v => Nat.eqb (wid v) (wid w)) (workers p) ++ [terminate_default w]), RaisedValueNew)
      else if hook_fails then
        (mkPool (workers p) (queues p) (pclosed p) (ptmo p) (pforce p) (gone p ++ [terminate_default w]), RaisedHook)
      else
        (mkPool (workers p ++ [w]) (queues p ++ [wid w]) (pclosed p) (ptmo p) (pforce p) (gone p), Done)
  end.

(* the factory handed back a worker object which is registered already (same object, same id) *)
Definition add_existing (p : pool) (i : nat) : pool * res :=
  if pclosed p then (p, RaisedRuntime) else
  match find (fun w => Nat.eqb (wid w) i) (workers p) with
  | None => (p, Done)
  | Some w =>
      (mkPool (drop_id i (workers p)) (drop_key i (queues p)) (pclosed p) (ptmo p) (pforce p)
              (gone p ++ [terminate_default w]), RaisedValue)
  end.

Definition attach (p : pool) (w : wk) (hook_fails : bool) : pool * res :=
  if pclosed p then (p, RaisedRuntime) else
  if has_id (wid w) (workers p) then (p, Done) else
  (mkPool (workers p ++ [w]) (queues p ++ [wid w]) (pclosed p) (ptmo p) (pforce p) (gone p),
   if hook_fails then RaisedHook else Done).

(* PersistentWorker.restart(timeout=t): wait, else terminate with the defaults, raise if still alive.
   Some (old, new): stopped and replaced; None: RuntimeError, [old] shows the state of the worker. *)
Definition restart_w (t : tmo) (newid : nat) (c' : cclass) (w : wk) : wk * option wk :=
  let k := knd w in
  let '(s1, r) := step k (ws w) (Wait t) in
  if r then (on_ws w s1, Some (mkWk newid k (fresh c')))
  else
    let '(s2, _) := step k s1 (Terminate TFin (default_force k)) in
    let '(s3, a) := step k s2 IsAlive in
    if a then (on_ws w s3, None) else (on_ws w s3, Some (mkWk newid k (fresh c'))).

(* restart_workers: every registered worker in dict order; each success re-keys the worker (del + insert at the end) *)
Fixpoint restart_all (t : tmo) (todo : list wk) (news : list (nat * cclass)) (p : pool) : pool * res :=
  match todo with
  | [] => (p, Done)
  | w :: rest =>
      let '(i', c') := match news with x :: _ => x | [] => (0, Coop) end in
      match restart_w t i' c' w with
      | (old, None) =>
          (mkPool (map (fun v => if Nat.eqb (wid v) (wid w) then old else v) (workers p)) (queues p)
                  (pclosed p) (ptmo p) (pforce p) (gone p), RaisedRuntime)
      | (old, Some nw) =>
          restart_all t rest (tl news)
            (mkPool (drop_id (wid w) (workers p) ++ [nw]) (drop_key (wid w) (queues p) ++ [wid nw])
                    (pclosed p) (ptmo p) (pforce p) (gone p ++ [old]))
      end
  end.

Definition restart_workers (t : tmo) (news : list (nat * cclass)) (p : pool) : pool * res :=
  if pclosed p then (p, RaisedRuntime) else restart_all t (workers p) news p.

(* the environment kills the child of worker [i] *)
Definition kill (p : pool) (i : nat) : pool :=
  mkPool (map (fun w => if Nat.eqb (wid w) i then on_ws w (set_alive (ws w) false) else w) (workers p))
         (queues p) (pclosed p) (ptmo p) (pforce p) (gone p).

Inductive pop :=
| PAdd (i : nat) (k : kind) (c : cclass) (hook_fails : bool)
| PAddCtorFails
| PAddExisting (i : nat)
| PAttach (i : nat) (k : kind) (c : cclass)
| PKill (i : nat)
| PRestart (t : tmo) (news : list (nat * cclass))
| PClose (t : option tmo) (f : force3)
| PTerminate (t : option tmo) (f : force3)
| PExit (exc : bool).                 (* leaving the with-block, normally or through an exception *)

Definition pstep (p : pool) (o : pop) : pool * res :=
  match o with
  | PAdd i k c h => add_worker p (Some (mkWk i k (fresh c))) h
  | PAddCtorFails => add_worker p None false
  | PAddExisting i => add_existing p i
  | PAttach i k c => attach p (mkWk i k (fresh c)) false
  | PKill i => (kill p i, Done)
  | PRestart t news => restart_workers t news p
  | PClose t f => (pool_close t f true p, Done)
  | PTerminate t f => (pool_close t f false p, Done)
  | PExit exc => (pool_close None FDefault (negb exc) p, Done)
  end.

Fixpoint prun (p : pool) (ops : list pop) : pool * list res :=
  match ops with
  | [] => (p, [])
  | o :: r => let '(p1, x) := pstep p o in let '(p2, xs) := prun p1 r in (p2, x :: xs)
  end.
