(* Shared vocabulary: exceptions, a state+exception+fuel monad in which the
   translator (tools/py2coq) emits Gallina for small Python functions. *)
From Coq Require Export ZArith List Bool Lia.
Export ListNotations.

(* The exception classes that occur in the translated functions. The class
   hierarchy that matters to `except (…)` tuples is [is_oserror]. *)
Inductive exn :=
| EConnClosed        (* pyworkers.remote.ConnectionClosedError (an Exception) *)
| EStructError       (* struct.error *)
| EBrokenPipe | EConnReset | EConnAborted   (* subclasses of OSError *)
| EOSError           (* any other OSError, e.g. socket.timeout *)
| ETypeError | EValueError | EIndexError | EAssertion | EAttributeError
| EWarning | ERuntimeError
| EOther (k : Z).

Definition exn_eqb (a b : exn) : bool :=
  match a, b with
  | EConnClosed, EConnClosed | EStructError, EStructError | EBrokenPipe, EBrokenPipe
  | EConnReset, EConnReset | EConnAborted, EConnAborted | EOSError, EOSError
  | ETypeError, ETypeError | EValueError, EValueError | EIndexError, EIndexError
  | EAssertion, EAssertion | EAttributeError, EAttributeError | EWarning, EWarning
  | ERuntimeError, ERuntimeError => true
  | EOther x, EOther y => Z.eqb x y
  | _, _ => false
  end.

(* Python class names usable in an `except` clause, as the translator sees them. *)
Inductive exn_class :=
| CConnClosed | CStructError | CBrokenPipe | CConnReset | CConnAborted | COSError
| CException | CBaseException.

(* isinstance(e, C) *)
Definition exn_isa (e : exn) (c : exn_class) : bool :=
  match c, e with
  | CBaseException, _ => true
  | CException, _ => true
  | CConnClosed, EConnClosed => true
  | CStructError, EStructError => true
  | CBrokenPipe, EBrokenPipe => true
  | CConnReset, EConnReset => true
  | CConnAborted, EConnAborted => true
  | COSError, (EBrokenPipe | EConnReset | EConnAborted | EOSError) => true
  | _, _ => false
  end.

Definition catches (cs : list exn_class) (e : exn) : bool := existsb (exn_isa e) cs.

Section Monad.
  Context {S : Type}.

  Inductive outcome (A : Type) :=
  | Ret (a : A)
  | Raise (e : exn)
  | OutOfFuel.
  Arguments Ret {A}. Arguments Raise {A}. Arguments OutOfFuel {A}.

  Definition M (A : Type) := S -> outcome A * S.

  Definition ret {A} (a : A) : M A := fun s => (Ret a, s).
  Definition raise {A} (e : exn) : M A := fun s => (Raise e, s).
  Definition bind {A B} (m : M A) (k : A -> M B) : M B :=
    fun s => match m s with
             | (Ret a, s') => k a s'
             | (Raise e, s') => (Raise e, s')
             | (OutOfFuel, s') => (OutOfFuel, s')
             end.

  (* try: m  except cs: h   (the handler sees the exception value) *)
  Definition try_except {A} (m : M A) (cs : list exn_class) (h : exn -> M A) : M A :=
    fun s => match m s with
             | (Raise e, s') => if catches cs e then h e s' else (Raise e, s')
             | r => r
             end.

  (* while cond(v): v = body(v) ; loop-carried variables are the tuple [v].
     Recursion on explicit fuel; exhaustion is a distinguished outcome that no
     theorem treats as a normal value. *)
  Fixpoint while_ {V} (fuel : nat) (cond : V -> bool) (body : V -> M V) (v : V) : M V :=
    match fuel with
    | O => fun s => (OutOfFuel, s)
    | Datatypes.S fuel' =>
        if cond v then bind (body v) (while_ fuel' cond body) else ret v
    end.
End Monad.

Arguments Ret {A}. Arguments Raise {A}. Arguments OutOfFuel {A}.

Declare Scope pym_scope.
Delimit Scope pym_scope with pym.
Notation "x <- m ;; k" := (bind m (fun x => k))
  (at level 61, m at next level, right associativity) : pym_scope.
Notation "' p <- m ;; k" := (bind m (fun p => k))
  (at level 61, p pattern, m at next level, right associativity) : pym_scope.
Notation "m ;;; k" := (bind m (fun _ => k))
  (at level 61, right associativity) : pym_scope.
