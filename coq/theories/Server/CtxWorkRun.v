(* entry point of the correspondence check: a worker was created in a context (work token 1, defaults [exp]) by a creator who passed
   its own work along (token 2) or not; [observed_ctx] = the value it computed is the context's *)
From Coq Require Import ZArith Bool.
From PW Require Import Server.CtxWork Gen.CtxWork.
Open Scope Z_scope.
Definition check_ctxwork (own : bool) (exp : Z) (observed_ctx : bool) : bool :=
  let c := mkWork 1 exp in
  let o := if own then Some (mkWork 2 9) else None in
  match executes gen_cwflags (Some c) o with
  | Some w => Bool.eqb (work_eqb w c) observed_ctx
  | None => negb observed_ctx
  end.
