(* The decisions of RemoteServer.run which the session model (Server/Model.v) depends on, read off the source by
   tools/py2coq/gen_serverloop.py into Gen/ServerLoop.v. *)
Record sflags := mkSF {
  guard_per_client : bool;      (* everything done for one client sits in a try whose `except Exception` handler does not re-raise *)
  guard_closes_client : bool;   (* ... and that handler closes the client's connection *)
  only_termination_escapes : bool;   (* the only classes re-raised from the per-client guard: WorkerTerminatedError, KeyboardInterrupt *)
  unknown_ctx_closes : bool;    (* a worker request naming an unknown context is answered by closing the connection *)
  dup_ctx_refused : bool;       (* registering an id which is taken answers False and keeps the first binding ... *)
  dup_ctx_helper_ended : bool;  (* ... and ends the helper process the duplicate has already spawned *)
  delete_pops : bool            (* deleting removes the id from the table before the context is stopped *)
}.

Definition good_sflags (f : sflags) : Prop :=
  guard_per_client f = true /\ guard_closes_client f = true /\ only_termination_escapes f = true /\ unknown_ctx_closes f = true
  /\ dup_ctx_refused f = true /\ dup_ctx_helper_ended f = true /\ delete_pops f = true.
