(* M7 - the remote server's accept loop (RemoteServer.run as of the per-client guard), its
   context table, and the client-side handshake of RemoteWorker._start/_run_frontend.
   Hand-written (pinned by tools/pin.py) and parameterised by the decisions of RemoteServer.run which are read off the
   source on every run (Server/LoopFlags.v, Gen/ServerLoop.v); compared with a real server process driven by
   scripted TCP clients, and with the real constructor against a scripted server
   (harness/props/c11.py, c18.py, c20.py). *)
From Coq Require Export ZArith List Bool Lia.
Export ListNotations.
From PW Require Export Server.LoopFlags.
From PW Require Import Gen.ServerLoop.
Open Scope Z_scope.

Inductive reqkind :=
| RWorker                    (* header (None, True) + pickled RemoteWorker *)
| RWorkerCtx (id : Z)        (* header (id, True): worker inside context id *)
| RCtxCreate (id : Z)        (* header (id, False) + pickled RemoteContext *)
| RCtxDelete (id : Z)        (* header (id, False) + None *)
| RNone.                     (* header None (the dummy connection that breaks accept) *)

(* how far a client gets before it vanishes *)
Inductive progress :=
| PNothing        (* connects and closes *)
| PHeaderCut      (* part of the header message *)
| PPayloadCut     (* header complete, payload cut *)
| PNoCtrl         (* payload complete, never opens the control connection (worker requests) *)
| PChildDies      (* complete request and handshake, but the spawned child dies before reporting its identity *)
| PGarbage        (* a complete message which is not a valid request *)
| PComplete.

Record session := mkSession { req : reqkind; how : progress }.

Record srv := mkSrv {
  up : bool;                    (* the accept loop is still running *)
  children : list nat;          (* workers spawned for clients, by id *)
  contexts : list (Z * nat);    (* context id -> its helper process *)
  next : nat;                   (* fresh ids for spawned processes *)
  killed : list nat             (* helper processes terminated by the server *)
}.

Inductive reply := NoReply | Closed | RBool (b : bool) | Handshake.   (* what the client gets back on its data connection *)

Fixpoint ctx_get (l : list (Z * nat)) (i : Z) : option nat :=
  match l with [] => None | (k, v) :: r => if k =? i then Some v else ctx_get r i end.
Fixpoint ctx_del (l : list (Z * nat)) (i : Z) : list (Z * nat) :=
  match l with [] => [] | (k, v) :: r => if k =? i then ctx_del r i else (k, v) :: ctx_del r i end.

(* what happens to a client whose request fails on the server (connection lost, garbage, spawning failed): with the
   per-client guard the client is dropped and the loop carries on; without it the exception ends the accept loop *)
Definition dropped (f : sflags) (s : srv) : srv * reply :=
  if guard_per_client f && only_termination_escapes f
  then (s, if guard_closes_client f then Closed else NoReply)
  else (mkSrv false (children s) (contexts s) (next s) (killed s), NoReply).

Definition serve_f (f : sflags) (s : srv) (x : session) : srv * reply :=
  if negb (up s) then (s, NoReply) else
  match how x with
  | PNothing | PHeaderCut | PGarbage => dropped f s
  | _ =>
    match req x with
    | RNone => (s, Closed)
    | RWorker =>
        match how x with
        | PComplete => (mkSrv true (children s ++ [next s]) (contexts s) (S (next s)) (killed s), Handshake)
        | _ => dropped f s      (* payload cut, or accept on the control socket timed out: nothing was spawned *)
        end
    | RWorkerCtx i =>
        match ctx_get (contexts s) i with
        | None => (s, if unknown_ctx_closes f then Closed else NoReply)   (* unknown context: the client is told by closing *)
        | Some _ => match how x with PComplete => (s, Handshake) | _ => dropped f s end   (* the helper deals with it; the table is untouched *)
        end
    | RCtxCreate i =>
        match how x with
        | PComplete =>
            match ctx_get (contexts s) i with
            | Some _ =>
                if dup_ctx_refused f
                then (mkSrv true (children s) (contexts s) (S (next s)) (if dup_ctx_helper_ended f then killed s ++ [next s] else killed s), RBool false)
                else (mkSrv true (children s) (ctx_del (contexts s) i ++ [(i, next s)]) (S (next s)) (killed s), RBool true)
            | None => (mkSrv true (children s) (contexts s ++ [(i, next s)]) (S (next s)) (killed s), RBool true)
            end
        | _ => dropped f s
        end
    | RCtxDelete i =>
        match how x with
        | PComplete =>
            match ctx_get (contexts s) i with
            | Some h => (mkSrv true (children s) (if delete_pops f then ctx_del (contexts s) i else contexts s) (next s) (killed s ++ [h]), RBool true)
            | None => (s, RBool true)
            end
        | _ => dropped f s
        end
    end
  end.

(* the server as the source has it today *)
Definition serve (s : srv) (x : session) : srv * reply := serve_f gen_sflags s x.

Lemma gen_sflags_good : good_sflags gen_sflags.
Proof. repeat split; reflexivity. Qed.

Lemma serve_good (f : sflags) : good_sflags f -> forall s x, serve_f f s x = serve_f (mkSF true true true true true true true) s x.
Proof.
  intros [A [B [C [D [E [F G]]]]]] s x. destruct f as [a b c d e f' g]. cbn in *. subst. reflexivity.
Qed.

Fixpoint serve_all (s : srv) (l : list session) : srv * list reply :=
  match l with
  | [] => (s, [])
  | x :: r => let '(s1, a) := serve s x in let '(s2, al) := serve_all s1 r in (s2, a :: al)
  end.

Definition srv0 : srv := mkSrv true [] [] 0 [].

(* ---------- C11 ---------- *)
Lemma serve_up s x : up s = true -> up (fst (serve s x)) = true.
Proof.
  intros H. unfold serve. rewrite (serve_good _ gen_sflags_good). unfold serve_f, dropped. rewrite H. simpl.
  destruct (how x), (req x); simpl; auto; try (destruct (ctx_get (contexts s) _); simpl; auto).
Qed.

Theorem server_survives sessions : forall s, up s = true -> up (fst (serve_all s sessions)) = true.
Proof.
  induction sessions as [|x r IH]; intros s H; simpl; [exact H|].
  pose proof (serve_up s x H) as H1. destruct (serve s x) as [s1 a]. simpl in H1.
  specialize (IH s1 H1). destruct (serve_all s1 r). exact IH.
Qed.

(* a client that fails before completing its request changes nothing: other clients' workers and every context stay as they were *)
Theorem faulty_client_changes_nothing s x :
  how x <> PComplete -> fst (serve s x) = s.
Proof.
  intros H. unfold serve. rewrite (serve_good _ gen_sflags_good). unfold serve_f, dropped. destruct (up s); simpl; [|reflexivity].
  destruct (how x) eqn:E; try reflexivity; try congruence;
    destruct (req x); try reflexivity; destruct (ctx_get (contexts s) _); reflexivity.
Qed.

(* whatever happened before, a well-formed worker request is served *)
Theorem healthy_client_served sessions s :
  up s = true -> snd (serve (fst (serve_all s sessions)) (mkSession RWorker PComplete)) = Handshake.
Proof.
  intros H. pose proof (server_survives sessions s H) as U.
  unfold serve. rewrite (serve_good _ gen_sflags_good). unfold serve_f. rewrite U. reflexivity.
Qed.

(* ---------- C18: the context table against its dictionary specification ---------- *)
Definition keys_unique (l : list (Z * nat)) : Prop := NoDup (map fst l).

Lemma ctx_get_app l i k v : ctx_get (l ++ [(k, v)]) i = match ctx_get l i with Some h => Some h | None => if k =? i then Some v else None end.
Proof. induction l as [|[k' v'] l IH]; simpl; [reflexivity|]. destruct (k' =? i); [reflexivity|exact IH]. Qed.

Lemma ctx_get_del l i j : ctx_get (ctx_del l i) j = if i =? j then None else ctx_get l j.
Proof.
  induction l as [|[k v] l IH]; simpl; [destruct (i =? j); reflexivity|].
  destruct (Z.eqb_spec k i) as [->|Hki].
  - rewrite IH. destruct (Z.eqb_spec i j); reflexivity.
  - simpl. destruct (Z.eqb_spec k j) as [->|Hkj].
    + destruct (Z.eqb_spec i j); [congruence|reflexivity].
    + exact IH.
Qed.

(* create: fails on a duplicate and leaves the first binding intact; succeeds otherwise and binds only i *)
Theorem ctx_create_spec s i :
  up s = true ->
  let '(s', r) := serve s (mkSession (RCtxCreate i) PComplete) in
  match ctx_get (contexts s) i with
  | Some h => r = RBool false /\ contexts s' = contexts s
  | None => r = RBool true /\ ctx_get (contexts s') i = Some (next s)
            /\ forall j, j <> i -> ctx_get (contexts s') j = ctx_get (contexts s) j
  end.
Proof.
  intros H. unfold serve. rewrite (serve_good _ gen_sflags_good). unfold serve_f. rewrite H. simpl. destruct (ctx_get (contexts s) i) eqn:E; simpl.
  - auto.
  - repeat split.
    + rewrite ctx_get_app, E, Z.eqb_refl. reflexivity.
    + intros j Hj. rewrite ctx_get_app. destruct (ctx_get (contexts s) j); [reflexivity|].
      destruct (Z.eqb_spec i j); [congruence|reflexivity].
Qed.

(* delete: frees the id (it can be registered again), ends the helper, leaves every other context; unknown ids change nothing *)
Theorem ctx_delete_spec s i :
  up s = true ->
  let '(s', r) := serve s (mkSession (RCtxDelete i) PComplete) in
  r = RBool true /\ ctx_get (contexts s') i = None
  /\ (forall j, j <> i -> ctx_get (contexts s') j = ctx_get (contexts s) j)
  /\ (forall h, ctx_get (contexts s) i = Some h -> In h (killed s'))
  /\ (ctx_get (contexts s) i = None -> s' = s).
Proof.
  intros H. unfold serve. rewrite (serve_good _ gen_sflags_good). unfold serve_f. rewrite H. simpl. destruct (ctx_get (contexts s) i) eqn:E; simpl.
  - repeat split.
    + rewrite ctx_get_del, Z.eqb_refl. reflexivity.
    + intros j Hj. rewrite ctx_get_del. destruct (Z.eqb_spec i j); [congruence|reflexivity].
    + intros h Hh. inversion Hh; subst. apply in_or_app. right. now left.
    + discriminate.
  - repeat split; auto. discriminate.
Qed.

(* a worker request naming an unknown context never changes the server *)
Theorem unknown_context_harmless s i p :
  ctx_get (contexts s) i = None -> serve s (mkSession (RWorkerCtx i) p) = (s, if up s then Closed else NoReply).
Proof. intros H. unfold serve. rewrite (serve_good _ gen_sflags_good). unfold serve_f, dropped. destruct (up s); simpl; [|reflexivity]. rewrite H. destruct p; reflexivity. Qed.

(* ---------- C20: the client side of the handshake ---------- *)
(* what each step of RemoteWorker._start / _run_frontend meets *)
Inductive stepres := SOk | SFail.      (* completes / raises (refused, reset, closed, cut inside a frame - see C10) *)
Record handshake := mkH { connect_data : stepres; send_request : stepres; recv_ctrl_addr : stepres; connect_ctrl : stepres; recv_runtime_info : stepres }.
Inductive ctor := Returned | Raised | Hangs.

(* _start: connect (raises directly); then the frontend thread: every failure is caught, stored and the
   start-up event is set; _start re-raises it *)
Definition construct (h : handshake) : ctor :=
  match connect_data h with
  | SFail => Raised
  | SOk =>
      match send_request h, recv_ctrl_addr h, connect_ctrl h, recv_runtime_info h with
      | SOk, SOk, SOk, SOk => Returned
      | _, _, _, _ => Raised
      end
  end.

Theorem constructor_never_hangs h : construct h <> Hangs.
Proof. unfold construct. destruct (connect_data h), (send_request h), (recv_ctrl_addr h), (connect_ctrl h), (recv_runtime_info h); discriminate. Qed.

Theorem constructor_returns_only_after_full_handshake h :
  construct h = Returned <-> (connect_data h = SOk /\ send_request h = SOk /\ recv_ctrl_addr h = SOk /\ connect_ctrl h = SOk /\ recv_runtime_info h = SOk).
Proof.
  unfold construct. destruct (connect_data h), (send_request h), (recv_ctrl_addr h), (connect_ctrl h), (recv_runtime_info h);
    split; intros H; try discriminate; try tauto; destruct H as [? [? [? [? ?]]]]; discriminate.
Qed.
