(* C18, "workers created with that context id execute the context's target with the context's defaults": where the work of a worker
   comes from.  Three sites cooperate (flags read off the source by tools/py2coq/gen_ctxwork.py into Gen/CtxWork.v):
     the creator   - RemoteWorker.__getstate__ ships the creator's own (target, args, kwargs) as a payload;
     the helper    - RemoteContext._create_worker rebuilds the worker with _target/_args/_kwargs patched to the context's;
     the child     - RemoteWorker._run_backend unpacks the payload into _target/_args/_kwargs. *)
From Coq Require Import ZArith Bool.
Open Scope Z_scope.

Record cwflags := mkCW {
  helper_injects_work : bool;            (* the helper's patches carry the context's target, args and kwargs *)
  ships_only_without_context : bool;     (* a payload is shipped only `if self._context is None` *)
  backend_keeps_injected : bool          (* the child unpacks a payload only `if not hasattr(self, '_target')` *)
}.
Definition good_cwflags (f : cwflags) : bool := helper_injects_work f && ships_only_without_context f && backend_keeps_injected f.

(* a piece of work: which target, which defaults (tokens) *)
Record work := mkWork { w_target : Z; w_defaults : Z }.
Definition work_eqb (a b : work) : bool := (w_target a =? w_target b) && (w_defaults a =? w_defaults b).

(* [ctx]: the work of the context the worker is created in (None: a plain remote worker); [own]: what its creator passed along
   (None: target=None).  Result: what the child executes (None: nothing to execute - the child fails). *)
Definition shipped (f : cwflags) (ctx : option work) (own : option work) : option work :=
  match ctx with
  | None => own
  | Some _ => if ships_only_without_context f then None else own
  end.
Definition injected (f : cwflags) (ctx : option work) : option work :=
  if helper_injects_work f then ctx else None.
Definition executes (f : cwflags) (ctx : option work) (own : option work) : option work :=
  match injected f ctx, shipped f ctx own with
  | Some c, Some o => if backend_keeps_injected f then Some c else Some o
  | Some c, None => Some c
  | None, p => p
  end.

Theorem context_workers_execute_the_context_work f c own :
  good_cwflags f = true -> executes f (Some c) own = Some c.
Proof.
  unfold good_cwflags. intros H. apply andb_true_iff in H. destruct H as [H K]. apply andb_true_iff in H. destruct H as [I S].
  unfold executes, injected, shipped. rewrite I, S. reflexivity.
Qed.

Theorem plain_workers_execute_their_own_work f own : executes f None own = own.
Proof. unfold executes, injected, shipped. destruct (helper_injects_work f); reflexivity. Qed.

(* either of the two guards alone is enough; with neither, the creator's own work wins *)
Theorem one_guard_is_enough f c own :
  helper_injects_work f = true -> ships_only_without_context f || backend_keeps_injected f = true -> executes f (Some c) own = Some c.
Proof.
  intros I H. unfold executes, injected, shipped. rewrite I.
  destruct (ships_only_without_context f); [reflexivity|]. cbn in H. rewrite H. destruct own; reflexivity.
Qed.

Theorem refuted_without_both_guards c o :
  executes (mkCW true false false) (Some c) (Some o) = Some o.
Proof. reflexivity. Qed.
