From PW Require Import Server.Shutdown.

Definition good_flags (fl : flags) : Prop :=
  fin_children fl = true /\ fin_contexts fl = true /\ fin_force fl = true /\ stop_exceptions_caught fl = true /\
  hnd_kills_children fl = true /\ ctx_clean_in_finally fl = true /\ ctx_passes_on_sigterm fl = true /\
  ctx_clean_force fl = true.

Definition reaped (f : fate) : Prop := gone f = true /\ decode (msg f) <> VBlocked.
Definition killable (s : cst) : Prop := sigterm_kills s = true.

Lemma terminated_forced fl sa s : reaped (terminated fl true sa s).
Proof.
  unfold terminated, reaped. destruct s as [c| |]; cbn; try (split; [reflexivity|discriminate]).
  destruct (dies_gracefully c); cbn; [split; [reflexivity|discriminate]|].
  destruct (forced_kill_reports_none fl); cbn; split; try reflexivity; discriminate.
Qed.

Lemma sigtermed_killable s : killable s -> reaped (sigtermed s).
Proof.
  unfold killable, sigtermed, reaped. destruct s as [c| |]; cbn; intros H; try (split; [reflexivity|discriminate]).
  rewrite H. cbn. split; [reflexivity|discriminate].
Qed.

Lemma ctx_clean_all_reaped fl ws : good_flags fl -> Forall reaped (ctx_clean_all fl ws).
Proof.
  intros [_ [_ [_ [_ [_ [F1 [_ F2]]]]]]]. unfold ctx_clean_all. rewrite F1, F2.
  induction ws; simpl; constructor; auto. apply terminated_forced.
Qed.

Lemma ctx_budget_reaped fl race ws :
  good_flags fl -> Forall killable ws -> Forall reaped (ctx_clean_budget fl race ws).
Proof.
  intros G. pose proof G as [_ [_ [_ [_ [_ [F1 [F3 F2]]]]]]].
  induction 1 as [|s r Hs Hr IH]; simpl; [constructor|].
  destruct (graceful s).
  - constructor; [rewrite F2; apply terminated_forced|exact IH].
  - rewrite F3, F2. constructor.
    + destruct race; [apply terminated_forced|now apply sigtermed_killable].
    + clear IH. induction Hr; simpl; constructor; auto. now apply sigtermed_killable.
Qed.

Lemma fin_entry_reaped fl race e :
  good_flags fl -> Forall killable (states_of e) -> Forall reaped (fin_entry fl race e).
Proof.
  intros G K. pose proof G as [F1 [F2 [F3 [_ [_ [F6 _]]]]]].
  destruct e as [s|ws]; cbn [fin_entry].
  - rewrite F1, F3. constructor; [apply terminated_forced|constructor].
  - rewrite F2. unfold ctx_terminated. rewrite F6. now apply ctx_budget_reaped.
Qed.

Lemma hnd_entry_reaped fl e :
  good_flags fl -> Forall killable (states_of e) -> Forall reaped (hnd_entry fl e).
Proof.
  intros G K. pose proof G as [_ [_ [_ [_ [F5 _]]]]].
  destruct e as [s|ws]; cbn [hnd_entry].
  - rewrite F5. constructor; [|constructor]. inversion K; subst. now apply sigtermed_killable.
  - now apply ctx_clean_all_reaped.
Qed.

Lemma fin_loop_reaped fl race : forall reg cut,
  good_flags fl -> Forall (fun e => Forall killable (states_of e)) reg ->
  Forall (Forall reaped) (fin_loop fl race cut reg).
Proof.
  induction reg as [|e r IH]; intros cut G K; simpl; [constructor|].
  inversion K as [|? ? Ke Kr]; subst.
  destruct cut as [[|k]|].
  - simpl. constructor; [now apply hnd_entry_reaped|].
    clear IH K Ke. induction Kr; simpl; constructor; auto. now apply hnd_entry_reaped.
  - constructor; [now apply fin_entry_reaped|now apply IH].
  - constructor; [now apply fin_entry_reaped|now apply IH].
Qed.

Lemma ordered_forall {P : entry -> Prop} reg : Forall P reg -> Forall P (ordered reg).
Proof.
  intros H. unfold ordered. apply Forall_app. split; rewrite Forall_forall in *; intros x Hx;
    apply filter_In in Hx; destruct Hx; auto.
Qed.

(* every child is gone and every parent's connection has ended, in both modes, whatever the registry *)
Theorem shutdown_reaps fl m race cut reg :
  good_flags fl -> Forall (fun e => Forall killable (states_of e)) reg ->
  Forall (Forall reaped) (shutdown fl m race cut reg).
Proof.
  intros G K. pose proof G as [_ [_ [_ [F4 _]]]]. unfold shutdown. destruct m.
  - rewrite F4. apply fin_loop_reaped; [exact G|now apply ordered_forall].
  - pose proof (ordered_forall reg K) as K'. induction K'; simpl; constructor; auto. now apply hnd_entry_reaped.
Qed.

(* a child that can report (cooperative target, or idle) and is reached by the graceful path reports WorkerTerminatedError *)
Theorem graceful_children_report_wte fl race reg :
  good_flags fl -> forall s, In (Direct s) reg -> graceful s = true -> s <> Finished ->
  In [mkFate true ReportedWTE] (shutdown fl MTerminate race None reg).
Proof.
  intros G s Hin Hg Hf. pose proof G as [F1 [_ [F3 [F4 _]]]]. unfold shutdown. rewrite F4.
  assert (Hin' : In (Direct s) (ordered reg)).
  { unfold ordered. apply in_or_app. left. apply filter_In. split; [exact Hin|reflexivity]. }
  induction (ordered reg) as [|e r IH]; [elim Hin'|]. simpl. destruct Hin' as [->|Hr].
  - left. cbn [fin_entry]. rewrite F1, F3. unfold terminated. destruct s; try congruence; rewrite Hg; reflexivity.
  - right. now apply IH.
Qed.

(* an outcome delivered before the shutdown is never overwritten *)
Theorem finished_children_keep_their_outcome fl m race cut reg :
  good_flags fl -> Forall (fun e => Forall killable (states_of e)) reg ->
  forall fs f, In fs (shutdown fl m race cut reg) -> In f fs -> decode (msg f) = VOwn \/ exists b, decode (msg f) = VError b.
Proof.
  intros G K fs f Hfs Hf. pose proof (shutdown_reaps fl m race cut reg G K) as R.
  rewrite Forall_forall in R. specialize (R fs Hfs). rewrite Forall_forall in R. destruct (R f Hf) as [_ N].
  destruct (msg f); cbn in *; eauto; congruence.
Qed.

(* why the context helper must pass the signal on: without it a context holding a worker that has to be forced
   and another worker leaves a survivor whose parent waits *)
Theorem survivor_without_pass_on :
  exists fl reg, ctx_passes_on_sigterm fl = false /\ fin_force fl = true /\ ctx_clean_force fl = true /\
    exists f, In [f; mkFate false StillOpen] (shutdown fl MTerminate true None reg).
Proof.
  exists (Build_flags true true true true true true true true false true true true), [Context [Busy Swallows; Idle]].
  repeat split; try reflexivity. eexists. cbn. left. reflexivity.
Qed.
