From PW Require Import Server.Model.
Open Scope Z_scope.
Definition reply_eqb (a b : reply) : bool :=
  match a, b with
  | NoReply, NoReply | Closed, Closed | Handshake, Handshake => true
  | RBool x, RBool y => Bool.eqb x y
  | _, _ => false
  end.
Fixpoint leqb {A} (eq : A -> A -> bool) (a b : list A) : bool :=
  match a, b with [], [] => true | x :: a', y :: b' => eq x y && leqb eq a' b' | _, _ => false end.
Definition check_sessions (l : list session) (replies : list reply) (alive : bool) (ctx_ids : list Z) : bool :=
  let '(s, rs) := serve_all srv0 l in
  leqb reply_eqb rs replies && Bool.eqb (up s) alive && leqb Z.eqb (map fst (contexts s)) ctx_ids.
