(* Entry point for the correspondence check of C12 (harness/props/c12.py). *)
From PW Require Import Server.Shutdown Gen.Shutdown.

Definition verdict_eqb (a b : verdict) : bool :=
  match a, b with
  | VOwn, VOwn | VBlocked, VBlocked => true
  | VError x, VError y => Bool.eqb x y
  | _, _ => false
  end.

Definition fate_matches (f : fate) (o : bool * verdict) : bool :=
  Bool.eqb (gone f) (fst o) && verdict_eqb (decode (msg f)) (snd o).

Fixpoint all2 {A B} (p : A -> B -> bool) (a : list A) (b : list B) : bool :=
  match a, b with [], [] => true | x :: a', y :: b' => p x y && all2 p a' b' | _, _ => false end.

(* observed: per registry entry (direct children first, then contexts - the order of the server's registries),
   per child: is the process gone, what the parent-side worker reports.  The race inside a context helper which is
   stopped while forcing one of its workers is not observable from outside: either outcome is accepted. *)
(* ... and so is the moment at which an impatient caller of terminate() has the server SIGTERMed: any cut is accepted *)
Definition check_shutdown (m : mode) (reg : list entry) (obs : list (list (bool * verdict))) : bool :=
  existsb (fun race =>
    existsb (fun cut => all2 (all2 fate_matches) (shutdown gen_flags m race cut reg) obs)
            (None :: map Some (seq 0 (S (length reg)))))
    [true; false].
