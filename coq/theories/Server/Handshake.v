(* Start-up of a worker as a two-party protocol between the constructor (_start) and the thread that
   performs the handshake (_run_frontend): what the constructor observes when a step fails.
   The shapes are regenerated from the source into Gen/Handshake.v; the semantics below is hand-written. *)
From PW Require Export Server.Model.

Inductive fstep := FSend | FRecvCtrlAddr | FConnectCtrl | FRecvInfo.
(* a statement of the handshake that can fail, and what the enclosing try does with a failure *)
Record fe_stmt := mkFe { what : fstep; sets_event : bool; stores_error : bool }.
Inductive waitkind := WaitForever | WaitOrDeath.
Record start_shape := mkShape { connect_by_caller : bool; wait : waitkind; checks_error : bool }.

(* what the constructor does *)
Inductive ctor_obs :=
| OReturned          (* returns after a complete handshake *)
| ORaised            (* raises *)
| OReturnedBroken    (* returns although the handshake failed: the caller gets an unusable worker *)
| OHangs.            (* waits for an event nobody will ever set *)

Definition outcome (h : handshake) (k : fstep) : stepres :=
  match k with FSend => send_request h | FRecvCtrlAddr => recv_ctrl_addr h | FConnectCtrl => connect_ctrl h | FRecvInfo => recv_runtime_info h end.

(* the frontend thread runs the statements in order; the first failing one decides *)
Fixpoint frontend_run (sh : start_shape) (prog : list fe_stmt) (h : handshake) : ctor_obs :=
  match prog with
  | [] => OReturned                    (* success path: the event is set, no error stored *)
  | s :: r =>
      match outcome h (what s) with
      | SOk => frontend_run sh r h
      | SFail =>
          if sets_event s then (if stores_error s && checks_error sh then ORaised else OReturnedBroken)
          else (* the exception ends the thread; the event stays clear *)
            match wait sh with
            | WaitForever => OHangs
            | WaitOrDeath => OReturnedBroken
            end
      end
  end.

Definition construct_gen (sh : start_shape) (prog : list fe_stmt) (h : handshake) : ctor_obs :=
  match connect_data h with
  | SFail => if connect_by_caller sh then ORaised
             else match wait sh with WaitForever => OHangs | WaitOrDeath => OReturnedBroken end
  | SOk => frontend_run sh prog h
  end.

Definition obs_of (c : ctor) : ctor_obs := match c with Returned => OReturned | Raised => ORaised | Hangs => OHangs end.

(* every step of the protocol appears in the program (otherwise a failure of the missing step could not be observed at all) *)
Definition mentions (prog : list fe_stmt) (k : fstep) : bool :=
  existsb (fun s => match what s, k with FSend, FSend | FRecvCtrlAddr, FRecvCtrlAddr | FConnectCtrl, FConnectCtrl | FRecvInfo, FRecvInfo => true | _, _ => false end) prog.
Definition complete (prog : list fe_stmt) : bool :=
  mentions prog FSend && mentions prog FRecvCtrlAddr && mentions prog FConnectCtrl && mentions prog FRecvInfo.

Definition all_handshakes : list handshake :=
  let r := [SOk; SFail] in
  flat_map (fun a => flat_map (fun b => flat_map (fun c => flat_map (fun d => map (fun e => mkH a b c d e) r) r) r) r) r.

Lemma all_handshakes_complete h : In h all_handshakes.
Proof. destruct h as [a b c d e]; destruct a, b, c, d, e; vm_compute; tauto. Qed.

Definition stepres_eqb (a b : stepres) := match a, b with SOk, SOk | SFail, SFail => true | _, _ => false end.
Definition obs_eqb (a b : ctor_obs) :=
  match a, b with OReturned, OReturned | ORaised, ORaised | OReturnedBroken, OReturnedBroken | OHangs, OHangs => true | _, _ => false end.
Lemma obs_eqb_eq a b : obs_eqb a b = true -> a = b.
Proof. destruct a, b; simpl; congruence. Qed.

(* the decision procedure: a shape implements the specification `construct` iff it does on the 32 outcome vectors *)
Definition implements_spec (sh : start_shape) (prog : list fe_stmt) : bool :=
  forallb (fun h => obs_eqb (construct_gen sh prog h) (obs_of (construct h))) all_handshakes.

Lemma implements_spec_sound sh prog :
  implements_spec sh prog = true -> forall h, construct_gen sh prog h = obs_of (construct h).
Proof.
  unfold implements_spec. intros H h. rewrite forallb_forall in H.
  apply obs_eqb_eq, H, all_handshakes_complete.
Qed.

(* first vector on which the shape hangs or hands out a broken worker (for the failing-input search) *)
Definition first_bad (sh : start_shape) (prog : list fe_stmt) : option handshake :=
  find (fun h => negb (obs_eqb (construct_gen sh prog h) (obs_of (construct h)))) all_handshakes.
