(* The shape of the server's shutdown paths, as read from the source by tools/py2coq/gen_shutdown.py. *)
Record flags := {
  fin_children : bool;             (* RemoteServer.run finally: the clean-up loop covers self.children - and self.children holds every direct child ever spawned: in the whole
                                      class it is only initialised to [], appended to, and cleared right after such a loop *)
  fin_contexts : bool;             (* ... and self.contexts.values() *)
  fin_force : bool;                (* ... child.terminate(..., force=True) *)
  fin_sigterm : bool;              (* ... if child.is_alive(): os.kill(child.pid, SIGTERM) *)
  stop_exceptions_caught : bool;   (* WorkerTerminatedError leaves the accept loop through the finally *)
  hnd_kills_children : bool;       (* the SIGTERM handler SIGTERMs every live direct child (same condition on self.children) *)
  hnd_redelivers : bool;           (* ... then restores the default action and signals itself *)
  ctx_clean_in_finally : bool;     (* RemoteContextWorker.do_work: finally: self._target(None, _clean=True) *)
  ctx_passes_on_sigterm : bool;    (* the context helper passes SIGTERM on to the workers it spawned *)
  ctx_clean_force : bool;          (* the context's clean-up terminates with force *)
  ctx_clean_sigterm : bool;        (* ... and SIGTERMs survivors *)
  forced_kill_reports_none : bool  (* server-side terminate fabricates (False, None) after a forced kill *)
}.
