(* M7b - stopping the remote server (C12): what becomes of every child process the server spawned, directly or
   within a context, and what the data connection of the corresponding parent-side worker ends with.
   Hand-written over the shape flags of Server/ShutdownFlags.v (regenerated into Gen/Shutdown.v on every run) and
   the reaction table of Ctrl/Model.v; compared with real servers and children by harness/props/c12.py. *)
From PW Require Export Ctrl.Model Server.ShutdownFlags.

Inductive cst :=
| Busy (c : cclass)      (* inside its target *)
| Idle                   (* persistent worker waiting for input *)
| Finished.              (* already ended on its own; its outcome has been delivered *)

Inductive entry := Direct (s : cst) | Context (ws : list cst).
Inductive mode := MTerminate | MSigterm.

(* what the parent's data connection ends with *)
Inductive endmsg :=
| OwnOutcome        (* the child's own report, sent before the shutdown *)
| ReportedWTE       (* (False, WorkerTerminatedError) sent by the child itself *)
| FabricatedNone    (* (False, None) written by the server after a forced kill *)
| BareClose         (* the connection is closed without a message *)
| StillOpen.        (* nobody closes it: the parent would wait *)

Record fate := mkFate { gone : bool; msg : endmsg }.

Definition graceful (s : cst) : bool :=
  match s with Busy c => dies_gracefully c | Idle => true | Finished => true end.
Definition sigterm_kills (s : cst) : bool :=
  match s with Busy c => dies_on_sigterm c | _ => true end.

(* child.terminate(timeout=1, force=f): control message, asynchronous exception, join, SIGTERM, join, SIGKILL *)
Definition terminated (fl : flags) (force : bool) (sigterm_after : bool) (s : cst) : fate :=
  match s with
  | Finished => mkFate true OwnOutcome
  | _ =>
      if graceful s then mkFate true ReportedWTE
      else if force then mkFate true (if forced_kill_reports_none fl then FabricatedNone else BareClose)
      else if sigterm_after && sigterm_kills s then mkFate true BareClose
      else mkFate false StillOpen
  end.

(* a bare SIGTERM (the worker's child process has the default action restored) *)
Definition sigtermed (s : cst) : fate :=
  match s with
  | Finished => mkFate true OwnOutcome
  | _ => if sigterm_kills s then mkFate true BareClose else mkFate false StillOpen
  end.

Definition abandoned (s : cst) : fate :=
  match s with Finished => mkFate true OwnOutcome | _ => mkFate false StillOpen end.

(* the context helper cleans up: one worker after the other *)
Definition ctx_clean_all (fl : flags) (ws : list cst) : list fate :=
  if ctx_clean_in_finally fl then map (terminated fl (ctx_clean_force fl) (ctx_clean_sigterm fl)) ws
  else map abandoned ws.

(* ... under the one second the server grants it: the first worker which has to be forced exhausts the budget; the
   helper is then SIGTERMed in the middle of handling that worker ([race]: had it already killed it?) *)
Fixpoint ctx_clean_budget (fl : flags) (race : bool) (ws : list cst) : list fate :=
  match ws with
  | [] => []
  | s :: r =>
      if graceful s then terminated fl (ctx_clean_force fl) (ctx_clean_sigterm fl) s :: ctx_clean_budget fl race r
      else
        let rest := map (if ctx_passes_on_sigterm fl then sigtermed else abandoned) in
        (if race then terminated fl (ctx_clean_force fl) (ctx_clean_sigterm fl) s
         else if ctx_passes_on_sigterm fl then sigtermed s else abandoned s) :: rest r
  end.

Definition ctx_terminated (fl : flags) (race : bool) (ws : list cst) : list fate :=
  if ctx_clean_in_finally fl then ctx_clean_budget fl race ws else map abandoned ws.

(* the server's finally loop over one registry entry *)
Definition fin_entry (fl : flags) (race : bool) (e : entry) : list fate :=
  match e with
  | Direct s => if fin_children fl then [terminated fl (fin_force fl) (fin_sigterm fl) s] else [abandoned s]
  | Context ws =>
      if fin_contexts fl then ctx_terminated fl race ws
      else (* nobody tells the helper; it notices the server's death (EOF on its input pipe) and cleans up *)
        ctx_clean_all fl ws
  end.

(* the SIGTERM handler, then the default action: direct children are signalled, helpers see EOF *)
Definition hnd_entry (fl : flags) (e : entry) : list fate :=
  match e with
  | Direct s => if hnd_kills_children fl then [sigtermed s] else [abandoned s]
  | Context ws => ctx_clean_all fl ws
  end.

(* [cut]: the caller of server.terminate() lost patience after the first [cut] entries and the server was
   SIGTERMed (None: the finally loop ran to its end) *)
Fixpoint fin_loop (fl : flags) (race : bool) (cut : option nat) (reg : list entry) : list (list fate) :=
  match reg with
  | [] => []
  | e :: r =>
      match cut with
      | Some O => map (hnd_entry fl) reg
      | Some (S k) => fin_entry fl race e :: fin_loop fl race (Some k) r
      | None => fin_entry fl race e :: fin_loop fl race None r
      end
  end.

(* the finally loop handles all direct children first, then the contexts *)
Definition is_direct (e : entry) : bool := match e with Direct _ => true | _ => false end.
Definition ordered (reg : list entry) : list entry := filter is_direct reg ++ filter (fun e => negb (is_direct e)) reg.

Definition shutdown (fl : flags) (m : mode) (race : bool) (cut : option nat) (reg : list entry) : list (list fate) :=
  match m with
  | MTerminate => if stop_exceptions_caught fl then fin_loop fl race cut (ordered reg) else map (map abandoned) (map (fun e => match e with Direct s => [s] | Context ws => ws end) (ordered reg))
  | MSigterm => map (hnd_entry fl) (ordered reg)
  end.

(* what the parent-side worker makes of the end of its data connection (RemoteWorker._fetch_results and the
   persistent variant): has_error, and whether error is a WorkerTerminatedError *)
Inductive verdict := VOwn | VError (wte : bool) | VBlocked.
Definition decode (m : endmsg) : verdict :=
  match m with
  | OwnOutcome => VOwn
  | ReportedWTE => VError true
  | FabricatedNone | BareClose => VError false
  | StillOpen => VBlocked
  end.

Definition states_of (e : entry) : list cst := match e with Direct s => [s] | Context ws => ws end.
