From PW Require Import Persist.Model Gen.Persist.
Open Scope Z_scope.

(* The shape the three generated loops must have for the theorems below; a change
   of any do_work loop, _send_result or _cleanup shows up as a failing eq_refl. *)
Definition prog0 : list instr :=
  [ICopyArgs Deep true; ICopyKwargs Deep; IGet; IBreakNone; IUnpack; ISlice; IUpdate; IRun; ISend].
Definition sp0 : list sinstr := [ICounterInc; IPutResult].

Lemma tie_do_work : do_work_thread = prog0 /\ do_work_process = prog0 /\ do_work_remote = prog0.
Proof. repeat split; reflexivity. Qed.
Lemma tie_send_result : send_result_thread = sp0 /\ send_result_process = sp0 /\ send_result_remote = sp0.
Proof. repeat split; reflexivity. Qed.
Lemma tie_cleanup :
  cleanup_thread = [IGuardCleaned; IPutEnd; ICloseResults; ISetCleaned]
  /\ cleanup_process = [IGuardCleaned; IPutEnd; ICloseResults; ICloseArgs; ISetCleaned]
  /\ cleanup_remote = [IPutEndSwallow].
Proof. repeat split; reflexivity. Qed.

Section Child.
  Variable f : list elem -> kw -> Z.
  Variable mutates : bool.

  Definition call (s : cst) (e : enq) : Z :=
    f (map fresh (e_args e) ++ skipn (length (e_args e)) (dargs s))
      (kw_update (dkw s) (map (fun p => (fst p, fresh (snd p))) (e_kw e))).

  Lemma iter_some s e rest :
    inbox s = Some e :: rest ->
    exec_iter f mutates sp0 prog0 s frame0 =
    Next (mkC (dargs s) (dtuple s) (dkw s) (S (counter s)) (outq s ++ [MRes (S (counter s)) (call s e)])
              rest (cleaned s) (res_closed s))
         (mkF (Some (map fresh (e_args e) ++ skipn (length (e_args e)) (dargs s))) false Deep (length (e_args e))
              (Some (kw_update (dkw s) (map (fun p => (fst p, fresh (snd p))) (e_kw e)))) Deep
              (Some (Some e)) (Some e) (Some (call s e))).
  Proof.
    intros H. unfold prog0, sp0. cbn [exec_iter exec1 v_args v_tuple v_akind v_nrep v_kwargs v_kkind v_extra v_unpacked v_result frame0].
    rewrite H. cbn. rewrite andb_false_r. cbn. reflexivity.
  Qed.

  Lemma iter_none s rest :
    inbox s = None :: rest ->
    exec_iter f mutates sp0 prog0 s frame0 =
    Brk (mkC (dargs s) (dtuple s) (dkw s) (counter s) (outq s) rest (cleaned s) (res_closed s)).
  Proof. intros H. unfold prog0. cbn. rewrite H. cbn. reflexivity. Qed.

  Lemma do_work_S sp prog fuel s :
    do_work f mutates sp prog (S fuel) s =
    match exec_iter f mutates sp prog s frame0 with
    | Next s' _ => do_work f mutates sp prog fuel s'
    | Brk s' => Finished s'
    | Wait s' => Waiting s'
    | Die e s' => Died e s'
    end.
  Proof. reflexivity. Qed.

  Lemma loop_spec es : forall s fuel,
    inbox s = map Some es ++ [None] -> (length es < fuel)%nat ->
    do_work f mutates sp0 prog0 fuel s =
    Finished (mkC (dargs s) (dtuple s) (dkw s) (counter s + length es)%nat
                  (outq s ++ number (counter s) (map (call s) es)) [] (cleaned s) (res_closed s)).
  Proof.
    induction es as [|e es IH]; intros s fuel Hin Hf; (destruct fuel as [|fuel]; [simpl in Hf; lia|]); rewrite do_work_S.
    - rewrite (iter_none s [] Hin). simpl. rewrite app_nil_r, Nat.add_0_r. reflexivity.
    - rewrite (iter_some s e (map Some es ++ [None]) Hin).
      rewrite IH by (simpl in *; auto; lia). cbn [dargs dtuple dkw counter outq inbox cleaned res_closed].
      rewrite <- app_assoc. simpl. repeat f_equal; lia.
  Qed.

  (* every kind: the child writes the numbered results of the expected sequence, then the end marker *)
  Theorem child_stream_thread d tuple dk es :
    child_life f mutates send_result_thread do_work_thread cleanup_thread d tuple dk es =
    (number O (expected f d dk es) ++ [MEnd (length es)], None).
  Proof.
    unfold child_life. rewrite (proj1 tie_do_work), (proj1 tie_send_result), (proj1 tie_cleanup).
    rewrite (loop_spec es) by (simpl; auto; lia). simpl. reflexivity.
  Qed.

  Theorem child_stream_process d tuple dk es :
    child_life f mutates send_result_process do_work_process cleanup_process d tuple dk es =
    (number O (expected f d dk es) ++ [MEnd (length es)], None).
  Proof.
    unfold child_life. rewrite (proj1 (proj2 tie_do_work)), (proj1 (proj2 tie_send_result)), (proj1 (proj2 tie_cleanup)).
    rewrite (loop_spec es) by (simpl; auto; lia). simpl. reflexivity.
  Qed.

  Theorem child_stream_remote d tuple dk es :
    child_life f mutates send_result_remote do_work_remote cleanup_remote d tuple dk es =
    (number O (expected f d dk es) ++ [MEnd (length es)], None).
  Proof.
    unfold child_life. rewrite (proj2 (proj2 tie_do_work)), (proj2 (proj2 tie_send_result)), (proj2 (proj2 tie_cleanup)).
    rewrite (loop_spec es) by (simpl; auto; lia). simpl. reflexivity.
  Qed.
End Child.

(* merge laws *)
Lemma merge_args_length d e :
  length (merge_args d e) = Nat.max (length (e_args e)) (length d).
Proof.
  unfold merge_args. rewrite app_length, skipn_length, !map_length. lia.
Qed.

Lemma merge_args_fewer d e :
  (length (e_args e) <= length d)%nat ->
  merge_args d e = map fresh (e_args e ++ skipn (length (e_args e)) d).
Proof. intros _. unfold merge_args. rewrite map_app, skipn_map. reflexivity. Qed.

Lemma merge_args_more d e :
  (length d <= length (e_args e))%nat -> merge_args d e = map fresh (e_args e).
Proof.
  intros H. unfold merge_args. rewrite skipn_all2 by (rewrite map_length; lia). apply app_nil_r.
Qed.

(* ---------- parent side ---------- *)
Section Parent.
  Variable gd : enq_guard.
  Variable g : enq -> Z.
  Hypothesis Hg : guard_good gd = true.

  Lemma guard_parts : g_asks_alive gd = true /\ g_checks_closed gd = true.
  Proof. unfold guard_good in Hg. apply andb_true_iff in Hg. exact Hg. Qed.

  Lemma refused_spec s : refused gd s = false -> p_closed s = false /\ p_dead s = false.
  Proof.
    destruct guard_parts as [A C]. unfold refused. rewrite A, C. cbn [andb].
    destruct (p_closed s), (p_dead s); cbn; intros H; try discriminate; split; reflexivity.
  Qed.

  Lemma refused_when s : p_closed s = true \/ p_dead s = true -> refused gd s = true.
  Proof.
    destruct guard_parts as [A C]. unfold refused. rewrite A, C. cbn [andb].
    intros [H|H]; rewrite H; cbn; rewrite ?orb_true_r; reflexivity.
  Qed.

  Lemma not_refused_taking s : refused gd s = false -> taking s = true.
  Proof. intros H. destruct (refused_spec s H) as [A B]. unfold taking. rewrite A, B. reflexivity. Qed.

  (* values delivered so far / enqueues accepted so far, along a history *)
  Fixpoint trace (s : pst) (ops : list pop) : list Z * list enq * pst :=
    match ops with
    | [] => ([], [], s)
    | o :: r =>
        let '(s', ob) := pstep gd g s o in
        let '(vs, acc, sf) := trace s' r in
        ((match ob with OVal v => v :: vs | _ => vs end),
         (match o, ob with
          | PEnq e, OOk => e :: acc
          | PCall e, OVal _ => e :: acc
          | _, _ => acc end), sf)
    end.

  Lemma trace_conservation ops : forall s,
    let '(vs, acc, sf) := trace s ops in
    vs ++ unread sf = unread s ++ map g acc /\ n_enq sf = (n_enq s + length acc)%nat.
  Proof.
    induction ops as [|o r IH]; intros s; simpl; [rewrite app_nil_r; split; [reflexivity|lia]|].
    destruct (pstep gd g s o) as [s' ob] eqn:E. specialize (IH s').
    destruct (trace s' r) as [[vs acc] sf]. destruct IH as [IH1 IH2].
    destruct o as [e| | | |e|]; cbn [pstep] in E.
    - destruct (refused gd s) eqn:R; [inversion E; subst; simpl in *; split; [exact IH1|lia]|].
      rewrite (not_refused_taking s R) in E. inversion E; subst; simpl in *.
      rewrite IH1, <- app_assoc. simpl. split; [reflexivity|lia].
    - destruct (unread s) as [|r0 t] eqn:Hu.
      + destruct (p_closed s || p_dead s); inversion E; subst; simpl in *; rewrite ?Hu in *; split; auto; lia.
      + inversion E; subst; simpl in *. rewrite IH1. split; [reflexivity|lia].
    - inversion E; subst; simpl in *. split; [exact IH1|lia].
    - inversion E; subst; simpl in *. destruct (p_failed s); split; try exact IH1; lia.
    - destruct (refused gd s) eqn:R; [inversion E; subst; simpl in *; split; [exact IH1|lia]|].
      rewrite (not_refused_taking s R) in E.
      destruct (unread s ++ [g e]) as [|r0 t] eqn:Hu; [destruct (unread s); discriminate|].
      inversion E; subst; simpl in *. rewrite IH1.
      change (r0 :: t ++ map g acc) with ((r0 :: t) ++ map g acc). rewrite <- Hu, <- app_assoc.
      split; [reflexivity|lia].
    - destruct (refused gd s) eqn:R; [inversion E; subst; simpl in *; split; [exact IH1|lia]|].
      rewrite (not_refused_taking s R) in E. inversion E; subst; simpl in *. split; [exact IH1|lia].
  Qed.

  (* each accepted enqueue is answered exactly once and in order: the delivered values
     are a prefix of the results of the accepted enqueues *)
  Theorem delivered_is_prefix ops :
    let '(vs, acc, sf) := trace pst0 ops in
    vs = firstn (length vs) (map g acc) /\ n_enq sf = length acc.
  Proof.
    pose proof (trace_conservation ops pst0) as H.
    destruct (trace pst0 ops) as [[vs acc] sf]. simpl in H. destruct H as [H1 H2].
    split; [|exact H2]. rewrite <- H1, firstn_app, Nat.sub_diag, firstn_all. simpl. now rewrite app_nil_r.
  Qed.

  Lemma enqueue_after_close s e : p_closed s = true \/ p_dead s = true -> snd (pstep gd g s (PEnq e)) = OClosedErr.
  Proof. intros H. cbn [pstep]. rewrite (refused_when s H). reflexivity. Qed.

  (* the worker is dead as soon as it has died - whether or not the parent object has been asked about it since *)
  Lemma dead_after_die s : refused gd s = false -> p_dead (fst (pstep gd g s PDie)) = true.
  Proof. intros R. cbn [pstep]. rewrite R, (not_refused_taking s R). reflexivity. Qed.

  Lemma enqueue_first_thing_after_death s e :
    refused gd s = false -> snd (pstep gd g (fst (pstep gd g s PDie)) (PEnq e)) = OClosedErr.
  Proof. intros R. apply enqueue_after_close. right. apply dead_after_die. exact R. Qed.

  (* what the parent object believes about a death is never ahead of the facts *)
  Definition consistent (s : pst) : Prop := p_known_dead s = true -> p_dead s = true.
  Lemma pstep_consistent s o : consistent s -> consistent (fst (pstep gd g s o)).
  Proof.
    unfold consistent. intros H. destruct o as [e| | | |e|]; cbn [pstep].
    - destruct (refused gd s); [exact H|]. destruct (taking s); cbn; [discriminate|exact H].
    - destruct (unread s); [destruct (p_closed s || p_dead s)|]; cbn; auto.
    - cbn. exact H.
    - cbn. reflexivity.
    - destruct (refused gd s); [exact H|]. destruct (taking s).
      + destruct (unread s ++ [g e]); cbn; [exact H|discriminate].
      + destruct (unread s); cbn; auto.
    - destruct (refused gd s); [exact H|]. destruct (taking s); cbn; [discriminate|exact H].
  Qed.

  Lemma call_no_outstanding s e :
    consistent s -> unread s = [] -> p_closed s = false -> p_dead s = false -> snd (pstep gd g s (PCall e)) = OVal (g e).
  Proof.
    intros Hc H1 H2 H3. cbn [pstep]. destruct guard_parts as [A C].
    assert (K : p_known_dead s = false) by (unfold consistent in Hc; destruct (p_known_dead s); [specialize (Hc eq_refl); congruence|reflexivity]).
    unfold refused, taking. rewrite H1, H2, H3, A, C, K. cbn. rewrite andb_false_r. reflexivity.
  Qed.
End Parent.

(* ---------- C06: the stream after a crash anywhere in the loop ---------- *)
Section Crash.
  Variable f : list elem -> kw -> Z.
  Variable mutates : bool.

  Lemma results_number k rs : results_of (number k rs) = rs.
  Proof. revert k; induction rs as [|r rs IH]; intros k; simpl; [reflexivity|]. now rewrite IH. Qed.

  Lemma results_app a b : results_of (a ++ b) = results_of a ++ results_of b.
  Proof. unfold results_of. apply flat_map_app. Qed.

  Lemma ends_app a b : ends_of (a ++ b) = (ends_of a + ends_of b)%nat.
  Proof. unfold ends_of. rewrite filter_app, app_length. reflexivity. Qed.

  Lemma ends_number k rs : ends_of (number k rs) = O.
  Proof. revert k; induction rs as [|r rs IH]; intros k; simpl; [reflexivity|apply IH]. Qed.

  (* state after j complete iterations over inputs e1..ej *)
  Definition after (s : cst) (done : list enq) (rest : list (option enq)) : cst :=
    mkC (dargs s) (dtuple s) (dkw s) (counter s + length done)%nat
        (outq s ++ number (counter s) (map (call f s) done)) rest (cleaned s) (res_closed s).

  Lemma after_cons s e done rest mid :
    after (mkC (dargs s) (dtuple s) (dkw s) (S (counter s)) (outq s ++ [MRes (S (counter s)) (call f s e)])
               mid (cleaned s) (res_closed s)) done rest
    = after s (e :: done) rest.
  Proof.
    unfold after, call. cbn [dargs dtuple dkw counter outq inbox cleaned res_closed length map number].
    rewrite <- app_assoc. cbn [app].
    replace (S (counter s) + length done)%nat with (counter s + S (length done))%nat by lia. reflexivity.
  Qed.

  Lemma run_crash_iters : forall done s rest k i half,
    inbox s = map Some done ++ rest -> k = length done ->
    run_crash f mutates sp0 prog0 k i half s = run_crash f mutates sp0 prog0 O i half (after s done rest).
  Proof.
    induction done as [|e done IH]; intros s rest k i half Hin ->.
    - cbn [length]. f_equal. destruct s as [da dt dk c o ib cl rc]. cbn [inbox map app] in Hin. subst ib.
      unfold after. cbn. rewrite app_nil_r, Nat.add_0_r. reflexivity.
    - cbn [length run_crash]. rewrite (iter_some f mutates s e (map Some done ++ rest) Hin).
      rewrite (IH _ rest (length done) i half) by reflexivity.
      rewrite after_cons. reflexivity.
  Qed.

  (* the crashing iteration: whatever the instruction index, at most the current result is added *)
  Lemma crash_iteration s e rest i half :
    inbox s = Some e :: rest ->
    exists s', fst (run_crash f mutates sp0 prog0 O i half s) = s' /\
      (outq s' = outq s \/ outq s' = outq s ++ [MRes (S (counter s)) (call f s e)]) /\
      (counter s' = counter s \/ counter s' = S (counter s)) /\ cleaned s' = cleaned s.
  Proof.
    intros Hin. eexists. split; [reflexivity|].
    unfold prog0, sp0.
    do 10 (destruct i as [|i]; [cbn; rewrite ?Hin; cbn; rewrite ?andb_false_r; cbn; destruct half; cbn; auto|]).
    cbn. rewrite Hin. cbn. rewrite andb_false_r. cbn. auto.
  Qed.
End Crash.

Section CrashTheorem.
  Variable f : list elem -> kw -> Z.
  Variable mutates : bool.

  Definition good_cleanup (cp : list cinstr) : Prop :=
    forall s, cleaned s = false -> outq (cleanup cp s) = outq s ++ [MEnd (counter s)].

  Lemma good_cleanup_thread : good_cleanup cleanup_thread.
  Proof. intros s H. rewrite (proj1 tie_cleanup). cbn. rewrite H. reflexivity. Qed.
  Lemma good_cleanup_process : good_cleanup cleanup_process.
  Proof. intros s H. rewrite (proj1 (proj2 tie_cleanup)). cbn. rewrite H. reflexivity. Qed.
  Lemma good_cleanup_remote : good_cleanup cleanup_remote.
  Proof. intros s H. rewrite (proj2 (proj2 tie_cleanup)). reflexivity. Qed.

  Definition s_init (d : list Z) (tuple : bool) (dk : list (Z * Z)) (ib : list (option enq)) : cst :=
    mkC (map fresh d) tuple (map (fun p => (fst p, fresh (snd p))) dk) O [] ib false false.

  Lemma call_expected d tuple dk ib es :
    map (call f (s_init d tuple dk ib)) es = expected f d dk es.
  Proof. reflexivity. Qed.

  (* The stream after a graceful terminate or a kill landing after [i] instructions (or inside
     _send_result) of the iteration that follows [done]: the results are a prefix of the expected
     sequence - the first |done| of them, or one more - in order; after a terminate exactly one
     end marker follows, after a kill nothing (the pipe's EOF ends the stream). *)
  Theorem crash_stream_is_prefix cp d tuple dk done e rest i half a :
    good_cleanup cp ->
    let es := done ++ e :: rest in
    let out := stream_after f mutates sp0 prog0 cp d tuple dk es (length done) i half a in
    (results_of out = firstn (length done) (expected f d dk es)
     \/ results_of out = firstn (S (length done)) (expected f d dk es))
    /\ ends_of out = match a with CWTE => 1%nat | CKill => O end.
  Proof.
    intros Hcp es out. unfold out, stream_after. fold (s_init d tuple dk (map Some es)).
    assert (Hin : inbox (s_init d tuple dk (map Some es)) = map Some done ++ map Some (e :: rest)).
    { unfold es. cbn [inbox s_init]. now rewrite map_app. }
    rewrite (run_crash_iters f mutates done _ (map Some (e :: rest)) (length done) i half Hin eq_refl).
    set (s1 := after f (s_init d tuple dk (map Some es)) done (map Some (e :: rest))).
    destruct (crash_iteration f mutates s1 e (map Some rest) i half eq_refl) as [s' [Hs' [Ho [Hc Hcl]]]].
    destruct (run_crash f mutates sp0 prog0 0 i half s1) as [s2 b]. cbn [fst] in Hs'. subst s2.
    assert (Hexp : expected f d dk es = map (call f (s_init d tuple dk (map Some es))) done
                   ++ call f (s_init d tuple dk (map Some es)) e :: map (call f (s_init d tuple dk (map Some es))) rest).
    { rewrite <- call_expected with (tuple := tuple) (ib := map Some es). unfold es. rewrite map_app. reflexivity. }
    assert (Ho1 : outq s1 = number O (map (call f (s_init d tuple dk (map Some es))) done)) by reflexivity.
    assert (Hcall : call f s1 e = call f (s_init d tuple dk (map Some es)) e) by reflexivity.
    assert (Hlen : length (map (call f (s_init d tuple dk (map Some es))) done) = length done) by apply map_length.
    assert (Hcl1 : cleaned s' = false) by (rewrite Hcl; reflexivity).
    assert (Hres : results_of (outq s') = firstn (length done) (expected f d dk es)
                   \/ results_of (outq s') = firstn (S (length done)) (expected f d dk es)).
    { destruct Ho as [Ho|Ho]; rewrite Ho, ?results_app, Ho1, results_number, Hexp.
      - left. rewrite firstn_app, Hlen, Nat.sub_diag, firstn_all2 by lia. simpl. now rewrite app_nil_r.
      - right. rewrite Hcall. simpl results_of.
        rewrite firstn_app, Hlen, firstn_all2 by lia.
        replace (S (length done) - length done)%nat with 1%nat by lia. reflexivity. }
    assert (Hends : ends_of (outq s') = O).
    { destruct Ho as [Ho|Ho]; rewrite Ho, ?ends_app, Ho1, ends_number; reflexivity. }
    destruct a.
    - rewrite (Hcp s' Hcl1), results_app, ends_app, Hends. simpl. rewrite app_nil_r. split; [exact Hres|reflexivity].
    - split; [exact Hres|exact Hends].
  Qed.
End CrashTheorem.
