(* Instruction sets into which tools/py2coq/gen_persist.py classifies the statements of
   the persistent workers' do_work loop, _send_result and _cleanup. *)
Inductive copy_kind := Deep | Shallow | Alias.

Inductive instr :=
| ICopyArgs (k : copy_kind) (listified : bool)   (* args = [list(]copy.deepcopy(self._args)[)] / list(self._args) / self._args *)
| ICopyKwargs (k : copy_kind)
| IGet                (* extra = <blocking read of the next (args, kwargs) or None> *)
| IBreakNone          (* if extra is None: break *)
| IUnpack             (* extra_args, extra_kwargs = extra *)
| ISlice              (* args[0:len(extra_args)] = extra_args *)
| IUpdate             (* kwargs.update(extra_kwargs) *)
| IRun                (* result = self.run( star args, star-star kwargs ) *)
| ISend.              (* self._send_result(result) *)

Inductive sinstr := ICounterInc | IPutResult.

Inductive cinstr := IGuardCleaned | IPutEnd | IPutEndSwallow | ICloseResults | ICloseArgs | ISetCleaned.

(* what `enqueue` of a kind looks at before it accepts an input: a live liveness query (`not self.is_alive()`), the closed flag
   (`self._closed`), cached knowledge about the child (`self._dead`, `not self._started`: only refreshed by other calls of the parent API) *)
Record enq_guard := mkGuard { g_asks_alive : bool; g_checks_closed : bool; g_reads_cached_dead : bool }.
