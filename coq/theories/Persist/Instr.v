(* Instruction sets into which tools/py2coq/gen_persist.py classifies the statements of
   the persistent workers' do_work loop, _send_result and _cleanup. *)
Inductive copy_kind := Deep | Shallow | Alias.

Inductive instr :=
| ICopyArgs (k : copy_kind) (listified : bool)   (* args = [list(]copy.deepcopy(self._args)[)] / list(self._args) / self._args *)
| ICopyKwargs (k : copy_kind)
| IGet                (* extra = <blocking read of the next (args, kwargs) or None> *)
| IBreakNone          (* if extra is None: break *)
| IUnpack             (* extra_args, extra_kwargs = extra *)
| ISlice              (* args[0:len(extra_args)] = extra_args *)
| IUpdate             (* kwargs.update(extra_kwargs) *)
| IRun                (* result = self.run( star args, star-star kwargs ) *)
| ISend.              (* self._send_result(result) *)

Inductive sinstr := ICounterInc | IPutResult.

Inductive cinstr := IGuardCleaned | IPutEnd | IPutEndSwallow | ICloseResults | ICloseArgs | ISetCleaned.
