(* M4 - the persistent worker's child loop as an interpreter of the GENERATED
   instruction lists (Gen/Persist.v), plus the parent-side stream API. *)
From Coq Require Export ZArith List Bool Lia.
Export ListNotations.
From PW Require Export Persist.Instr.
Open Scope Z_scope.

(* A Python value the target can mutate: payload + how often it has been mutated.
   A pristine default has count 0. *)
Definition elem := (Z * nat)%type.
Definition fresh (x : Z) : elem := (x, O).
Definition touch (e : elem) : elem := (fst e, S (snd e)).

Definition kw := list (Z * elem).      (* keyword name (token) -> value *)

Fixpoint kw_set (d : kw) (k : Z) (v : elem) : kw :=
  match d with
  | [] => [(k, v)]
  | (k', v') :: r => if k' =? k then (k, v) :: r else (k', v') :: kw_set r k v
  end.
Definition kw_update (d e : kw) : kw := fold_left (fun acc p => kw_set acc (fst p) (snd p)) e d.

Record enq := mkEnq { e_args : list Z; e_kw : list (Z * Z) }.

Inductive msg := MRes (counter : nat) (r : Z) | MEnd (counter : nat).

Inductive texn := ETypeError | EStuck.

Section Child.
  (* the user's target; [mutates] = it mutates every argument it receives *)
  Variable f : list elem -> kw -> Z.
  Variable mutates : bool.

  Record cst := mkC {
    dargs : list elem; dtuple : bool; dkw : kw;      (* self._args (list or tuple), self._kwargs *)
    counter : nat; outq : list msg;
    inbox : list (option enq);                       (* what the parent has sent: Some = enqueue, None = release *)
    cleaned : bool; res_closed : bool
  }.

  (* local variables of one loop iteration *)
  Record frame := mkF {
    v_args : option (list elem); v_tuple : bool; v_akind : copy_kind; v_nrep : nat;
    v_kwargs : option kw; v_kkind : copy_kind;
    v_extra : option (option enq); v_unpacked : option enq; v_result : option Z
  }.
  Definition frame0 : frame := mkF None false Deep O None Deep None None None.

  Inductive step_res := Next (s : cst) (fr : frame) | Brk (s : cst) | Wait (s : cst) | Die (e : texn) (s : cst).

  Definition maybe_touch (e : elem) : elem := if mutates then touch e else e.

  (* after the call: default elements that were shared with the arguments carry the mutation *)
  Definition writeback_args (s : cst) (fr : frame) (args' : list elem) : list elem :=
    match v_akind fr with
    | Deep => dargs s
    | Shallow => firstn (v_nrep fr) (dargs s) ++ skipn (v_nrep fr) args'
    | Alias => args'
    end.

  Definition send_result (prog : list sinstr) (s : cst) (r : Z) : cst :=
    fold_left (fun s i =>
      match i with
      | ICounterInc => mkC (dargs s) (dtuple s) (dkw s) (S (counter s)) (outq s) (inbox s) (cleaned s) (res_closed s)
      | IPutResult => mkC (dargs s) (dtuple s) (dkw s) (counter s) (outq s ++ [MRes (counter s) r]) (inbox s) (cleaned s) (res_closed s)
      end) prog s.

  Definition exec1 (sp : list sinstr) (i : instr) (s : cst) (fr : frame) : step_res :=
    match i with
    | ICopyArgs k l =>
        Next s (mkF (Some (dargs s)) (dtuple s && negb l) k O (v_kwargs fr) (v_kkind fr) (v_extra fr) (v_unpacked fr) (v_result fr))
    | ICopyKwargs k =>
        Next s (mkF (v_args fr) (v_tuple fr) (v_akind fr) (v_nrep fr) (Some (dkw s)) k (v_extra fr) (v_unpacked fr) (v_result fr))
    | IGet =>
        match inbox s with
        | [] => Wait s
        | x :: r =>
            Next (mkC (dargs s) (dtuple s) (dkw s) (counter s) (outq s) r (cleaned s) (res_closed s))
                 (mkF (v_args fr) (v_tuple fr) (v_akind fr) (v_nrep fr) (v_kwargs fr) (v_kkind fr) (Some x) (v_unpacked fr) (v_result fr))
        end
    | IBreakNone =>
        match v_extra fr with
        | None => Die EStuck s
        | Some None => Brk s
        | Some (Some _) => Next s fr
        end
    | IUnpack =>
        match v_extra fr with
        | Some (Some e) => Next s (mkF (v_args fr) (v_tuple fr) (v_akind fr) (v_nrep fr) (v_kwargs fr) (v_kkind fr) (v_extra fr) (Some e) (v_result fr))
        | Some None => Die ETypeError s        (* cannot unpack None *)
        | None => Die EStuck s
        end
    | ISlice =>
        match v_args fr, v_unpacked fr with
        | Some a, Some e =>
            if v_tuple fr then Die ETypeError s   (* 'tuple' object does not support item assignment *)
            else
              let a' := map fresh (e_args e) ++ skipn (length (e_args e)) a in
              let s' := match v_akind fr with
                        | Alias => mkC a' (dtuple s) (dkw s) (counter s) (outq s) (inbox s) (cleaned s) (res_closed s)
                        | _ => s end in
              Next s' (mkF (Some a') false (v_akind fr) (length (e_args e)) (v_kwargs fr) (v_kkind fr) (v_extra fr) (v_unpacked fr) (v_result fr))
        | _, _ => Die EStuck s
        end
    | IUpdate =>
        match v_kwargs fr, v_unpacked fr with
        | Some d, Some e =>
            let d' := kw_update d (map (fun p => (fst p, fresh (snd p))) (e_kw e)) in
            let s' := match v_kkind fr with
                      | Alias => mkC (dargs s) (dtuple s) d' (counter s) (outq s) (inbox s) (cleaned s) (res_closed s)
                      | _ => s end in
            Next s' (mkF (v_args fr) (v_tuple fr) (v_akind fr) (v_nrep fr) (Some d') (v_kkind fr) (v_extra fr) (v_unpacked fr) (v_result fr))
        | _, _ => Die EStuck s
        end
    | IRun =>
        match v_args fr, v_kwargs fr with
        | Some a, Some d =>
            let r := f a d in
            let a' := map maybe_touch a in
            let d' := map (fun p => (fst p, maybe_touch (snd p))) d in
            let s' := mkC (writeback_args s fr a') (dtuple s)
                          (match v_kkind fr with Deep => dkw s | _ => d' end)
                          (counter s) (outq s) (inbox s) (cleaned s) (res_closed s) in
            Next s' (mkF (v_args fr) (v_tuple fr) (v_akind fr) (v_nrep fr) (v_kwargs fr) (v_kkind fr) (v_extra fr) (v_unpacked fr) (Some r))
        | _, _ => Die EStuck s
        end
    | ISend =>
        match v_result fr with
        | Some r => Next (send_result sp s r) fr
        | None => Die EStuck s
        end
    end.

  Fixpoint exec_iter (sp : list sinstr) (prog : list instr) (s : cst) (fr : frame) : step_res :=
    match prog with
    | [] => Next s fr
    | i :: r =>
        match exec1 sp i s fr with
        | Next s' fr' => exec_iter sp r s' fr'
        | other => other
        end
    end.

  Inductive loop_res := Finished (s : cst) | Waiting (s : cst) | Died (e : texn) (s : cst) | NoFuel.

  (* while not self._stop: <iteration> *)
  Fixpoint do_work (sp : list sinstr) (prog : list instr) (fuel : nat) (s : cst) : loop_res :=
    match fuel with
    | O => NoFuel
    | S fuel' =>
        match exec_iter sp prog s frame0 with
        | Next s' _ => do_work sp prog fuel' s'
        | Brk s' => Finished s'
        | Wait s' => Waiting s'
        | Die e s' => Died e s'
        end
    end.

  (* _cleanup, called from the finally block of _run *)
  Fixpoint cleanup (prog : list cinstr) (s : cst) : cst :=
    match prog with
    | [] => s
    | IGuardCleaned :: r => if cleaned s then s else cleanup r s
    | (IPutEnd | IPutEndSwallow) :: r =>
        cleanup r (mkC (dargs s) (dtuple s) (dkw s) (counter s) (outq s ++ [MEnd (counter s)]) (inbox s) (cleaned s) (res_closed s))
    | ICloseResults :: r => cleanup r (mkC (dargs s) (dtuple s) (dkw s) (counter s) (outq s) (inbox s) (cleaned s) true)
    | ICloseArgs :: r => cleanup r s
    | ISetCleaned :: r => cleanup r (mkC (dargs s) (dtuple s) (dkw s) (counter s) (outq s) (inbox s) true (res_closed s))
    end.

  (* the whole life of a child that is fed [es] and then released: what it writes *)
  Definition child_life (sp : list sinstr) (prog : list instr) (cp : list cinstr)
             (d : list Z) (tuple : bool) (dk : list (Z * Z)) (es : list enq) : list msg * option texn :=
    let s0 := mkC (map fresh d) tuple (map (fun p => (fst p, fresh (snd p))) dk) O []
                  (map Some es ++ [None]) false false in
    match do_work sp prog (S (S (length es))) s0 with
    | Finished s => (outq (cleanup cp s), None)
    | Died e s => (outq (cleanup cp s), Some e)
    | Waiting s => (outq s, Some EStuck)
    | NoFuel => ([], Some EStuck)
    end.

  (* ---------- specification ---------- *)
  Definition merge_args (d : list Z) (e : enq) : list elem :=
    map fresh (e_args e) ++ skipn (length (e_args e)) (map fresh d).
  Definition merge_kw (dk : list (Z * Z)) (e : enq) : kw :=
    kw_update (map (fun p => (fst p, fresh (snd p))) dk) (map (fun p => (fst p, fresh (snd p))) (e_kw e)).
  Definition expected (d : list Z) (dk : list (Z * Z)) (es : list enq) : list Z :=
    map (fun e => f (merge_args d e) (merge_kw dk e)) es.

  Fixpoint number (k : nat) (rs : list Z) : list msg :=
    match rs with [] => [] | r :: t => MRes (S k) r :: number (S k) t end.
End Child.

(* ---------- parent-side API of a persistent worker over its result stream ---------- *)
(* PDie: the caller enqueues an input on which the target raises - the worker then dies ON ITS OWN (nobody terminates, closes or waits
   for it); the parent object learns of it only when it asks. *)
Inductive pop := PEnq (e : enq) | PNext | PClose | PWait | PCall (e : enq) | PDie.
Inductive pobs := OVal (r : Z) | OEmpty | OClosedErr | OOk | OResult (n : nat) | OWouldBlock.

(* p_dead: the child is gone; p_known_dead: the parent object has found out (cached `_dead`); p_failed: it died of an error of the target *)
Record pst := mkP { unread : list Z; p_closed : bool; p_dead : bool; p_known_dead : bool; p_failed : bool; n_enq : nat }.
Definition pst0 : pst := mkP [] false false false false O.

Definition guard_good (gd : enq_guard) : bool := g_asks_alive gd && g_checks_closed gd.

Section Parent.
  Variable gd : enq_guard.      (* what enqueue looks at (generated) *)
  Variable g : enq -> Z.        (* the target applied to the merged arguments of an enqueue *)
  Definition refused (s : pst) : bool :=
    (g_checks_closed gd && p_closed s) || (g_asks_alive gd && p_dead s) || (g_reads_cached_dead gd && p_known_dead s).
  Definition taking (s : pst) : bool := negb (p_closed s || p_dead s).     (* the child still reads its input *)
  Definition pstep (s : pst) (o : pop) : pst * pobs :=
    match o with
    | PEnq e => if refused s then (s, OClosedErr)
                else if taking s then (mkP (unread s ++ [g e]) false false false false (S (n_enq s)), OOk)
                else (s, OOk)        (* accepted into a queue which nobody reads any more *)
    | PNext => match unread s with
               | r :: t => (mkP t (p_closed s) (p_dead s) (p_dead s) (p_failed s) (n_enq s), OVal r)
               | [] => if p_closed s || p_dead s then (mkP [] (p_closed s) (p_dead s) (p_dead s) (p_failed s) (n_enq s), OEmpty) else (s, OWouldBlock)
               end
    | PClose => (mkP (unread s) true (p_dead s) (p_known_dead s) (p_failed s) (n_enq s), OOk)
    | PWait => (mkP (unread s) true true true (p_failed s) (n_enq s), if p_failed s then OEmpty else OResult (n_enq s))
    | PCall e => if refused s then (s, OClosedErr)
                 else if taking s then
                      match unread s ++ [g e] with
                      | r :: t => (mkP t false false false false (S (n_enq s)), OVal r)
                      | [] => (s, OWouldBlock)
                      end
                 else match unread s with
                      | r :: t => (mkP t (p_closed s) (p_dead s) (p_dead s) (p_failed s) (n_enq s), OVal r)
                      | [] => (mkP [] (p_closed s) (p_dead s) (p_dead s) (p_failed s) (n_enq s), OEmpty)
                      end
    | PDie => if refused s then (s, OClosedErr)
              else if taking s then (mkP (unread s) false true false true (n_enq s), OOk)
              else (s, OOk)
    end.
  Fixpoint prun (s : pst) (ops : list pop) : list pobs :=
    match ops with [] => [] | o :: r => let '(s', ob) := pstep s o in ob :: prun s' r end.
End Parent.

(* ---------- crashes inside the loop (C06) ---------- *)
Inductive crash_action := CWTE | CKill.

Section Crash.
  Variable f : list elem -> kw -> Z.
  Variable mutates : bool.

  (* run only the first [i] instructions of one iteration; [half] = stop inside _send_result,
     after the counter was incremented and before the message was written *)
  Fixpoint exec_prefix (sp : list sinstr) (prog : list instr) (i : nat) (half : bool) (s : cst) (fr : frame) : step_res :=
    match i, prog with
    | O, ISend :: _ =>
        if half then
          match v_result fr with
          | Some r => Next (send_result (firstn 1 sp) s r) fr
          | None => Die EStuck s
          end
        else Next s fr
    | O, _ => Next s fr
    | _, [] => Next s fr
    | S i', x :: r =>
        match exec1 f mutates sp x s fr with
        | Next s' fr' => exec_prefix sp r i' half s' fr'
        | other => other
        end
    end.

  (* k complete iterations, then a crash after i instructions of iteration k+1 *)
  Fixpoint run_crash (sp : list sinstr) (prog : list instr) (k i : nat) (half : bool) (s : cst) : cst * bool :=
    match k with
    | O => match exec_prefix sp prog i half s frame0 with
           | Next s' _ => (s', true)           (* stopped where the crash lands *)
           | Brk s' | Wait s' | Die _ s' => (s', false)   (* the loop had already ended / was waiting: nothing to interrupt here *)
           end
    | S k' => match exec_iter f mutates sp prog s frame0 with
              | Next s' _ => run_crash sp prog k' i half s'
              | Brk s' | Wait s' | Die _ s' => (s', false)
              end
    end.

  (* what is on the result stream afterwards: a graceful terminate unwinds through the finally
     block of _run, i.e. _cleanup; a kill writes nothing more *)
  Definition stream_after (sp : list sinstr) (prog : list instr) (cp : list cinstr)
             (d : list Z) (tuple : bool) (dk : list (Z * Z)) (es : list enq) (k i : nat) (half : bool) (a : crash_action) : list msg :=
    let s0 := mkC (map fresh d) tuple (map (fun p => (fst p, fresh (snd p))) dk) O []
                  (map Some es) false false in
    let '(s, _) := run_crash sp prog k i half s0 in
    match a with
    | CWTE => outq (cleanup cp s)
    | CKill => outq s
    end.

  Definition results_of (l : list msg) : list Z :=
    flat_map (fun m => match m with MRes _ r => [r] | MEnd _ => [] end) l.
  Definition ends_of (l : list msg) : nat := length (filter (fun m => match m with MEnd _ => true | _ => false end) l).
End Crash.
