(* C06, remote kind: the frontend thread which forwards the remote child's partial results to the results pipe
   (PersistentRemoteWorker._fetch_results).  Input: the messages arriving on the data connection - partial
   results with the child's counter, the child's end marker, the final 2-tuple - cut anywhere (connection closed,
   or a message that cannot be rebuilt).  Output: what a consumer of the results pipe sees.
   Parameterised by the shape flags regenerated from the source (Gen/Forwarder.v). *)
From Coq Require Export List Bool Arith Lia ZArith.
From PW Require Export Persist.ForwarderFlags.
Export ListNotations.

Inductive cmsg :=
| FRes (k : nat) (v : Z)     (* (k, True, v, id): the k-th partial result *)
| FEnd (k : nat)             (* (k, False, None, id): the child's end marker, k = its counter *)
| FFinal.                    (* the final (graceful, value) pair, followed by the user state *)

Inductive omsg := ORes (v : Z) | OEnd.

Record fst_ := mkF {
  counter : nat;             (* results forwarded so far *)
  signalled : bool;          (* an end marker has been forwarded *)
  out : list omsg;           (* written to the results pipe *)
  running : bool;            (* still in the loop *)
  crashed : bool             (* an assert fired: the thread is gone, nothing more happens *)
}.

Section Fwd.
  Variable fl : fflags.

  Definition fstep (s : fst_) (m : cmsg) : fst_ :=
    if negb (running s) then s else
    match m with
    | FRes k v =>
        let c := S (counter s) in
        let ok := Nat.eqb c k in
        if res_put_first fl then mkF c (signalled s) (out s ++ [ORes v]) ok (negb ok)
        else if ok then mkF c (signalled s) (out s ++ [ORes v]) true false
             else mkF c (signalled s) (out s) false true
    | FEnd k =>
        let ok := Nat.eqb k (counter s) in
        if end_put_first fl then mkF (counter s) true (out s ++ [OEnd]) ok (negb ok)
        else if ok then mkF (counter s) true (out s ++ [OEnd]) true false
             else mkF (counter s) (signalled s) (out s) false true
    | FFinal =>
        if final_breaks fl
        then mkF (counter s) (signalled s || final_marks fl)
                 (if final_marks fl && negb (signalled s) then out s ++ [OEnd] else out s) false false
        else s
    end.

  (* the connection ends (closed by the peer, reset, or a message that cannot be rebuilt) *)
  Definition fclose (s : fst_) : fst_ :=
    if negb (running s) then s else
    if exc_marker fl then
      mkF (counter s) true (if signalled s then out s else out s ++ [OEnd]) false false
    else mkF (counter s) (signalled s) (out s) false true.

  Definition finit : fst_ := mkF 0 false [] true false.

  (* what the consumer sees: the messages, and whether the pipe gets closed (EOF) *)
  Definition forward (stream : list cmsg) : list omsg * bool :=
    let s := fclose (fold_left fstep stream finit) in
    (out s, negb (crashed s) && closes_at_end fl).

  Definition results (l : list omsg) : list Z :=
    flat_map (fun m => match m with ORes v => [v] | OEnd => [] end) l.
  Definition ends (l : list omsg) : bool := existsb (fun m => match m with OEnd => true | _ => false end) l.
End Fwd.

(* what a persistent remote child can put on the wire (Persist/Model.v: results numbered 1..k in order; on the way
   out an end marker carrying its counter, which is k, or k+1 if it died between the increment and the send; then
   the final pair) - and the connection may go away after any prefix *)
Fixpoint numbered (from : nat) (vs : list Z) : list cmsg :=
  match vs with [] => [] | v :: r => FRes from v :: numbered (S from) r end.

Definition child_stream (vs : list Z) (marker : option bool) (final : bool) (cut : nat) : list cmsg :=
  firstn cut (numbered 1 vs
              ++ (match marker with Some ahead => [FEnd (length vs + (if ahead then 1 else 0))] | None => [] end)
              ++ (if final then [FFinal] else [])).
