From PW Require Import Persist.Forwarder.

Definition good_fflags (fl : fflags) : Prop :=
  exc_marker fl = true /\ res_put_first fl = true /\ end_put_first fl = true /\ final_breaks fl = true /\ closes_at_end fl = true
  /\ final_marks fl = true.

Section P.
  Variable fl : fflags.
  Hypothesis G : good_fflags fl.

  (* forwarding the results numbered from c+1 *)
  Lemma fold_numbered : forall vs s,
    running s = true -> crashed s = false ->
    let s' := fold_left (fstep fl) (numbered (S (counter s)) vs) s in
    out s' = out s ++ map ORes vs /\ counter s' = counter s + length vs /\ running s' = true /\ crashed s' = false
    /\ signalled s' = signalled s.
  Proof.
    destruct G as [_ [G2 _]].
    induction vs as [|v r IH]; intros s Hr Hc; cbn zeta; cbn [numbered fold_left].
    - rewrite app_nil_r. repeat split; auto.
    - set (s1 := fstep fl s (FRes (S (counter s)) v)).
      assert (E : s1 = mkF (S (counter s)) (signalled s) (out s ++ [ORes v]) true false).
      { unfold s1, fstep. rewrite Hr, G2. cbn. rewrite Nat.eqb_refl. reflexivity. }
      assert (C1 : counter s1 = S (counter s)) by (rewrite E; reflexivity).
      rewrite <- C1. destruct (IH s1) as [A [B [C [D F]]]]; [rewrite E; reflexivity|rewrite E; reflexivity|].
      cbn zeta in *. rewrite A, B, C, D, F, E. cbn. rewrite <- app_assoc. repeat split; auto; lia.
  Qed.

  Lemma results_app a b : results (a ++ b) = results a ++ results b.
  Proof. unfold results. apply flat_map_app. Qed.
  Lemma results_map vs : results (map ORes vs) = vs.
  Proof. induction vs as [|v r IH]; cbn; [reflexivity|]. unfold results in IH. rewrite IH. reflexivity. Qed.
  Lemma ends_app a b : ends (a ++ b) = ends a || ends b.
  Proof. unfold ends. apply existsb_app. Qed.

  Lemma fold_stopped l : forall s, running s = false -> fold_left (fstep fl) l s = s.
  Proof. induction l as [|m r IH]; intros s H; cbn; [reflexivity|]. unfold fstep at 2. rewrite H. cbn. now apply IH. Qed.

  Lemma firstn_numbered n : forall vs from, firstn n (numbered from vs) = numbered from (firstn n vs).
  Proof. induction n as [|n IH]; intros [|v r] from; cbn; auto. now rewrite IH. Qed.

  Lemma length_numbered vs : forall from, length (numbered from vs) = length vs.
  Proof. induction vs; intros; cbn; auto. Qed.

  (* once an end marker has been forwarded, the final pair (if it still arrives) adds nothing to the pipe *)
  Lemma after_marker s l : signalled s = true -> (l = [] \/ l = [FFinal]) ->
    out (fclose fl (fold_left (fstep fl) l s)) = out s.
  Proof.
    destruct G as [G1 [_ [_ [G4 [_ G6]]]]]. destruct s as [c sg o r cr]. cbn [signalled]. intros -> [->| ->];
      cbn [fold_left]; unfold fclose, fstep; cbn [running signalled out counter crashed];
      destruct r; cbn [negb]; rewrite ?G1, ?G4, ?G6; cbn; reflexivity.
  Qed.

  (* THE theorem for the remote kind: whatever prefix of whatever the child can send arrives, the consumer of the results
     pipe sees a prefix of the child's results, in order, nothing else - and the stream ENDS with an end marker on the pipe
     (the pipe is closed as well, but the default results pipe is an in-memory queue on which nobody can observe that) *)
  Theorem forward_prefix_and_ends vs marker final cut :
    let '(o, closed) := forward fl (child_stream vs marker final cut) in
    (exists j, results o = firstn j vs) /\ ends o = true.
  Proof.
    pose proof G as [G1 [G2 [G3 [G4 [G5 G6]]]]].
    unfold forward, child_stream.
    set (tail := (match marker with Some ahead => [FEnd (length vs + (if ahead then 1 else 0))] | None => [] end)
                 ++ (if final then [FFinal] else [])).
    destruct (Nat.le_gt_cases cut (length vs)) as [Hle|Hgt].
    - (* the connection goes away inside the partial results *)
      rewrite firstn_app. rewrite length_numbered.
      replace (cut - length vs) with 0 by lia. cbn [firstn]. rewrite app_nil_r, firstn_numbered.
      destruct (fold_numbered (firstn cut vs) (finit) eq_refl eq_refl) as [A [B [C [D F]]]]. cbn zeta in *. cbn [finit counter] in *.
      set (s1 := fold_left (fstep fl) (numbered 1 (firstn cut vs)) finit) in *.
      unfold fclose. rewrite C, G1. cbn [negb]. rewrite F. cbn [finit signalled out crashed negb andb].
      rewrite A. cbn [finit out app]. split.
      + exists cut. rewrite results_app, results_map. cbn. now rewrite app_nil_r.
      + rewrite ends_app. cbn. now rewrite Bool.orb_true_r.
    - (* all results arrive, then some prefix of [marker; final] *)
      rewrite firstn_app, length_numbered. rewrite (firstn_all2 (numbered 1 vs)) by (rewrite length_numbered; lia).
      rewrite fold_left_app.
      destruct (fold_numbered vs finit eq_refl eq_refl) as [A [B [C [D F]]]]. cbn zeta in *. cbn [finit counter out signalled] in *.
      set (s1 := fold_left (fstep fl) (numbered 1 vs) finit) in *.
      assert (R1 : results (out s1) = vs) by (rewrite A; cbn; apply results_map).
      assert (Pref : forall l, results l = vs -> exists j, results l = firstn j vs).
      { intros l H. exists (length vs). now rewrite firstn_all. }
      destruct marker as [ahead|]; unfold tail; cbn [app].
      + (* the child's end marker *)
        destruct (cut - length vs) as [|k] eqn:Ek; [lia|]. cbn [firstn fold_left].
        set (s2 := fstep fl s1 (FEnd (length vs + (if ahead then 1 else 0)))).
        assert (E2 : out s2 = out s1 ++ [OEnd] /\ signalled s2 = true).
        { unfold s2, fstep. rewrite C, G3. cbn. auto. }
        destruct E2 as [O2 S2].
        assert (E2 : ends (out s2) = true) by (rewrite O2, ends_app; cbn; now rewrite Bool.orb_true_r).
        assert (R2 : results (out s2) = vs) by (rewrite O2, results_app; cbn; now rewrite app_nil_r).
        (* what follows is at most the final pair: the marker stays, the results are unchanged *)
        rewrite (after_marker s2 (firstn k (if final then [FFinal] else [])) S2) by (destruct final; destruct k as [|[|k2]]; cbn; auto).
        split; [apply Pref; exact R2|exact E2].
      + (* no marker from the child: killed, or the server fabricated the final pair *)
        destruct final; cbn [app].
        * destruct (cut - length vs) as [|k]; cbn [firstn fold_left].
          -- unfold fclose. rewrite C, G1, F. cbn. split; [apply Pref; rewrite results_app; cbn; now rewrite app_nil_r|].
             rewrite ends_app. cbn. now rewrite Bool.orb_true_r.
          -- set (s2 := fstep fl s1 FFinal).
             assert (E2 : s2 = mkF (counter s1) true (out s1 ++ [OEnd]) false false).
             { unfold s2, fstep. rewrite C, G4, G6, F. reflexivity. }
             rewrite (fold_stopped _ s2) by (rewrite E2; reflexivity).
             unfold fclose. rewrite E2. cbn.
             split; [apply Pref; rewrite results_app; cbn; now rewrite app_nil_r|]. rewrite ends_app. cbn. now rewrite Bool.orb_true_r.
        * rewrite firstn_nil. cbn [fold_left]. unfold fclose. rewrite C, G1, F. cbn.
          split; [apply Pref; rewrite results_app; cbn; now rewrite app_nil_r|]. rewrite ends_app. cbn. now rewrite Bool.orb_true_r.
  Qed.
End P.

(* the two regressions this shape rules out *)
Theorem stream_never_ends_if_asserts_come_first :
  exists fl, end_put_first fl = false /\ closes_at_end fl = true /\ exc_marker fl = true /\
    forward fl (child_stream [5%Z] (Some true) true 3) = ([ORes 5%Z], false).
Proof. exists (Build_fflags true true false true true true). repeat split. Qed.

Theorem stream_never_ends_if_close_is_conditional :
  exists fl, closes_at_end fl = false /\ end_put_first fl = true /\
    forward fl (child_stream [] None true 1) = ([], false).
Proof. exists (Build_fflags true true true true false false). repeat split. Qed.

(* the third one, found on the code as it was: the final pair without a marker before it (a child ended by force - the pair comes
   from the server) left the pipe without an end marker; closing an in-memory queue wakes nobody *)
Theorem stream_has_no_marker_if_the_final_pair_adds_none :
  exists fl, final_marks fl = false /\ closes_at_end fl = true /\
    forward fl (child_stream [7%Z] None true 2) = ([ORes 7%Z], true).
Proof. exists (Build_fflags true true true true true false). repeat split. Qed.
