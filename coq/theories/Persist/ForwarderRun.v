(* Entry point for the correspondence check of the remote forwarder (harness/props/c06.py). *)
From PW Require Import Persist.Forwarder Gen.Forwarder.
Open Scope Z_scope.

Definition omsg_eqb (a b : omsg) : bool :=
  match a, b with ORes x, ORes y => x =? y | OEnd, OEnd => true | _, _ => false end.
Fixpoint olist_eqb (a b : list omsg) : bool :=
  match a, b with [], [] => true | x :: a', y :: b' => omsg_eqb x y && olist_eqb a' b' | _, _ => false end.

(* stream: the messages which arrive before the connection goes away; observed: what was put on the results pipe
   and whether the pipe was closed *)
Definition check_forward (stream : list cmsg) (o : list omsg) (closed : bool) : bool :=
  let '(o', c') := forward gen_fflags stream in olist_eqb o' o && Bool.eqb c' closed.
