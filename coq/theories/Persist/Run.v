(* Entry points for the correspondence checks of C05/C06 (harness/props/c05.py). *)
From PW Require Import Persist.Model Gen.Persist.
Open Scope Z_scope.

(* the concrete target used by the harness: a positional hash of payloads and mutation counts *)
Definition hmod := 1000000007.
Definition hash_elem (h : Z) (e : elem) : Z := (h * 1000003 + fst e * 7 + Z.of_nat (snd e) * 13 + 1) mod hmod.
Definition hashf (a : list elem) (k : kw) : Z :=
  let h := fold_left hash_elem a 17 in
  fold_left (fun h p => hash_elem ((h * 31 + fst p) mod hmod) (snd p)) k ((h * 5 + 3) mod hmod).

Inductive kind := KThread | KProcess | KRemote.

Definition life (k : kind) := 
  match k with
  | KThread => child_life hashf true send_result_thread do_work_thread cleanup_thread
  | KProcess => child_life hashf true send_result_process do_work_process cleanup_process
  | KRemote => child_life hashf true send_result_remote do_work_remote cleanup_remote
  end.

Definition msg_eqb (a b : msg) : bool :=
  match a, b with
  | MRes c r, MRes c' r' => Nat.eqb c c' && (r =? r')
  | MEnd c, MEnd c' => Nat.eqb c c'
  | _, _ => false
  end.
Fixpoint msgs_eqb (a b : list msg) : bool :=
  match a, b with [], [] => true | x :: a', y :: b' => msg_eqb x y && msgs_eqb a' b' | _, _ => false end.

(* died: did the implementation's child die with an error (True) or finish (False) *)
Definition check_child (k : kind) (d : list Z) (tuple : bool) (dk : list (Z * Z)) (es : list enq)
           (observed : list msg) (died : bool) : bool :=
  let '(ms, e) := life k d tuple dk es in
  msgs_eqb ms observed && Bool.eqb died (match e with Some _ => true | None => false end).

Definition pobs_eqb (a b : pobs) : bool :=
  match a, b with
  | OVal x, OVal y => x =? y
  | OEmpty, OEmpty | OClosedErr, OClosedErr | OOk, OOk | OWouldBlock, OWouldBlock => true
  | OResult n, OResult m => Nat.eqb n m
  | _, _ => false
  end.
Fixpoint pobss_eqb (a b : list pobs) : bool :=
  match a, b with [], [] => true | x :: a', y :: b' => pobs_eqb x y && pobss_eqb a' b' | _, _ => false end.

Definition guard_of (k : kind) : enq_guard :=
  match k with KThread => enq_guard_thread | KProcess => enq_guard_process | KRemote => enq_guard_remote end.

Definition check_parent (k : kind) (d : list Z) (dk : list (Z * Z)) (ops : list pop) (observed : list pobs) : bool :=
  let g := fun e => hashf (merge_args d e) (merge_kw dk e) in
  pobss_eqb (prun (guard_of k) g pst0 ops) observed.
