(* Shape of PersistentRemoteWorker._fetch_results, read from the source by tools/py2coq/gen_forwarder.py. *)
Record fflags := {
  exc_marker : bool;
  res_put_first : bool;
  end_put_first : bool;
  final_breaks : bool;
  closes_at_end : bool;
  final_marks : bool      (* the final pair, when no end marker has been forwarded, makes the thread put one before it leaves *)
}.
