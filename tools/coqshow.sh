#!/bin/bash
# usage: coqshow.sh FILE LINE  -- compile FILE truncated before LINE with "Show." appended, print goals
f=$1; n=$2
tmp=$(mktemp -d /var/tmp/coqshow.XXXX)
base=$(basename $f .v)
head -n $((n-1)) $f > $tmp/$base.v
echo "Show. Abort." >> $tmp/$base.v
cd /verif/coq && timeout 120 coqc -Q theories PW $tmp/$base.v 2>&1 | tail -${3:-60}
rm -rf $tmp
