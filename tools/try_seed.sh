#!/bin/bash
# usage: tools/try_seed.sh Cxx/mN [quick|thorough]   - runs the property's check against a scratch worktree of /repo with the seeded
# change applied (PYWORKERS_REPO); /repo itself is never touched; the worktree is removed afterwards.  NB: overwrites evidence/Cxx.json.
s=$1; tier=${2:-quick}; p=${s%%/*}
wt=/var/tmp/try_${p}_${s##*/}
git -C /repo worktree remove --force $wt 2>/dev/null
git -C /repo worktree add -q --detach $wt HEAD && git -C $wt apply $PWD/seeded/$s/patch.diff || { echo "does not apply"; git -C /repo worktree remove --force $wt; exit 3; }
PYWORKERS_REPO=$wt timeout 3000 bin/check $p $tier 2>&1 | grep -E "^VIOLATION|^\[$p\]" | cut -c1-300
f=$(ls -t replays/$p-*.json 2>/dev/null | head -1); [ -n "$f" ] && python3 - "$f" <<'PY' 2>/dev/null
import json,sys
d=json.load(open(sys.argv[1]))
if d.get('first'): print('   first:', json.dumps(d['first'], default=repr)[:700])
for b in (d.get('broken') or [])[:3]: print('   broken:', json.dumps(b.get('what') if isinstance(b,dict) else b)[:200])
for b in (d.get('tie_broken') or [])[:3]: print('   tie:', json.dumps(b, default=repr)[:200])
PY
git -C /repo worktree remove --force $wt
