#!/bin/bash
# usage (inside `vp run --with-repo -- bash tools/seed_matrix.sh [quick|thorough] Cxx/mN ...`):
# for each seeded change in turn: apply it to the SNAPSHOT of /repo ($VP_RUN_REPO), run the check of the
# property it breaks from this snapshot of /verif, print one summary line, undo it.  /repo itself is never touched.
tier=quick
case "$1" in quick|thorough) tier=$1; shift;; esac
repo=${VP_RUN_REPO:?needs vp run --with-repo}
export PYWORKERS_REPO="$repo"
bin/setup > setup.log 2>&1
for s in "$@"; do
  prop=${s%%/*}
  patch=$PWD/seeded/$s/patch.diff
  git -C "$repo" checkout -q -- . ; git -C "$repo" clean -fdq
  if ! git -C "$repo" apply "$patch" 2>/dev/null; then echo "SEED $s DOES-NOT-APPLY"; continue; fi
  t0=$(date +%s)
  timeout 3600 bin/check "$prop" "$tier" > "check_${prop}_${s##*/}.log" 2>&1; rc=$?
  line=$(grep -E "^VIOLATION" "check_${prop}_${s##*/}.log" | head -1)
  f=$(echo "$line" | grep -oE "replay=[^ ]+" | cut -d= -f2)
  first=""
  [ -n "$f" ] && [ -f "$f" ] && first=$(python3 - "$f" <<'PY'
import json,sys
d=json.load(open(sys.argv[1]))
out=[]
if d.get('first'): out.append('first: '+json.dumps(d['first'], default=repr)[:700])
for b in (d.get('broken') or [])[:3]: out.append('broken: '+json.dumps(b if not isinstance(b,dict) else b.get('what'), default=repr)[:300])
for b in (d.get('tie_broken') or [])[:3]: out.append('tie: '+json.dumps(b, default=repr)[:200])
print(' || '.join(out))
PY
)
  echo "SEED $s tier=$tier exit=$rc wall=$(( $(date +%s) - t0 ))s $line :: $first"
  git -C "$repo" checkout -q -- . ; git -C "$repo" clean -fdq
done
echo SEEDMATRIX DONE
