#!/usr/bin/env python3
"""Source pins (T-S for hand-written models): a normalised hash of every function a
hand-written Coq model was written from.  `pin.py update` rewrites /verif/pins.json from
/repo; the checks call `verify(prop)` and treat a mismatch as a broken tie (the model may
no longer describe the code), after which they search for a failing input.
Normalisation: docstrings, comments, logger.* calls and line numbers do not count."""
import ast
import hashlib
import json
import os
import sys

VERIF = os.path.dirname(os.path.dirname(os.path.abspath(__file__)))
REPO = os.environ.get('PYWORKERS_REPO', '/repo')

# property -> list of (file, qualified name)
PINS = {
    'C07': [('pyworkers/pool.py', 'Pool.run'), ('pyworkers/pool.py', 'Pool.__init__')],
    'C08': [('pyworkers/pool.py', 'Pool.run'), ('pyworkers/pool.py', 'PoolError')],
    'C13': [('pyworkers/_remote_pickle/remote_pickler_3_6.py', 'dyn_dispatch_table'),
            ('pyworkers/_remote_pickle/remote_pickler_3_6.py', 'RemotePickler36.__init__'),
            ('pyworkers/_remote_pickle/remote_pickler_3_6.py', 'RemotePickler36.subject_to_custom_reduce'),
            ('pyworkers/remote_pickle.py', 'SupportRemoteGetStateMeta.__subclasscheck__'),
            ('pyworkers/remote_pickle.py', 'SupportRemoteGetStateMeta.__init__')],
    'C14': [('pyworkers/_remote_pickle/remote_pickler_3_6.py', 'RemotePickler36.remote_reduce'),
            ('pyworkers/_remote_pickle/state.py', 'RemoteState')],
    'C15': [('pyworkers/_remote_pickle/state.py', 'RemoteState'),
            ('pyworkers/remote_pickle.py', 'remote_loads'), ('pyworkers/remote_pickle.py', 'remote_load')],
    'C04': [('pyworkers/thread.py', 'ThreadWorker.is_alive'), ('pyworkers/thread.py', 'ThreadWorker.wait'), ('pyworkers/thread.py', 'ThreadWorker.terminate'),
            ('pyworkers/process.py', 'ProcessWorker.is_alive'), ('pyworkers/process.py', 'ProcessWorker.wait'), ('pyworkers/process.py', 'ProcessWorker.terminate'),
            ('pyworkers/persistent_process.py', 'PersistentProcessWorker.wait'), ('pyworkers/persistent_process.py', 'PersistentProcessWorker.close'),
            ('pyworkers/persistent_process.py', 'PersistentProcessWorker._release_child'), ('pyworkers/utils.py', 'PipeEndpoint'),
            ('pyworkers/persistent_thread.py', 'PersistentThreadWorker.wait'), ('pyworkers/persistent_thread.py', 'PersistentThreadWorker.close'),
            ('pyworkers/persistent_thread.py', 'PersistentThreadWorker._release_child'), ('pyworkers/persistent_thread.py', 'PersistentThreadWorker.terminate')],
    'C11': [('pyworkers/remote_server.py', 'RemoteServer.run'), ('pyworkers/remote_server.py', 'RemoteServer.__init__')],
    'C18': [('pyworkers/remote_server.py', 'RemoteServer.run'), ('pyworkers/remote_context.py', 'RemoteContext')],
    'C20': [('pyworkers/remote.py', 'RemoteWorker._start'), ('pyworkers/remote.py', 'RemoteWorker._run_frontend'), ('pyworkers/remote.py', 'RemoteWorker.__setstate__'),
            ('pyworkers/process.py', 'ProcessWorker._start'), ('pyworkers/thread.py', 'ThreadWorker._start')],
    'C09': [('pyworkers/pool.py', 'Pool.add_worker'), ('pyworkers/pool.py', 'Pool.attach'), ('pyworkers/pool.py', 'Pool._close'),
            ('pyworkers/pool.py', 'Pool.close'), ('pyworkers/pool.py', 'Pool.terminate'), ('pyworkers/pool.py', 'Pool.__exit__'),
            ('pyworkers/pool.py', 'Pool.restart_workers'), ('pyworkers/pool.py', 'Pool.run'), ('pyworkers/persistent.py', 'PersistentWorker.restart')],
    'C17': [('pyworkers/persistent.py', 'PersistentWorker.restart'), ('pyworkers/persistent.py', 'PersistentWorker.__init__'),
            ('pyworkers/worker.py', 'Worker._get_restart_args'), ('pyworkers/remote.py', 'RemoteWorker._get_restart_args'),
            ('pyworkers/pool.py', 'Pool.restart_workers'),
            ('pyworkers/persistent_thread.py', 'PersistentThreadWorker.__init__'), ('pyworkers/persistent_process.py', 'PersistentProcessWorker.__init__'),
            ('pyworkers/persistent_thread.py', 'PersistentThreadWorker.wait'), ('pyworkers/persistent_process.py', 'PersistentProcessWorker.wait')],
    'C05': [('pyworkers/persistent.py', 'PersistentWorker.next_result'), ('pyworkers/persistent.py', 'PersistentWorker.results_iter'),
            ('pyworkers/persistent.py', 'PersistentWorker.call')],
}


class Strip(ast.NodeTransformer):
    def visit_Expr(self, node):
        v = node.value
        if isinstance(v, ast.Constant) and isinstance(v.value, str):
            return None
        if (isinstance(v, ast.Call) and isinstance(v.func, ast.Attribute) and isinstance(v.func.value, ast.Name)
                and v.func.value.id == 'logger'):
            return None
        return self.generic_visit(node)


def find(tree, qual):
    node = tree
    for part in qual.split('.'):
        nxt = None
        for n in ast.walk(node) if node is tree else node.body:
            if isinstance(n, (ast.FunctionDef, ast.ClassDef)) and n.name == part:
                nxt = n
                break
        if nxt is None:
            return None
        node = nxt
    return node


def digest(path, qual):
    try:
        tree = ast.parse(open(os.path.join(REPO, path), newline=None).read())
    except (OSError, SyntaxError) as e:
        return f'unreadable: {e}'
    node = find(tree, qual)
    if node is None:
        return 'missing'
    node = Strip().visit(node)
    for n in ast.walk(node):
        if isinstance(n, (ast.FunctionDef, ast.ClassDef, ast.If, ast.For, ast.While, ast.With, ast.Try)) and hasattr(n, 'body') and not n.body:
            n.body = [ast.Pass()]
    return hashlib.sha256(ast.dump(node, include_attributes=False).encode()).hexdigest()[:20]


def verify(prop):
    """returns list of human-readable mismatches for this property"""
    p = os.path.join(VERIF, 'pins.json')
    pinned = json.load(open(p)) if os.path.exists(p) else {}
    out = []
    for path, qual in PINS.get(prop, []):
        want = pinned.get(f'{path}::{qual}')
        got = digest(path, qual)
        if want != got:
            out.append(f'{path}::{qual} changed since the model was validated against it (pinned {want}, now {got})')
    return out


if __name__ == '__main__':
    if sys.argv[1:] == ['update']:
        pins = {}
        for prop, lst in PINS.items():
            for path, qual in lst:
                pins[f'{path}::{qual}'] = digest(path, qual)
        json.dump(pins, open(os.path.join(VERIF, 'pins.json'), 'w'), indent=1, sort_keys=True)
        print(len(pins), 'pins written')
    else:
        for prop in PINS:
            print(prop, verify(prop))
