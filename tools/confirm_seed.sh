#!/bin/bash
# usage: confirm_seed.sh <seed dir> [pytest args...]   -- confirms a seeded change in a scratch worktree of /repo
# checks: demo passes on clean tree, fails with the patch; given tests pass with the patch. Writes confirm.json into the seed dir.
d=$(realpath $1); shift
wt=$(mktemp -d /var/tmp/seedwt.XXXX); rmdir $wt
git -C /repo worktree add -q $wt HEAD || exit 2
cd $wt
PYTHONPATH=$wt timeout 600 /venv/bin/python $d/demo.py >/dev/null 2>&1; clean=$?
git apply $d/patch.diff || { echo "patch does not apply"; git -C /repo worktree remove --force $wt; exit 2; }
PYTHONPATH=$wt timeout 600 /venv/bin/python $d/demo.py >/dev/null 2>&1; patched=$?
tests="skipped"; trc=0
if [ $# -gt 0 ]; then
  PYTHONPATH=$wt timeout 3000 /venv/bin/python -m pytest -q -p no:cacheprovider --timeout=900 "$@" > $d/tests.log 2>&1; trc=$?
  tests=$(tail -1 $d/tests.log)
fi
cd /; git -C /repo worktree remove --force $wt
echo "{\"base\": \"$(git -C /repo rev-parse --short HEAD)\", \"demo_clean_exit\": $clean, \"demo_patched_exit\": $patched, \"tests_exit\": $trc, \"tests\": \"$tests\", \"tests_args\": \"$*\"}" > $d/confirm.json
cat $d/confirm.json
